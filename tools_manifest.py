"""Regenerate MANIFEST.json from the table below (kept valid at all times)."""
import json

props = [json.loads(l) for l in open("properties.jsonl")]
CLAIMED = {
    "C09": {
        "level": "proof",
        "text": "Every method of the real Stack, SnapshottingInt and ParserState.checkpoint/ok/restore is turned into verification conditions from the current source (pyvc: path-wise symbolic execution over z3 terms) and proved against the full-copy reference of the property: view-after = reference-op(view-before), representation invariant preserved (inductive, so all histories of any length), results equal, only documented exceptions. 131 obligations, z3 with cvc5 fallback.",
        "design_ref": "DESIGN.md section 4 / C09",
        "note": "Trusted: pyvc's encoding of the Python subset used (cross-checked by seeded mutants), z3/cvc5, five list-reversal lemma instances, distinctness of the three lists of a Stack (proved for __init__). Partial correctness. Replay search (bounded, <=7 ops) is only used to concretise refutations.",
        "technique": "contract-based deductive verification: sidecar contracts + VC generation from the real AST, discharged by z3/cvc5",
    },
}
PENDING_REASON = "not yet built (build in progress, see DESIGN.md section 8)"
NA = {
    "C17": "whole-language agreement with external oracles (RFC 8259 / json.loads, three example calculator programs): no contract within reach of this verifier can state or decide it; see DESIGN.md section 5",
}
checks = []
na = []
for p in props:
    i = p["id"]
    if i in CLAIMED:
        c = CLAIMED[i]
        checks.append({
            "property_id": i,
            "quick_cmd": f"./check {i} --tier quick",
            "thorough_cmd": f"./check {i} --tier thorough",
            "evidence_file": f"evidence/{i}.json",
            "replay_cmd_template": "./check replay {path}",
            "engine": "pyvc",
            "level_claimed": {"category": c["level"], "text": c["text"], "design_ref": c["design_ref"]},
            "level_note": c["note"],
            "technique": c["technique"],
        })
    else:
        na.append({"property_id": i, "reason": NA.get(i, PENDING_REASON)})
m = {
    "version": 1,
    "setup_cmd": "./setup.sh",
    "hooks": {
        "guard": "PYTHON_PEST_VERIF",
        "enable": "no hooks: contracts are sidecar files under /verif/contracts; templates are obtained by calling the real generator with stub children",
        "baseline_off_cmd": "cd /repo && /venv/bin/python -m pytest -ra -q -p no:cacheprovider --timeout=900 --continue-on-collection-errors",
        "source_commits": [],
        "add_only": True,
    },
    "engines": [{
        "name": "pyvc",
        "path": "pyvc/",
        "serves_properties": sorted(CLAIMED),
        "kind_free_text": "verification-condition generator for a Python subset: reads the real functions from /repo/src with ast on every run, executes them symbolically path by path against sidecar contracts (contracts/*.py), discharges every obligation with z3 5.1 (cvc5 1.0.3 on unknown)",
    }],
    "checks": checks,
    "notes": "Build in progress; properties move from not_applicable to checks as their contracts are brought under the verifier. Repository fixes are recorded in KNOWN_FINDINGS.txt.",
    "not_applicable": na,
}
json.dump(m, open("MANIFEST.json", "w"), indent=1)
import jsonschema
jsonschema.validate(m, json.load(open("/root/.vp/MANIFEST.schema.json")))
print("MANIFEST ok:", len(checks), "checks")
