"""Regenerate MANIFEST.json from the table below (kept valid at all times)."""
import json

props = [json.loads(l) for l in open("properties.jsonl")]
CLAIMED = {
    "C09": {
        "level": "proof",
        "text": "Every method of the real Stack, SnapshottingInt and ParserState.checkpoint/ok/restore is turned into verification conditions from the current source (pyvc: path-wise symbolic execution over z3 terms) and proved against the full-copy reference of the property: view-after = reference-op(view-before), representation invariant preserved (inductive, so all histories of any length), results equal, only documented exceptions. 131 obligations, z3 with cvc5 fallback.",
        "design_ref": "DESIGN.md section 4 / C09",
        "note": "Trusted: pyvc's encoding of the Python subset used (cross-checked by seeded mutants), z3/cvc5, five list-reversal lemma instances, distinctness of the three lists of a Stack (proved for __init__). Partial correctness. Replay search (bounded, <=7 ops) is only used to concretise refutations.",
        "technique": "contract-based deductive verification: sidecar contracts + VC generation from the real AST, discharged by z3/cvc5",
    },
}

TECH = "contract-based deductive verification: sidecar contracts + VC generation from the real AST (pyvc), discharged by z3/cvc5"
NOTE = "Trusted: pyvc's encoding of the Python subset, z3/cvc5, C09 call-site contracts, children/trivia as oracles under the generic contract G with the grammar-level induction as a paper argument, regex semantics of the terminal shapes. Partial correctness (termination not decided). Replay searches (replay/diff4, bounded) only concretise refutations. Generated-code side of this property is carried by C01."
CLAIMED.update({
    "C01": {"level": "proof", "text": "The code emitted by the real generate() of every Expression subclass (obtained on every run by calling the real generator with stub children), by Rule.generate (12 modifier/name instances), generate_parse_trivia (8 configurations) and the emitted parse() entry point is proved to refine the same contract K as the interpreter's parse() - result, position, stacks, atomic depth, tags, furthest-failure bookkeeping, delivered pairs - for all inputs, start positions, states and child behaviours, with the result flag unassigned at entry and junk left by failing children. 3400+ obligations. Module assembly and byte-identical regeneration are bounded structural checks.", "design_ref": "DESIGN.md section 4 / C01", "note": NOTE.replace(" Generated-code side of this property is carried by C01.", "") + " Bounded: arity of unrolled Sequence/Choice templates (0..3 quick, 0..5 thorough), catalogue of terminal parameters, structural module checks.", "technique": TECH},
    "C13": {"level": "proof", "text": "ParserState.fail's real body is proved (6 instances of force/rule_name) to keep furthest_pos = max(furthest_pos, pos) inside {-1} + [start_pos, len(input)], to be silent when suppressed or inside a negative predicate, to leave position/stacks/counters untouched and to add only the given rule name (or the name on top of the rule stack) and label to the expected/unexpected maps; ParserState.__init__ establishes the initial state; error_context returns the line/column of the failure position (C14's Spec) and that line, for all texts and offsets. With the furthest-position clauses of every operator proof (C01, C03-C05) the position claim holds for all grammars and inputs. Rendering totality of detailed_message/expected/expected_labels/join_with_limit is a bounded run-time stand-in (closures, str.join, itertools.chain are outside the dialect).", "design_ref": "DESIGN.md section 4 / C13", "note": "Trusted: pyvc's encoding (dicts abstracted as key/label sequences), z3/cvc5, C14's splitlines contract, rstrip opaque, frame argument that rule-stack entries are grammar rules. Not proved: message rendering totality (bounded stand-in over 7 texts x all positions x 12 map shapes).", "technique": TECH},
    "C14": {"level": "proof", "text": "Position.line_col / line_of, Span.lines / __str__ / as_str / start_pos / end_pos / split and Pair.span / line_col are executed symbolically from the current source for an arbitrary text and arbitrary offsets 0 <= p <= len and proved against the declarative line/column Spec of the property (1 + number of line breaks before p, distance from the last line break; the lines a span touches); the splitlines scan by loop invariant. No bound on text length.", "design_ref": "DESIGN.md section 4 / C14", "note": "Trusted: pyvc's encoding of the Python subset, z3/cvc5, the contract of str.splitlines(keepends=True) for '\\n'-separated text (validated on every run by exhaustive comparison over {a,b,\\n}^<=7, bounded). The exhaustive small-scope comparison of the real functions with the Spec is a labelled stand-in.", "technique": TECH},
    "C15": {"level": "proof", "text": "Frame (write-effect) contracts on the real parse path: for every Expression.parse (all classes incl. the optimizer-only ones), ParserState.parse_trivia, Parser.parse and every emitted template, each explored path's complete heap-write log (including writes made through callee contracts) is an obligation: writes go only to the per-parse ParserState and its components, the caller's pairs list, or objects the activation allocated - never to the expression, the parser, the rule table or module-level objects. The lazy OptimizedChoice pattern cache is proved idempotent (a function of `choices`, which has no writer on the parse path). History- and schedule-independence follow by confinement (stated, not mechanised).", "design_ref": "DESIGN.md section 4 / C15", "note": NOTE + " NOT proved: the construction side (Parser.__init__, from_grammar, Optimizer.optimize, passes, generate_module) is outside the dialect; it is covered by a bounded dynamic check (deep fingerprints of all shared objects before/after, history independence of observed parses, 8 threads). GIL-level atomicity and thread-safety of regex pattern objects are assumed.", "technique": TECH},
    "C16": {"level": "proof", "text": "Per terminal Spec clause a shift lemma is proved for all texts T, all k and all positions (startswith, one-code-point tests, EOI, the text PUSH records, fail()'s furthest-position update, len): the answers on <T, p+k> and <T[k:], p> agree up to the shift. The real terminals (interpreter and generated code, re-proved here), ParserState.__init__, ParserState.fail, Parser.parse and the emitted parse() are tied to those clauses by their contracts; an AST audit of every combinator's parse() and of the text its generate() emits is an obligation: positions are only saved, restored and handed on, only _SOI compares a position with a literal, no parsing pattern is anchored, every Expression class is classified.", "design_ref": "DESIGN.md section 4 / C16", "note": NOTE + " Trusted additionally: regex match(s,pos) and str.find(sub,pos) look only at s[pos:] (the latter validated exhaustively on small strings); induction over the expression tree for combinators (meta-argument backed by the audit). Differential stand-in over every k on small grammars.", "technique": TECH},
    "C18": {"level": "proof", "text": "PrattParser.parse_expr is executed symbolically over an arbitrary token sequence, arbitrary prefix/postfix/infix tables (uninterpreted membership/precedence/associativity functions) and free constructor callbacks, and proved to compute the precedence-climbing recurrence that defines binding by declared precedence and associativity: result tree, cursor position, SyntaxError exactly for malformed streams; recursion against its own contract, the operator loop by invariant. Unbounded in tables and stream length.", "design_ref": "DESIGN.md section 4 / C18", "note": "Trusted: pyvc's encoding, z3/cvc5, the recurrence as the meaning of 'binds according to declared precedence' (pest's PrattParser); a declarative binding characterisation is compared on all small tables/streams as a bounded stand-in. Callbacks are pure constructors; Stream.next/peek inlined. Partial correctness.", "technique": TECH},
    "C02": {"level": "proof", "text": "The node classes only the optimizer creates (SkipUntil, OptimizedChoice, RegexExpression; bounded repetitions delegate to unroll) are proved against contracts of their own for all inputs and states, in interpreter and generated code. Every arm of every pass - unroll, skip, inline_builtin, squash_choice, inline_silent_rules, Optimizer._optimize_skip_rule and the driver's applicability test - is run (the real functions) on schematic trees, including the shapes that must not be rewritten, and the before/after trees are obligations: alternative order and merged classes (for all code points), tags kept, SKIP silent and atomic, skip only where no trivia can match; complete line coverage of the pass functions by the schemas is itself an obligation.", "design_ref": "DESIGN.md section 4 / C02", "note": NOTE + " Bounded: finite set of schematic trees per arm. Meta-arguments (unchecked): Rule[SILENT](body) == body up to failure-label attribution; (!(l1|..|lk) ~ ANY)* == SkipUntil where no trivia can match (bounded differential stand-in); composition of passes.", "technique": TECH},
    "C12": {"level": "proof", "text": "For 23 ranges, the 10 ASCII_* built-ins in all four modes, 16 optimizer-merged classes, 11 case-insensitive literals and every Unicode property rule, the actual pattern text and flags that the running code hands to the regex engine (constructor, optimizer output, emitted constant) are compared with the definition for ALL 1,114,112 code points by one z3 integer query per instance and mode; unescape_string, _decode_escape_sequence and _decode_hex_char are executed symbolically and proved against the recursive escape Spec taken from meta.pest for all strings and indices.", "design_ref": "DESIGN.md section 4 / C12", "note": "Trusted: the regex engine implements the assumed semantics of the shapes in pyvc/regexsem.py (validated by an exhaustive code-point sweep on the real engine in the thorough tier, partial in quick); pyvc's encoding; z3/cvc5; _parse_hex_digits' byte loop is covered by a bounded exhaustive stand-in. Bounded-in-catalogue: the range bounds and literals are concrete instances, each decided for all code points.", "technique": TECH},
    "C03": {"level": "proof", "text": "The real parse() of every core operator (literals, ranges, ANY/SOI/EOI, rule references, groups, sequence and choice with symbolic arity, ?, *, +, & and !, normal and silent Rule.parse, Parser.parse) is proved to refine its Spec clause - pest's PEG semantics written from the property text - for all inputs, all parser states and all child behaviours; bounded repetitions are proved to delegate to their unrolled sequences (the unrolled shape is a bounded concrete check).", "design_ref": "DESIGN.md section 4 / C03, Appendix A", "note": NOTE, "technique": TECH},
    "C04": {"level": "proof", "text": "Trivia placement (Sequence: after element i iff a successor exists; e*: between iterations, given back after the last; e+ as e ~ e*), ParserState.parse_trivia in its five configurations against (WHITESPACE|COMMENT)* with all-or-nothing attempts and no trivia when atomic, and Rule.parse's atomic-depth discipline and pair construction for all 12 modifier/name instances are proved from the current source for all inputs/states/children. One open finding (atomic rules hide pairs of nested $/! rules) is listed in KNOWN_FINDINGS.txt.", "design_ref": "DESIGN.md section 4 / C04", "note": NOTE + " Open clause: Rule.parse[@]::K.pairs (finding F8).", "technique": TECH},
    "C05": {"level": "proof", "text": "The eight stack terminals' real parse() are proved against the property's clauses (including failure leaves position and stack unchanged, nothing raises; PEEK_ALL/POP_ALL/PEEK[a..b] by loop invariants over join functions with discharged side lemmas), and Choice/Optional/Repeat/RepeatOnce/&/! are proved to restore <pos, stack, rule stack, atomic depth> exactly after a failed attempt for arbitrary children (any nesting), resting on the C09 contracts.", "design_ref": "DESIGN.md section 4 / C05", "note": NOTE, "technique": TECH},
    "C07": {"level": "proof", "text": "Exception-freedom of the interpreter parse path: every function under contract is executed with IndexError/KeyError/AssertionError/TypeError-on-None/UnboundLocalError as modelled exits and proved not to raise; callees are entered in well-formed states; Parser.parse returns Pairs or raises PestParsingError(state). Termination and recursion depth are not decided (stated in evidence).", "design_ref": "DESIGN.md section 4 / C07", "note": NOTE, "technique": TECH},
})

PENDING_REASON = "not yet built (build in progress, see DESIGN.md section 8)"
NA = {
    "C17": "whole-language agreement with external oracles (RFC 8259 / json.loads, three example calculator programs): no contract within reach of this verifier can state or decide it; see DESIGN.md section 5",
}
checks = []
na = []
for p in props:
    i = p["id"]
    if i in CLAIMED:
        c = CLAIMED[i]
        checks.append({
            "property_id": i,
            "quick_cmd": f"./check {i} --tier quick",
            "thorough_cmd": f"./check {i} --tier thorough",
            "evidence_file": f"evidence/{i}.json",
            "replay_cmd_template": "./check replay {path}",
            "engine": "pyvc",
            "level_claimed": {"category": c["level"], "text": c["text"], "design_ref": c["design_ref"]},
            "level_note": c["note"],
            "technique": c["technique"],
        })
    else:
        na.append({"property_id": i, "reason": NA.get(i, PENDING_REASON)})
m = {
    "version": 1,
    "setup_cmd": "./setup.sh",
    "hooks": {
        "guard": "PYTHON_PEST_VERIF",
        "enable": "no hooks: contracts are sidecar files under /verif/contracts; templates are obtained by calling the real generator with stub children",
        "baseline_off_cmd": "cd /repo && /venv/bin/python -m pytest -ra -q -p no:cacheprovider --timeout=900 --continue-on-collection-errors",
        "source_commits": [],
        "add_only": True,
    },
    "engines": [{
        "name": "pyvc",
        "path": "pyvc/",
        "serves_properties": sorted(CLAIMED),
        "kind_free_text": "verification-condition generator for a Python subset: reads the real functions from /repo/src with ast on every run, executes them symbolically path by path against sidecar contracts (contracts/*.py), discharges every obligation with z3 5.1 (cvc5 1.0.3 on unknown)",
    }],
    "checks": checks,
    "notes": "Build in progress; properties move from not_applicable to checks as their contracts are brought under the verifier. Repository fixes are recorded in KNOWN_FINDINGS.txt.",
    "not_applicable": na,
}
json.dump(m, open("MANIFEST.json", "w"), indent=1)
import jsonschema
jsonschema.validate(m, json.load(open("/root/.vp/MANIFEST.schema.json")))
print("MANIFEST ok:", len(checks), "checks")
