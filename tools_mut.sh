#!/bin/bash
# tools_mut.sh <prop> <file-relative-to-src/pest> <python-regex-old> <new> : run a check against a scratch mutant of /repo
set -e
PROP=$1; FILE=$2; OLD=$3; NEW=$4
M=/tmp/pyvc_mut_$$
rm -rf $M; mkdir -p $M/tests; cp -r /repo/src $M/src; cp -r /repo/tests/grammars $M/tests/grammars; cp -r /repo/examples $M/examples
/verif/.venv/bin/python - "$M/src/pest/$FILE" "$OLD" "$NEW" <<'PY'
import sys
p,old,new=sys.argv[1:4]
s=open(p).read()
assert s.count(old)>=1, "pattern not found"
s=s.replace(old,new,1)
open(p,'w').write(s)
PY
cd /verif
PYVC_OUT=$M/out PYVC_REPO=$M ./check $PROP 2>&1 | grep -v conda | grep -E "^\[|VIOLATION|UNDECIDED|FAULT|KNOWN" | cut -c1-260
echo "exit=${PIPESTATUS[0]}"
rm -rf $M
