"""Development aid: explore one contract instance in-process and print its error / out-of-reach reason / obligation names.
usage: PYTHONPATH=/verif .venv/bin/python tools_dev.py <contracts module> <substring of label> [--solve]
"""
import importlib
import sys

from pyvc.driver import verify
from pyvc.engine import Engine
from pyvc.intake import Program

mod = importlib.import_module(f"contracts.{sys.argv[1]}")
eng = Engine(Program())
for s in mod.specs("quick"):
    lab = s.label or s.target
    if sys.argv[2] not in lab:
        continue
    r = verify(eng, s)
    print("==", lab, "paths", r.paths, "exits", r.exits, "obls", len(r.obligations))
    if r.error:
        print(r.error)
    if r.out_of_reach:
        print("OUT OF REACH:", r.out_of_reach)
    if "--names" in sys.argv:
        for o in r.obligations:
            print("   ", o.name)
