#!/bin/bash
# tools_seed.sh <seed-id> <prop> [<prop>...] : apply seeded/<id>/patch.diff to /repo, run the checks, undo.
# Evidence and replays of these runs go to a scratch directory (PYVC_OUT), never into /verif/evidence.
ID=$1; shift
cd /verif
OUT=$(mktemp -d /tmp/pyvc_seed_out.XXXXXX)
git -C /repo apply /verif/seeded/$ID/patch.diff || { echo "patch does not apply"; rm -rf $OUT; exit 9; }
for P in "$@"; do
  PYVC_OUT=$OUT ./check $P 2>&1 | grep -v conda | grep -E "^\[|VIOLATION|UNDECIDED|FAULT" | cut -c1-230 | head -14
  echo "exit[$P]=${PIPESTATUS[0]}"
done
git -C /repo checkout -- .
rm -rf $OUT
