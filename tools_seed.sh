#!/bin/bash
# tools_seed.sh <seed-id> <prop> [<prop>...] : apply seeded/<id>/patch.diff to /repo, run the checks, undo.
ID=$1; shift
cd /verif
git -C /repo apply /verif/seeded/$ID/patch.diff || { echo "patch does not apply"; exit 9; }
for P in "$@"; do
  ./check $P 2>&1 | grep -v conda | grep -E "^\[|VIOLATION|UNDECIDED|FAULT" | cut -c1-230 | head -6
  echo "exit[$P]=${PIPESTATUS[0]}"
done
git -C /repo checkout -- .
rm -rf replays
