"""Concretiser for the operator properties: run the real library (interpreter / generated
code, each with and without the default optimizer) and the executable Spec (refpeg) on small
grammars and short inputs; report the first disagreement.

Bounded: grammar families below x inputs over a 3-4 letter alphabet up to length 5.
It is used to replay refuted obligations on the real code and as a labelled-bounded
stand-in for functions the verifier cannot reach; it never counts as proof.

  python -m replay.diff4 --family sequence            # search one family
  python -m replay.diff4 --case '<grammar>' a 'x y'   # one case, all modes
"""
from __future__ import annotations

import itertools
import json
import sys

from .refpeg import ref_parse, tagged_tree_of, tree_of

MODES = ("interp", "interp+opt", "gen", "gen+opt")

WSP = 'WHITESPACE = _{ " " }\n'
WSV = 'WHITESPACE = { " " }\n'
CMT = 'COMMENT = _{ "#" ~ "!" }\n'

FAMILIES: dict[str, dict] = {
    "string": {"grammars": ['a = { "x" }', 'a = { "xy" ~ "x" }', 'a = { ^"xy" }', "a = { 'x'..'y' ~ ANY }", 'a = { SOI ~ "x" ~ EOI }'], "alphabet": "xyX", "n": 3},
    "sequence": {"grammars": [WSP + 'a = { "x" ~ "y" }', WSP + 'a = { "x" ~ "y"? }', WSV + 'a = { "x" ~ "y"? ~ "x"* }', WSP + CMT + 'a = { "x" ~ "y" ~ "x"? }'], "alphabet": "xy #!", "n": 5},
    "choice": {"grammars": ['a = { "x" ~ "y" | "x" }', 'a = { ("x" ~ "y" | "x") ~ "x" }', WSP + 'a = { ("x" ~ "y" | "x") ~ "y" }', 'b = { "x" }\na = { b ~ "y" | b ~ "x" | b }',
                             # alternatives sharing a first item, in a rule that ends there (what a choice factorizer rewrites)
                             WSP + 'b = { "x" ~ "y" | "x" }\na = { b ~ "x"? }', WSP + 'b = { "x" | "x" ~ "y" }\na = { b ~ "y"? }', WSP + 'b = { "x" ~ "y" | "x" ~ "x" | "x" }\na = { b* }'], "alphabet": "xy ", "n": 4},
    "optional": {"grammars": ['a = { ("x" ~ "y")? ~ "x" }', 'b = { "x" }\na = { (b ~ "y")? ~ b }', WSP + 'a = { "x"? ~ "y" }'], "alphabet": "xy ", "n": 4},
    "repeat": {"grammars": [WSP + 'a = { "x"* }', WSP + 'a = { "x"* ~ "y" }', WSV + 'a = { ("x" ~ "y")* ~ "x" }', WSP + CMT + 'a = { "x"* }', 'b = { "x" }\na = { (b ~ "y")* }',
                             # repetition of a bare rule reference with non-silent trivia after the last iteration (round-7 seed C04d)
                             WSV + 'b = { "x" }\na = { b* }', WSV + 'b = { "x" }\na = { b* ~ "y" }', WSV + 'b = { "x" }\na = { b+ ~ "y"? }'], "alphabet": "xy #!", "n": 5},
    "repeat_once": {"grammars": [WSP + 'a = { "x"+ }', WSP + 'a = { "x"+ ~ "y" }', WSV + 'a = { ("x" ~ "y")+ ~ "x"? }', 'b = { "x" }\na = { (b ~ "y")+ }'], "alphabet": "xy ", "n": 5},
    "repeat_exact": {"grammars": [WSP + 'a = { "x"{2} }', 'a = { "x"{1} ~ "x" }', WSP + 'a = { "x"{2} ~ "y" }', 'b = { "x" }\na = { (b ~ "y"){2} }', 'a = { "x"{3} }'], "alphabet": "xy ", "n": 5},
    "repeat_min": {"grammars": [WSP + 'a = { "x"{1,} }', WSP + 'a = { "x"{2,} ~ "y" }', 'b = { "x" }\na = { (b ~ "y"){1,} }', 'a = { "x"{2,} }'], "alphabet": "xy ", "n": 5},
    "repeat_max": {"grammars": [WSP + 'a = { "x"{,2} }', 'a = { "x"{,2} ~ "y" }', WSP + 'a = { "x"{,2} ~ "y" }', 'b = { "x" }\na = { (b ~ "y"){,2} }', 'a = { "x"{,1} ~ "x" }'], "alphabet": "xy ", "n": 5},
    "repeat_minmax": {"grammars": [WSP + 'a = { "x"{1,2} }', 'a = { "x"{0,2} ~ "y" }', WSP + 'a = { "x"{1,2} ~ "y" }', 'b = { "x" }\na = { (b ~ "y"){1,2} }', 'a = { "x"{1,1} ~ "x" }'], "alphabet": "xy ", "n": 5},
    "predicate": {"grammars": ['a = { &"x" ~ ANY ~ !"y" ~ ANY? }', 'b = { "x" }\na = { !(b ~ "y") ~ b }', 'b = { "x" }\na = { &(b ~ "y") ~ b ~ ANY }', 'a = { (!"y" ~ ANY)* ~ "y" }'], "alphabet": "xy", "n": 4},
    "rule": {"grammars": [WSP + 'b = _{ "x" ~ "y" }\na = { b ~ "x" }', WSP + 'b = ${ "x" ~ "y" }\na = { b ~ "x" }', WSP + 'b = @{ "x" ~ "y" }\na = { b ~ "x" }', WSP + 'c = !{ "x" ~ "y" }\nb = @{ c ~ "x" }\na = { b ~ "y" }', WSP + 'c = { "y" }\nb = ${ "x" ~ c }\na = { b ~ "x" }', WSV + 'a = ${ "x" ~ "y" }'], "alphabet": "xy ", "n": 5},
    "trivia": {"grammars": [WSP + CMT + 'a = { "x" ~ "y" }', 'WHITESPACE = _{ "-" ~ ">" }\na = { "x" ~ "-" ~ "y" }', 'COMMENT = { "#" }\na = { "x" ~ "y" }', WSV + 'COMMENT = { "#" }\na = { "x"* ~ "y" }', WSP + 'COMMENT = _{ "#" ~ (!"!" ~ ANY)* ~ "!" }\na = { "x" ~ "#" ~ "y" }'], "alphabet": "xy #!->", "n": 4},
    "push": {"grammars": ['a = { PUSH("x" | "y") ~ POP }', 'a = { PUSH("x") ~ PUSH("y") ~ PEEK_ALL }', 'a = { PUSH("x") ~ PUSH("y") ~ POP_ALL ~ DROP? }', 'a = { PUSH("x") ~ PUSH("y") ~ PEEK[0..1] ~ PEEK[..] ~ PEEK[-1..] }', 'a = { PUSH_LITERAL("y") ~ PEEK ~ DROP ~ "x"? ~ DROP? }', 'a = { PEEK | "x" }', 'a = { POP | "x" }', 'a = { POP_ALL ~ "x" }', 'a = { PEEK[..] ~ "x" }', 'a = { PEEK_ALL ~ "x" }', 'a = { PUSH("x"*) ~ "y" ~ PEEK ~ "y" }', 'a = { PUSH("") ~ POP ~ "x" }', 'a = { PUSH("x"?) ~ !PEEK ~ "y" | "x" ~ "y" }', 'a = { PUSH("x"*) ~ "y" ~ PEEK_ALL ~ PEEK[..] ~ POP_ALL }',
                       # slice bounds beyond the stack, in both directions (round-5 seed C07c: an un-clamped negative bound)
                       'a = { PUSH("x")? ~ PEEK[-2..] ~ "y" }', 'a = { PUSH("x")? ~ PEEK[..-2] ~ "y" }', 'a = { PEEK[-3..-1] ~ "x" }', 'a = { PUSH("x") ~ PEEK[5..] ~ PEEK[1..0] ~ PEEK[-5..5] ~ "y" }',
                       'a = { PUSH("x") ~ PUSH("y") ~ PEEK[-3..1] ~ PEEK[1..-3] ~ "y" }'], "alphabet": "xy", "n": 5},
    "stack_backtrack": {"grammars": ['a = { PUSH("x") ~ ((POP)? ~ "z" | PEEK) }', 'a = { PUSH("x") ~ PUSH("y") ~ (POP ~ POP ~ "z" | PEEK) }', 'a = { PUSH("x") ~ (POP_ALL ~ "z" | PEEK ~ "y") }', 'a = { PUSH("x") ~ !(POP ~ "z") ~ &(DROP) ~ PEEK }', 'a = { PUSH("x") ~ (PUSH("y") ~ "z")* ~ PEEK_ALL }', 'a = { PUSH("x") ~ (DROP ~ "z")? ~ (PUSH("y") ~ "z" | PEEK_ALL) }'], "alphabet": "xyz", "n": 5},
    "optimizer_skip": {"grammars": ['s = @{ (!"a" ~ ANY)* }\na = @{ (!s ~ ANY)* ~ "x" }', 'r = @{ (!("b" | "ab") ~ ANY)* }\na = { r ~ ANY* }', 'nl = _{ "\\n" | "\\r\\n" }\nr = @{ (!nl ~ ANY)* }\na = { r ~ nl? ~ r }', 'WHITESPACE = _{ " " }\na = { (!"b" ~ ANY)* ~ "b"? }', 'a = { (!("x" ~ "y") ~ ANY)* ~ ANY* }', 'WHITESPACE = _{ " " }\nr = @{ (!"b" ~ ANY)* }\na = { r ~ "b" }'], "alphabet": "ab \n\rxy", "n": 4},
    "optimizer_squash": {"grammars": ['a = { ("x" | ^"xy") ~ "z" }', "a = { ('x'..'y' | ^\"xy\" | \"z\") ~ \"z\" }", 'y = { "y" }\nb = _{ "x" | y }\na = { (b | "z")+ }', 'a = { ("x" | "xy") ~ "y"? ~ "z" }', 'a = { (^"xy" | "xyz") ~ "z"? }', 'a = { ("xy" | "x" | \'y\'..\'z\') ~ "z" }', 'b = _{ "x" | "xy" }\na = { b ~ "y" }', 'a = { (ASCII_DIGIT | "x" | "xy")+ }'], "alphabet": "xyzXY1", "n": 4},
    "optimizer_ranges": {"grammars": ["a = { ('w'..'z' | 'x'..'y')+ }", "a = { (ASCII_ALPHANUMERIC | 'x'..'y')+ ~ \"!\"? }", "a = { ('x'..'y' | 'w'..'z' | \"!\")+ }"], "alphabet": "wxyz!", "n": 3},
    "optimizer_inline": {"grammars": ['COMMENT = _{ "x" ~ "y" }\na = { COMMENT }', 'c = { "x" }\ns = _{ c ~ "y" }\na = { #tt=s ~ s? }', 'c = { "x" }\na = { #tt=(c)+ }', 's = _{ "x" ~ s? ~ "y" }\na = { s }', 'WHITESPACE = _{ " " }\ns = _{ "x" ~ "y" }\na = @{ s ~ s }'], "alphabet": "xy ", "n": 5},
    "optimizer_unicode": {"grammars": ['a = { (LETTER | "_") ~ (LETTER | ASCII_DIGIT | "_")* }', 'a = { (HAN | "x" | "xy")+ }'], "alphabet": "x_1\u00e9\u4e00", "n": 3},
    "comment_only": {"grammars": ['COMMENT = _{ "#" ~ (!"!" ~ ANY)* ~ "!" }\na = { "x" ~ "y" }', 'COMMENT = _{ "#" ~ (!"!" ~ ANY)* ~ "!" }\nb = { "x" }\na = { b* ~ "y" }'], "alphabet": "xy#!", "n": 6},
    # recursive rules whose stack operation comes AFTER the construct holding the recursive reference, reached through an outer
    # backtracking operator (round-6 seed C05c: position-only checkpoints for sub-expressions wrongly cached as stack-free)
    "recursive_stack": {"grammars": ['a = { SOI ~ n* ~ "=" ~ POP_ALL ~ EOI }\nn = { "(" ~ (n ~ "!" | n ~ "?")? ~ ")" ~ PUSH_LITERAL("n") }',
                                     'a = { SOI ~ n* ~ "=" ~ POP_ALL ~ EOI }\nn = { "(" ~ (n ~ "!")? ~ "()"? ~ ")" ~ PUSH_LITERAL("n") }',
                                     'a = { SOI ~ n* ~ "=" ~ POP_ALL ~ EOI }\nn = { "(" ~ (n ~ ",")* ~ n? ~ ")" ~ PUSH_LITERAL("n") }',
                                     'a = { SOI ~ n* ~ "=" ~ POP_ALL ~ EOI }\nn = { "(" ~ !(n ~ "!") ~ &(n ~ "?")? ~ n? ~ "?"? ~ ")" ~ PUSH_LITERAL("n") }',
                                     'a = { SOI ~ m* ~ "=" ~ POP_ALL ~ EOI }\nm = { "(" ~ (k ~ "!" | k ~ "?")? ~ ")" ~ PUSH_LITERAL("n") }\nk = { m }'],
                        "alphabet": "()!?,=n", "n": 0,
                        "texts": [pre + "=" + "n" * k for pre in ("()", "(()!)", "(()?)", "((()?)?)", "(())", "((),)", "((),())", "((()!)?)", "(()?)()", "()(()?)", "((()?)!)", "(((),)?)") for k in range(0, 6)]},
    "tags": {"grammars": ['b = { "x" }\na = { #t = b }', 'b = { "x" }\na = { #t = b ~ "y"? }', 'b = { "x" }\nc = { "y" }\na = { #t = b ~ #u = c }', 'c = { "x" }\nb = { #u = c }\na = { #t = b }',
                          'c = { "x" }\nb = { c ~ c? }\na = { #t = b ~ "y"? }', 'b = { "x" }\na = { (#t = b)+ }', 'b = { "x" }\na = { #t = b | #u = ("y" ~ b) }'], "alphabet": "xy", "n": 4},
    "atomic_visibility": {"grammars": ['d = { "y" }\nb = ${ d }\na = @{ "x" ~ b }', 'd = { "y" }\na = @{ "x" ~ d }'], "alphabet": "xy", "n": 2},
}

CLASS_FAMILY = {
    "String": ["string"], "CIString": ["string"], "Range": ["string"], "_Any": ["string"], "_SOI": ["string"], "_EOI": ["string"],
    "Sequence": ["sequence", "trivia"], "Choice": ["choice", "stack_backtrack", "recursive_stack"], "Optional": ["optional", "stack_backtrack", "recursive_stack"],
    "Repeat": ["repeat", "trivia", "stack_backtrack", "recursive_stack"], "RepeatOnce": ["repeat_once"], "RepeatExact": ["repeat_exact"],
    "RepeatMin": ["repeat_min"], "RepeatMax": ["repeat_max"], "RepeatMinMax": ["repeat_minmax"],
    "PositivePredicate": ["predicate", "stack_backtrack", "recursive_stack"], "NegativePredicate": ["predicate", "stack_backtrack", "recursive_stack"],
    "Rule": ["rule", "trivia", "atomic_visibility"], "Identifier": ["rule", "choice"], "Group": ["choice", "optional"],
    "ParserState": ["trivia", "sequence", "repeat", "stack_backtrack", "recursive_stack"], "Parser": ["string", "sequence"],
    "Push": ["push", "stack_backtrack"], "PushLiteral": ["push"], "Peek": ["push", "stack_backtrack"], "Pop": ["push", "stack_backtrack"],
    "PeekAll": ["push", "stack_backtrack"], "PopAll": ["push", "stack_backtrack"], "PeekSlice": ["push"], "Drop": ["push", "stack_backtrack"],
    "Stack": ["stack_backtrack", "recursive_stack"], "generate": ["trivia", "sequence", "repeat"],
    "SkipUntil": ["optimizer_skip"], "skip": ["optimizer_skip"], "OptimizedChoice": ["optimizer_squash", "optimizer_ranges", "optimizer_unicode"], "squash_choice": ["optimizer_squash", "optimizer_ranges", "optimizer_unicode"], "lazy_patterns_compile": ["optimizer_unicode"],
    "inline": ["optimizer_inline"], "unroll": ["repeat_exact", "repeat_min", "repeat_max", "repeat_minmax", "repeat_once", "optimizer_inline"],
    "skip_rule": ["comment_only", "trivia"], "RegexExpression": ["optimizer_squash"],
}

_cache: dict[tuple[str, bool], tuple] = {}


def build(grammar: str, opt: bool):
    from pest import Parser

    key = (grammar, opt)
    if key not in _cache:
        p = Parser.from_grammar(grammar) if opt else Parser.from_grammar(grammar, optimizer=None)
        ns: dict = {}
        exec(compile(p.generate(), "<generated>", "exec"), ns)  # noqa: S102
        _cache[key] = (p, ns["parse"])
    return _cache[key]


def run_modes(grammar: str, rule: str, text: str, start_pos: int = 0) -> dict[str, tuple]:
    from pest.exceptions import PestParsingError

    from .limits import DidNotTerminate, time_limit

    out = {}
    for opt in (False, True):
        try:
            p, gparse = build(grammar, opt)
        except Exception as e:  # noqa: BLE001
            out["interp+opt" if opt else "interp"] = ("build-error", f"{type(e).__name__}: {e}"[:120])
            out["gen+opt" if opt else "gen"] = out["interp+opt" if opt else "interp"]
            continue
        for nm, f in (("interp", p.parse), ("gen", gparse)):
            key = nm + ("+opt" if opt else "")
            try:
                with time_limit(10):
                    prs = f(rule, text, start_pos=start_pos)
                out[key] = ("ok", tree_of(prs), tagged_tree_of(prs))
            except DidNotTerminate as e:
                out[key] = ("raised", f"parse {e}")
            except PestParsingError as e:
                out[key] = ("fail", e.state.furthest_pos)
            except RecursionError:
                out[key] = ("unsupported", "recursion")
            except Exception as e:  # noqa: BLE001
                out[key] = ("raised", f"{type(e).__name__}: {e}"[:120])
    return out


def check_case(grammar: str, rule: str, text: str, start_pos: int = 0, modes=MODES):
    """-> None if all modes agree with the Spec (and failing modes agree on furthest_pos), else a description."""
    from pest import Parser

    try:
        rules = Parser.from_grammar(grammar, optimizer=None).rules
    except Exception as e:  # noqa: BLE001
        return None if "grammar" in type(e).__name__.lower() else f"grammar load raised {type(e).__name__}"
    ref = ref_parse(rules, rule, text, start_pos)
    if ref[0] == "unsupported":
        return None
    got = run_modes(grammar, rule, text, start_pos)
    bad = {}
    fars = set()
    for m in modes:
        g = got[m]
        if g[0] == "raised" or g[0] == "build-error":
            bad[m] = g
        elif g[0] == "unsupported":
            continue
        elif g[0] != ref[0] or (g[0] == "ok" and g[1] != ref[1]):
            bad[m] = g
        elif g[0] == "fail":
            fars.add(g[1])
    if not bad:
        # tags: every mode must attach the same tags (the Spec interpreter does not model tags)
        tagged = {m: got[m][2] for m in modes if got[m][0] == "ok"}
        if len({json.dumps(v) for v in tagged.values()}) > 1:
            return {"kind": "node tags differ between modes", "modes": {m: ("ok", v) for m, v in tagged.items()}, "spec": ref}
    if not bad:
        # C01: interpreter and generated code of the SAME Parser must report the same furthest position
        for a, b in (("interp", "gen"), ("interp+opt", "gen+opt")):
            if a in modes and b in modes and got[a][0] == "fail" and got[b][0] == "fail" and got[a][1] != got[b][1]:
                return {"kind": "furthest_pos differs between interpreter and generated code", "modes": {a: got[a], b: got[b]}, "spec": ref}
    if bad:
        return {"kind": "differs from Spec", "modes": bad, "spec": ref}
    return None


def inputs(alphabet: str, n: int):
    for ln in range(n + 1):
        for t in itertools.product(alphabet, repeat=ln):
            yield "".join(t)


def search(families: list[str], modes=MODES, limit: int = 1, skip=()):
    """skip: iterable of (grammar, text) pairs that are listed known findings."""
    found = []
    skip = set(skip)
    skip_grammars = {g for g, _ in skip}
    for fam in families:
        spec = FAMILIES[fam]
        for g in spec["grammars"]:
            if g in skip_grammars:
                continue  # a listed known finding: every input of this grammar is attributed to it
            for text in (spec["texts"] if "texts" in spec else inputs(spec["alphabet"], spec["n"])):
                r = check_case(g, "a", text, 0, modes)
                if r:
                    found.append({"family": fam, "grammar": g, "rule": "a", "text": text, **r})
                    break
            if len(found) >= limit:
                return found
    return found


def families_for(label: str) -> list[str]:
    """fn label like pest.grammar.expressions.postfix.Repeat.parse -> families to search."""
    parts = label.replace("[", ".").replace(":", ".").replace("(", ".").split(".")
    fams: list[str] = []
    for p in parts:
        for f in CLASS_FAMILY.get(p, []):
            if f not in fams:
                fams.append(f)
    return fams or ["sequence", "choice", "repeat"]


def main(argv):
    if "--case" in argv:
        i = argv.index("--case")
        g, rule, text = argv[i + 1].replace("\\n", "\n"), argv[i + 2], argv[i + 3]
        r = check_case(g, rule, text)
        print(json.dumps({"modes": run_modes(g, rule, text), "verdict": r}, default=str))
        return 1 if r else 0
    fams = [argv[argv.index("--family") + 1]] if "--family" in argv else list(FAMILIES)
    modes = tuple(argv[argv.index("--modes") + 1].split(",")) if "--modes" in argv else MODES
    res = search(fams, modes, limit=int(argv[argv.index("--limit") + 1]) if "--limit" in argv else 50)
    print(json.dumps(res, default=str))
    return 0


if __name__ == "__main__":
    sys.exit(main(sys.argv[1:]))
