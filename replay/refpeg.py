"""Executable Spec: a reference PEG interpreter written from the property statements
(DESIGN Appendix A), independent of the repo's parse()/generate() code.

It walks the expression trees the repo's grammar front end builds (optimizer=None) and
implements pest's semantics directly: ordered choice, greedy repetition, bounded
repetitions as their unrolled sequences, implicit trivia only between sequence elements
and repetition iterations, 3-valued atomicity (N / C / A), stack operations, and pest's
pair visibility.  Used ONLY to concretise refuted obligations (replay) and as a bounded
stand-in; never counted as proof.
"""
from __future__ import annotations

from dataclasses import dataclass

N, C, A = "N", "C", "A"
SILENT, ATOMIC, COMPOUND, NONATOMIC = 2, 4, 8, 16

ASCII = {
    "ASCII_DIGIT": [("0", "9")],
    "ASCII_NONZERO_DIGIT": [("1", "9")],
    "ASCII_BIN_DIGIT": [("0", "1")],
    "ASCII_OCT_DIGIT": [("0", "7")],
    "ASCII_HEX_DIGIT": [("0", "9"), ("a", "f"), ("A", "F")],
    "ASCII_ALPHANUMERIC": [("0", "9"), ("a", "z"), ("A", "Z")],
    "ASCII": [("\x00", "\x7f")],
    "ASCII_ALPHA_LOWER": [("a", "z")],
    "ASCII_ALPHA_UPPER": [("A", "Z")],
    "ASCII_ALPHA": [("a", "z"), ("A", "Z")],
}


@dataclass
class St:
    pos: int
    stk: tuple
    mode: str


class Unsupported(Exception):
    pass


def fold(c: str) -> str:
    return c.lower() if c.isascii() else c


class RefPeg:
    def __init__(self, rules: dict, text: str):
        self.rules = rules
        self.text = text
        self.ws = rules.get("WHITESPACE")
        self.cm = rules.get("COMMENT")
        self.depth = 0

    # ------------------------------------------------------------ trivia
    def tv(self, s: St):
        if s.mode != N or (self.ws is None and self.cm is None):
            return s, []
        out = []
        while True:
            progressed = False
            for r in (self.ws, self.cm):
                if r is None:
                    continue
                ok, s2, prs = self.rule(r, s, trivia=True)
                if ok:
                    if s2.pos == s.pos and s2.stk == s.stk:
                        raise Unsupported("trivia rule matched empty")
                    s, out, progressed = s2, out + prs, True
                    break
            if not progressed:
                return s, out

    # ------------------------------------------------------------ rule call
    def rule(self, r, s: St, trivia: bool = False, tag=None):
        name, mod = r.name, r.modifier
        cls = type(r).__name__
        if cls in ("Any", "SOI", "EOI", "ASCIIRule", "BuiltInRule", "UnicodePropertyRule"):
            return self.builtin(r, s)
        m_call = C if mod & COMPOUND else N if mod & NONATOMIC else s.mode
        visible = m_call != A and not (mod & SILENT)
        m_body = A if (mod & ATOMIC or name in ("WHITESPACE", "COMMENT")) else m_call
        self.depth += 1
        if self.depth > 200:
            raise Unsupported("recursion")
        try:
            ok, s2, prs = self.ex(r.expression, St(s.pos, s.stk, m_body))
        finally:
            self.depth -= 1
        if not ok:
            return False, s, []
        s3 = St(s2.pos, s2.stk, s.mode)
        if visible:
            return True, s3, [(name, s.pos, s2.pos, prs)]
        return True, s3, prs

    def builtin(self, r, s: St):
        name = r.name
        t, p = self.text, s.pos
        if name == "ANY":
            return (True, St(p + 1, s.stk, s.mode), []) if p < len(t) else (False, s, [])
        if name == "SOI":
            return (p == 0, s, [])
        if name == "EOI":
            return (True, s, [("EOI", p, p, [])]) if p == len(t) else (False, s, [])
        if name == "NEWLINE":
            for v in ("\n", "\r\n", "\r"):
                if t.startswith(v, p):
                    return True, St(p + len(v), s.stk, s.mode), []
            return False, s, []
        if name in ASCII:
            if p < len(t) and any(a <= t[p] <= b for a, b in ASCII[name]):
                return True, St(p + 1, s.stk, s.mode), []
            return False, s, []
        if type(r).__name__ == "UnicodePropertyRule":
            # Unicode property: one code point, decided by the engine's own tables (the property text is C12's business)
            import regex

            if p < len(t) and regex.fullmatch(r.expression.pattern if hasattr(r.expression, "pattern") and isinstance(r.expression.pattern, str) else r.expression.regex.pattern, t[p]):
                return True, St(p + 1, s.stk, s.mode), []
            return False, s, []
        raise Unsupported(f"builtin {name}")

    # ------------------------------------------------------------ expressions
    def seq(self, items, s: St):
        """items: list of callables st -> (ok, st, prs); implicit trivia after each element that has a successor."""
        out = []
        for i, f in enumerate(items):
            ok, s, prs = f(s)
            if not ok:
                return False, s, []
            out += prs
            if i < len(items) - 1:
                s, tp = self.tv(s)
                out += tp
        return True, s, out

    def opt(self, e):
        def f(s):
            ok, s2, prs = self.ex(e, s)
            return (True, s2, prs) if ok else (True, s, [])

        return f

    def star(self, e):
        def f(s):
            out = []
            ok, s1, prs = self.ex(e, s)
            if not ok:
                return True, s, []
            if (s1.pos, s1.stk) == (s.pos, s.stk):
                raise Unsupported("repetition over empty match")
            out += prs
            while True:
                st, tp = self.tv(s1)
                ok, s2, prs = self.ex(e, st)
                if not ok:
                    return True, s1, out  # trivia given back
                if (s2.pos, s2.stk) == (st.pos, st.stk) and st.pos == s1.pos:
                    raise Unsupported("repetition over empty match")
                out += tp + prs
                s1 = s2

        return f

    def ex(self, e, s: St):  # noqa: C901, PLR0911, PLR0912, PLR0915
        k = type(e).__name__
        t = self.text
        one = lambda x: (lambda st: self.ex(x, st))  # noqa: E731
        if k == "String":
            return (True, St(s.pos + len(e.value), s.stk, s.mode), []) if t.startswith(e.value, s.pos) else (False, s, [])
        if k == "CIString":
            w = t[s.pos : s.pos + len(e.value)]
            if not (e.value.isascii()):
                raise Unsupported("non-ascii ^literal")
            if len(w) == len(e.value) and w.isascii() and all(fold(a) == fold(b) for a, b in zip(w, e.value)):
                return True, St(s.pos + len(w), s.stk, s.mode), []
            return False, s, []
        if k == "Range":
            if s.pos < len(t) and e.start <= t[s.pos] <= e.stop:
                return True, St(s.pos + 1, s.stk, s.mode), []
            return False, s, []
        if k == "Identifier":
            r = self.rules[e.value]
            return self.rule(r, s, tag=e.tag)
        if k in ("GrammarRule", "Rule", "Any", "SOI", "EOI", "ASCIIRule", "BuiltInRule", "UnicodePropertyRule"):
            return self.rule(e, s)
        if k == "Group":
            return self.ex(e.expression, s)
        if k == "Sequence":
            return self.seq([one(x) for x in e.expressions], s)
        if k == "Choice":
            for x in e.expressions:
                ok, s2, prs = self.ex(x, s)
                if ok:
                    return True, s2, prs
            return False, s, []
        if k == "Optional":
            return self.opt(e.expression)(s)
        if k == "Repeat":
            return self.star(e.expression)(s)
        if k == "RepeatOnce":
            return self.seq([one(e.expression), self.star(e.expression)], s)
        if k == "RepeatExact":
            return self.seq([one(e.expression)] * e.number, s)
        if k == "RepeatMin":
            return self.seq([one(e.expression)] * e.number + [self.star(e.expression)], s)
        if k == "RepeatMax":
            return self.seq([self.opt(e.expression)] * e.number, s)
        if k == "RepeatMinMax":
            return self.seq([one(e.expression)] * e.min + [self.opt(e.expression)] * (e.max - e.min), s)
        if k == "PositivePredicate":
            ok, _, _ = self.ex(e.expression, s)
            return ok, s, []
        if k == "NegativePredicate":
            ok, _, _ = self.ex(e.expression, s)
            return (not ok), s, []
        if k == "PushLiteral":
            return True, St(s.pos, s.stk + (e.value,), s.mode), []
        if k == "Push":
            ok, s2, prs = self.ex(e.expression, s)
            if not ok:
                return False, s, []
            return True, St(s2.pos, s2.stk + (t[s.pos : s2.pos],), s2.mode), prs
        if k in ("Peek", "Pop"):
            if not s.stk or not t.startswith(s.stk[-1], s.pos):
                return False, s, []
            return True, St(s.pos + len(s.stk[-1]), s.stk[:-1] if k == "Pop" else s.stk, s.mode), []
        if k == "Drop":
            return (True, St(s.pos, s.stk[:-1], s.mode), []) if s.stk else (False, s, [])
        if k in ("PeekAll", "PopAll"):
            w = "".join(reversed(s.stk))
            if not t.startswith(w, s.pos):
                return False, s, []
            return True, St(s.pos + len(w), () if k == "PopAll" else s.stk, s.mode), []
        if k == "PeekSlice":
            w = "".join(s.stk[slice(e.start, e.stop)])
            if not t.startswith(w, s.pos):
                return False, s, []
            return True, St(s.pos + len(w), s.stk, s.mode), []
        raise Unsupported(k)


def ref_parse(rules: dict, start_rule: str, text: str, start_pos: int = 0):
    """-> ('ok', tree) | ('fail', None) | ('unsupported', why)"""
    rp = RefPeg(rules, text)
    try:
        ok, _s, prs = rp.rule(rules[start_rule], St(start_pos, (), N))
    except Unsupported as e:
        return "unsupported", str(e)
    except RecursionError:
        return "unsupported", "recursion"
    return ("ok", prs) if ok else ("fail", None)


def tree_of(pairs) -> list:
    """real Pairs -> nested tuples comparable with the reference's (tags are compared between modes, not with the Spec)."""
    return [(p.name, p.start, p.end, tree_of(p.children)) for p in pairs]


def tagged_tree_of(pairs) -> list:
    return [(p.name, p.tag, p.start, p.end, tagged_tree_of(p.children)) for p in pairs]
