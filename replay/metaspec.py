"""Executable Spec of property C10: the meta-grammar (tests/grammars/meta.pest) interpreted by the reference PEG
interpreter, and the denotation of a meta parse tree as rule structure.

Independent of the front end under test: meta.pest is read by the ~150-line reader below (the subset of pest syntax
that meta.pest itself uses), NOT by pest.grammar.  That the repo's own front end loads meta.pest with the same
structure is checked separately (contracts/c10.py, obligation `meta.loaded_as_read`).

  valid(text)            text in L(grammar_rules)            (refpeg over the independently read rules)
  denote(text)           -> canonical structure {docs, rules: [(name, modifier, docs, expr)]}
  observe(text)          -> ('ok', canonical structure built by Parser.from_grammar(text, optimizer=None)) | ('reject', msg) | ('raised', type)

Canonical expressions (tuples):
  ('str', v) ('istr', v) ('range', a, b) ('id', name) ('group', e) ('push', e) ('pushlit', v) ('peekslice', a, b)
  ('opt', e) ('rep', e) ('rep1', e) ('exact', e, n) ('min', e, n) ('max', e, n) ('minmax', e, m, n)
  ('pos', e) ('neg', e) ('seq', [e..]) ('choice', [e..]) ('tag', t, e)
Sequences and choices are flattened (both operators are associative; pest itself re-associates them), a parenthesised
expression is a 'group'.  A tag is attached to the primary (or outermost prefix) node of its term, which is how the
implementation represents it; tags on nodes that can produce no pair (strings, built-in rules) are not compared.
"""
from __future__ import annotations

import os
from pathlib import Path
from typing import Any

from .refpeg import ref_parse

SILENT, ATOMIC, COMPOUND, NONATOMIC = 2, 4, 8, 16
MODS = {"_": SILENT, "@": ATOMIC, "$": COMPOUND, "!": NONATOMIC}


# --------------------------------------------------------------------------- light-weight nodes refpeg can walk
def _cls(name: str, fields: tuple[str, ...]):
    def __init__(self, *a):
        for f, v in zip(fields, a):
            setattr(self, f, v)

    return type(name, (), {"__init__": __init__, "__slots__": fields})


String = _cls("String", ("value",))
CIString = _cls("CIString", ("value",))
Range = _cls("Range", ("start", "stop"))
Identifier = _cls("Identifier", ("value", "tag"))
Sequence = _cls("Sequence", ("expressions",))
Choice = _cls("Choice", ("expressions",))
Optional = _cls("Optional", ("expression",))
Repeat = _cls("Repeat", ("expression",))
RepeatOnce = _cls("RepeatOnce", ("expression",))
RepeatExact = _cls("RepeatExact", ("expression", "number"))
RepeatMin = _cls("RepeatMin", ("expression", "number"))
RepeatMax = _cls("RepeatMax", ("expression", "number"))
RepeatMinMax = _cls("RepeatMinMax", ("expression", "min", "max"))
PositivePredicate = _cls("PositivePredicate", ("expression",))
NegativePredicate = _cls("NegativePredicate", ("expression",))
GrammarRule = _cls("GrammarRule", ("name", "modifier", "expression"))
Any_ = _cls("Any", ("name", "modifier"))
SOI_ = _cls("SOI", ("name", "modifier"))
EOI_ = _cls("EOI", ("name", "modifier"))


class ReaderError(Exception):
    pass


class MiniReader:
    """reads the subset of pest syntax used by meta.pest: rules, modifiers, strings (escapes \\" \\\\ \\n \\r \\t),
    ^strings, 'c'..'c', identifiers, ( ), ~ |, ! &, ? * +, {n} {n,} {,n} {m,n}; // and /* */ comments"""

    def __init__(self, text: str):
        self.t = text
        self.p = 0

    def ws(self) -> None:
        t = self.t
        while self.p < len(t):
            if t[self.p] in " \t\r\n":
                self.p += 1
            elif t.startswith("//", self.p):
                while self.p < len(t) and t[self.p] != "\n":
                    self.p += 1
            elif t.startswith("/*", self.p):
                e = t.find("*/", self.p + 2)
                if e < 0:
                    raise ReaderError("unclosed comment")
                self.p = e + 2
            else:
                return

    def eat(self, s: str) -> None:
        self.ws()
        if not self.t.startswith(s, self.p):
            raise ReaderError(f"expected {s!r} at {self.p}: {self.t[self.p:self.p+20]!r}")
        self.p += len(s)

    def at(self, s: str) -> bool:
        self.ws()
        return self.t.startswith(s, self.p)

    def ident(self) -> str:
        self.ws()
        a = self.p
        while self.p < len(self.t) and (self.t[self.p].isalnum() and self.t[self.p].isascii() or self.t[self.p] == "_"):
            self.p += 1
        if a == self.p:
            raise ReaderError(f"identifier expected at {a}")
        return self.t[a : self.p]

    def string(self) -> str:
        self.eat('"')
        out = []
        while True:
            c = self.t[self.p]
            self.p += 1
            if c == '"':
                return "".join(out)
            if c == "\\":
                e = self.t[self.p]
                self.p += 1
                out.append({"n": "\n", "r": "\r", "t": "\t", '"': '"', "\\": "\\", "'": "'", "0": "\0"}[e])
            else:
                out.append(c)

    def char(self) -> str:
        self.eat("'")
        c = self.t[self.p]
        self.p += 1
        if c == "\\":
            e = self.t[self.p]
            self.p += 1
            c = {"n": "\n", "r": "\r", "t": "\t", '"': '"', "\\": "\\", "'": "'", "0": "\0"}[e]
        if self.t[self.p] != "'":
            raise ReaderError("char")
        self.p += 1
        return c

    def number(self) -> int:
        self.ws()
        a = self.p
        while self.p < len(self.t) and self.t[self.p] in "0123456789":
            self.p += 1
        return int(self.t[a : self.p])

    def rules(self) -> dict[str, Any]:
        out: dict[str, Any] = {}
        while True:
            self.ws()
            if self.p >= len(self.t):
                return out
            name = self.ident()
            self.eat("=")
            self.ws()
            mod = 0
            if self.t[self.p] in MODS:
                mod = MODS[self.t[self.p]]
                self.p += 1
            self.eat("{")
            e = self.expr()
            self.eat("}")
            out[name] = GrammarRule(name, mod, e)

    def expr(self) -> Any:
        if self.at("|"):
            self.eat("|")
        alts = [self.seq()]
        while self.at("|"):
            self.eat("|")
            alts.append(self.seq())
        return alts[0] if len(alts) == 1 else Choice(alts)

    def seq(self) -> Any:
        items = [self.term()]
        while self.at("~"):
            self.eat("~")
            items.append(self.term())
        return items[0] if len(items) == 1 else Sequence(items)

    def term(self) -> Any:
        self.ws()
        if self.at("!"):
            self.eat("!")
            return NegativePredicate(self.term())
        if self.at("&"):
            self.eat("&")
            return PositivePredicate(self.term())
        if self.at("("):
            self.eat("(")
            e = self.expr()
            self.eat(")")
        elif self.at('"'):
            e = String(self.string())
        elif self.at("^"):
            self.eat("^")
            e = CIString(self.string())
        elif self.at("'"):
            a = self.char()
            self.eat("..")
            b = self.char()
            e = Range(a, b)
        else:
            e = Identifier(self.ident(), None)
        while True:
            # postfix operators directly follow (implicit trivia allowed)
            if self.at("?"):
                self.eat("?")
                e = Optional(e)
            elif self.at("*"):
                self.eat("*")
                e = Repeat(e)
            elif self.at("+"):
                self.eat("+")
                e = RepeatOnce(e)
            elif self.at("{"):
                self.eat("{")
                if self.at(","):
                    self.eat(",")
                    e = RepeatMax(e, self.number())
                else:
                    n = self.number()
                    if self.at(","):
                        self.eat(",")
                        if self.at("}"):
                            e = RepeatMin(e, n)
                        else:
                            e = RepeatMinMax(e, n, self.number())
                    else:
                        e = RepeatExact(e, n)
                self.eat("}")
            else:
                return e


def repo_root() -> Path:
    return Path(os.environ.get("PYVC_REPO", "/repo"))


_META: dict[str, Any] | None = None


def meta_rules() -> dict[str, Any]:
    global _META  # noqa: PLW0603
    if _META is None:
        text = (repo_root() / "tests" / "grammars" / "meta.pest").read_text()
        rules = MiniReader(text).rules()
        rules["ANY"] = Any_("ANY", 0)
        rules["SOI"] = SOI_("SOI", 0)
        rules["EOI"] = EOI_("EOI", 0)
        _META = rules
    return _META


def canon_of_mini(e: Any) -> Any:
    """canonical form of a MiniReader node (used to compare with what the repo's front end builds for meta.pest)"""
    k = type(e).__name__
    if k == "String":
        return ("str", e.value)
    if k == "CIString":
        return ("istr", e.value)
    if k == "Range":
        return ("range", e.start, e.stop)
    if k == "Identifier":
        return ("id", e.value)
    if k in ("Sequence", "Choice"):
        return ("seq" if k == "Sequence" else "choice", [canon_of_mini(x) for x in e.expressions])
    one = {"Optional": "opt", "Repeat": "rep", "RepeatOnce": "rep1", "PositivePredicate": "pos", "NegativePredicate": "neg"}
    if k in one:
        return (one[k], canon_of_mini(e.expression))
    if k in ("RepeatExact", "RepeatMin", "RepeatMax"):
        return ({"RepeatExact": "exact", "RepeatMin": "min", "RepeatMax": "max"}[k], canon_of_mini(e.expression), e.number)
    if k == "RepeatMinMax":
        return ("minmax", canon_of_mini(e.expression), e.min, e.max)
    raise ReaderError(k)


def strip_groups(c: Any) -> Any:
    """drop ('group', e) wrappers and re-flatten: the MiniReader does not record parentheses"""
    if not isinstance(c, tuple):
        return c
    if c[0] == "group":
        return strip_groups(c[1])
    if c[0] in ("seq", "choice"):
        return (c[0], [strip_groups(x) for x in c[1]])
    if c[0] == "tag":
        return ("tag", c[1], strip_groups(c[2]))
    if c[0] in ("opt", "rep", "rep1", "pos", "neg", "push"):
        return (c[0], strip_groups(c[1]))
    if c[0] in ("exact", "min", "max", "minmax"):
        return (c[0], strip_groups(c[1]), *c[2:])
    return c


# --------------------------------------------------------------------------- validity and denotation
def meta_parse(text: str):
    return ref_parse(meta_rules(), "grammar_rules", text)


def valid(text: str) -> bool | None:
    st, _ = meta_parse(text)
    if st == "unsupported":
        return None
    return st == "ok"


class _Escape(Exception):
    pass


def decode(raw: str) -> str:
    """decode the escapes of the `escape` production"""
    out = []
    i = 0
    while i < len(raw):
        c = raw[i]
        if c != "\\":
            out.append(c)
            i += 1
            continue
        e = raw[i + 1]
        if e in 'nrt0\\"\'':
            out.append({"n": "\n", "r": "\r", "t": "\t", "0": "\0", "\\": "\\", '"': '"', "'": "'"}[e])
            i += 2
        elif e == "x":
            out.append(chr(int(raw[i + 2 : i + 4], 16)))
            i += 4
        elif e == "u":
            j = raw.index("}", i)
            v = int(raw[i + 3 : j], 16)
            if v > 0x10FFFF or 0xD800 <= v <= 0xDFFF:
                raise _Escape(f"\\u{{{raw[i+3:j]}}} is not a scalar value")
            out.append(chr(v))
            i = j + 1
        else:
            raise _Escape(e)
    return "".join(out)


def _flat(kind: str, items: list[Any]) -> Any:
    out: list[Any] = []
    for x in items:
        if isinstance(x, tuple) and x[0] == kind:
            out.extend(x[1])
        else:
            out.append(x)
    return out[0] if len(out) == 1 else (kind, out)


def denote(text: str):
    """-> ('ok', structure) | ('invalid', None) | ('unsupported', why) | ('nonsense', why)
    'nonsense': syntactically valid per meta.pest but with no denotation (an escape outside Unicode, a reversed range,
    a repetition count beyond u32): pest rejects these in its validator; they are excluded from the comparison."""
    st, tree = meta_parse(text)
    if st != "ok":
        return ("invalid" if st == "fail" else "unsupported"), tree
    t = text

    def txt(p):
        return t[p[1] : p[2]]

    def expr(p) -> Any:
        assert p[0] == "expression", p[0]
        kids = p[3]
        i = 0
        if kids and kids[0][0] == "choice_operator":
            i = 1
        alts: list[list[Any]] = [[]]
        while i < len(kids):
            k = kids[i]
            if k[0] == "term":
                alts[-1].append(term(k))
            elif k[0] == "choice_operator":
                alts.append([])
            elif k[0] == "sequence_operator":
                pass
            else:
                raise AssertionError(k[0])
            i += 1
        return _flat("choice", [_flat("seq", a) for a in alts])

    def term(p) -> Any:
        kids = list(p[3])
        tag = None
        if kids and kids[0][0] == "tag_id":
            tag = txt(kids[0])[1:]
            kids = kids[2:]
        pre = []
        while kids and kids[0][0] in ("positive_predicate_operator", "negative_predicate_operator"):
            pre.append(kids.pop(0)[0])
        k = kids.pop(0)
        if k[0] == "opening_paren":
            e = ("group", expr(kids.pop(0)))
            kids.pop(0)
        elif k[0] == "_push_literal":
            e = ("pushlit", decode(txt(k[3][1][3][1])))
        elif k[0] == "_push":
            e = ("push", expr(k[3][1]))
        elif k[0] == "peek_slice":
            a = b = None
            seen = False
            for c in k[3]:
                if c[0] == "range_operator":
                    seen = True
                elif c[0] == "integer":
                    if seen:
                        b = int(txt(c))
                    else:
                        a = int(txt(c))
            e = ("peekslice", a, b)
        elif k[0] == "identifier":
            e = ("id", txt(k))
        elif k[0] == "string":
            e = ("str", decode(txt(k[3][1])))
        elif k[0] == "insensitive_string":
            e = ("istr", decode(txt(k[3][0][3][1])))
        elif k[0] == "range":
            a, b = (decode(txt(c[3][1])) for c in k[3] if c[0] == "character")
            if a > b:
                raise _Escape("reversed range")
            e = ("range", a, b)
        else:
            raise AssertionError(k[0])
        if tag is not None and not pre:
            e = ("tag", tag, e)
        for q in kids:
            if q[0] == "optional_operator":
                e = ("opt", e)
            elif q[0] == "repeat_operator":
                e = ("rep", e)
            elif q[0] == "repeat_once_operator":
                e = ("rep1", e)
            else:
                nums = [int(txt(c)) for c in q[3] if c[0] == "number"]
                if any(n > 0xFFFFFFFF for n in nums):
                    raise _Escape("repetition count beyond u32")
                e = ({"repeat_exact": "exact", "repeat_min": "min", "repeat_max": "max", "repeat_min_max": "minmax"}[q[0]], e, *nums)
        for i, q in enumerate(reversed(pre)):
            e = ("pos" if q.startswith("positive") else "neg", e)
            if tag is not None and i == len(pre) - 1:
                e = ("tag", tag, e)
        return e

    gdocs: list[str] = []
    rules: list[tuple[str, int, list[str], Any]] = []
    pending: list[str] = []
    try:
        for p in tree:
            if p[0] == "grammar_doc":
                gdocs.append(txt(p[3][0]))
            elif p[0] == "grammar_rule":
                kids = p[3]
                if kids[0][0] == "line_doc":
                    pending.append(txt(kids[0][3][0]))
                    continue
                name = txt(kids[0])
                mod = 0
                j = 2
                if kids[2][0].endswith("_modifier"):
                    mod = MODS[txt(kids[2])]
                    j = 3
                rules.append((name, mod, pending, expr(kids[j + 1])))
                pending = []
    except _Escape as e:
        return "nonsense", str(e)
    return "ok", {"docs": gdocs, "rules": rules, "trailing_docs": pending}


# --------------------------------------------------------------------------- what the real front end builds
_NOTAG = ("String", "CIString")


def canon_of_real(e: Any) -> Any:  # noqa: C901, PLR0911, PLR0912
    k = type(e).__name__

    def tagged(c):
        t = getattr(e, "tag", None)
        return ("tag", t, c) if t else c

    if k == "String":
        return ("str", e.value)
    if k == "CIString":
        return ("istr", e.value)
    if k == "Range":
        return tagged(("range", e.start, e.stop))
    if k == "Identifier":
        return tagged(("id", e.value))
    if k in ("GrammarRule", "Rule", "Any", "SOI", "EOI", "ASCIIRule", "BuiltInRule", "UnicodePropertyRule"):
        return ("id", e.name)
    if k in ("Peek", "PeekAll", "Pop", "PopAll", "Drop"):
        return tagged(("id", {"Peek": "PEEK", "PeekAll": "PEEK_ALL", "Pop": "POP", "PopAll": "POP_ALL", "Drop": "DROP"}[k]))
    if k == "Group":
        return tagged(("group", canon_of_real(e.expression)))
    if k == "Push":
        return tagged(("push", canon_of_real(e.expression)))
    if k == "PushLiteral":
        return tagged(("pushlit", e.value))
    if k == "PeekSlice":
        return tagged(("peekslice", e.start, e.stop))
    if k in ("Sequence", "Choice"):
        kind = "seq" if k == "Sequence" else "choice"
        return _flat(kind, [canon_of_real(x) for x in e.expressions])
    one = {"Optional": "opt", "Repeat": "rep", "RepeatOnce": "rep1"}
    if k in one:
        return (one[k], canon_of_real(e.expression))
    if k in ("PositivePredicate", "NegativePredicate"):
        return tagged(("pos" if k.startswith("Pos") else "neg", canon_of_real(e.expression)))
    if k in ("RepeatExact", "RepeatMin", "RepeatMax"):
        return ({"RepeatExact": "exact", "RepeatMin": "min", "RepeatMax": "max"}[k], canon_of_real(e.expression), e.number)
    if k == "RepeatMinMax":
        return ("minmax", canon_of_real(e.expression), e.min, e.max)
    raise ReaderError(f"unexpected node {k}")


def drop_unobservable_tags(c: Any, builtins: set[str] | None = None) -> Any:
    """a tag on a string literal or on a reference to a built-in rule labels no pair: not compared"""
    if not isinstance(c, tuple):
        return c
    if c[0] == "tag":
        inner = drop_unobservable_tags(c[2], builtins)
        if inner[0] in ("str", "istr") or (inner[0] == "id" and builtins is not None and inner[1] in builtins):
            return inner
        return ("tag", c[1], inner)
    if c[0] in ("seq", "choice"):
        return (c[0], [drop_unobservable_tags(x, builtins) for x in c[1]])
    if c[0] in ("opt", "rep", "rep1", "pos", "neg", "push", "group"):
        return (c[0], drop_unobservable_tags(c[1], builtins))
    if c[0] in ("exact", "min", "max", "minmax"):
        return (c[0], drop_unobservable_tags(c[1], builtins), *c[2:])
    return c


def observe(text: str):
    from pest import Parser
    from pest.grammar.exceptions import PestGrammarError

    from .limits import DidNotTerminate, time_limit

    try:
        with time_limit(10):
            p = Parser.from_grammar(text, optimizer=None)
    except PestGrammarError as e:
        return "reject", str(getattr(e, "message", e))[:80]
    except RecursionError:
        return "unsupported", "recursion"
    except DidNotTerminate as e:
        return "raised", f"from_grammar {e}"
    except Exception as e:  # noqa: BLE001
        return "raised", f"{type(e).__name__}: {e}"[:120]
    builtin_names = set(Parser.BUILTIN)
    rules = []
    for name, r in p.rules.items():
        if type(r).__name__ != "GrammarRule":
            continue
        rules.append((name, r.modifier, list(getattr(r, "doc", None) or []), canon_of_real(r.expression)))
    return "ok", {"docs": list(getattr(p, "doc", None) or []), "rules": rules, "builtins": builtin_names}


def compare(text: str) -> dict | None:
    """None when the front end does what the meta-grammar says for this text, else a description of the difference"""
    from pest import Parser

    want = denote(text)
    if want[0] in ("unsupported", "nonsense"):
        return None
    got = observe(text)
    if got[0] == "unsupported":
        return None
    if got[0] == "raised":
        return {"text": text, "what": "exception other than PestGrammarError", "got": got[1]}
    if want[0] == "invalid":
        if got[0] == "ok":
            return {"text": text, "what": "accepted although not derivable from meta.pest", "got": str(got[1]["rules"])[:200]}
        return None
    if got[0] == "reject":
        return {"text": text, "what": "rejected although valid per meta.pest", "got": got[1]}
    w, g = want[1], got[1]
    b = set(Parser.BUILTIN)
    # later definitions of a name replace earlier ones in the rule table (pest rejects duplicates in its validator)
    wrules: dict[str, Any] = {}
    for name, mod, docs, e in w["rules"]:
        wrules[name] = (name, mod, docs, drop_unobservable_tags(e, b))
    grules = {name: (name, mod, docs, drop_unobservable_tags(e, b)) for name, mod, docs, e in g["rules"]}
    if set(wrules) != set(grules):  # the order of the rule table has no meaning (a user rule may replace a built-in in place)
        return {"text": text, "what": "rule names differ", "want": sorted(wrules), "got": sorted(grules)}
    for name in wrules:
        if wrules[name] != grules[name]:
            return {"text": text, "what": f"rule {name} differs", "want": str(wrules[name])[:300], "got": str(grules[name])[:300]}
    if w["docs"] != g["docs"]:
        return {"text": text, "what": "grammar docs differ", "want": w["docs"], "got": g["docs"]}
    return None
