"""Concretiser for C09: bounded search over *real* operation histories.

Runs the real pest.stack.Stack, SnapshottingInt and ParserState.checkpoint/ok/restore
against references that store full copies, breadth-first over operation sequences.
Prints the shortest failing history per target.  Used to replay refuted obligations on
the real code - never as proof.

  python -m replay.c09_history --json
  python -m replay.c09_history --target stack --history push,snapshot,pop,...
"""
from __future__ import annotations

import itertools
import json
import sys


# ---------------------------------------------------------------- Stack
class RefStack:
    def __init__(self):
        self.items, self.snaps = [], []

    def push(self, x):
        self.items.append(x)

    def pop(self):
        return self.items.pop()

    def clear(self):
        self.items.clear()

    def snapshot(self):
        self.snaps.append(list(self.items))

    def restore(self):
        self.items = self.snaps.pop() if self.snaps else []

    def drop_snapshot(self):
        if self.snaps:
            self.snaps.pop()


STACK_OPS = ["push", "pop", "clear", "snapshot", "restore", "drop_snapshot"]


def run_stack(hist):
    from pest.stack import Stack

    real, ref = Stack(), RefStack()
    n = 0
    for op in hist:
        try:
            if op == "push":
                n += 1
                real.push(f"x{n}")
                ref.push(f"x{n}")
            elif op == "pop":
                if not ref.items:
                    try:
                        real.pop()
                    except IndexError:
                        continue
                    return "pop on empty stack did not raise IndexError"
                a, b = real.pop(), ref.pop()
                if a != b:
                    return f"pop returned {a!r}, reference {b!r}"
            else:
                getattr(real, op)()
                getattr(ref, op)()
        except Exception as e:  # noqa: BLE001
            return f"{op} raised {type(e).__name__}: {e}"
        if list(real) != ref.items or len(real) != len(ref.items) or real.empty() != (not ref.items):
            return f"after {op}: real {list(real)} != reference {ref.items}"
    while ref.snaps:
        try:
            real.restore()
            ref.restore()
        except Exception as e:  # noqa: BLE001
            return f"unwinding restore raised {type(e).__name__}: {e}"
        if list(real) != ref.items:
            return f"unwinding restore: real {list(real)} != reference {ref.items}"
    return None


# ---------------------------------------------------------------- SnapshottingInt
SINT_OPS = ["inc", "zero", "snapshot", "restore", "drop"]


def run_sint(hist):
    from pest.checkpoint_int import SnapshottingInt

    real = SnapshottingInt()
    val, snaps = 0, []
    for op in hist:
        try:
            if op == "inc":
                real += 1
                val += 1
            elif op == "zero":
                real.zero()
                val = 0
            elif op == "snapshot":
                real.snapshot()
                snaps.append(val)
            elif op == "restore":
                real.restore()
                val = snaps.pop() if snaps else 0
            elif op == "drop":
                real.drop()
                if snaps:
                    snaps.pop()
        except Exception as e:  # noqa: BLE001
            return f"{op} raised {type(e).__name__}: {e}"
        if int(real) != val or (real > 0) != (val > 0):
            return f"after {op}: real {int(real)} != reference {val}"
    while snaps:
        real.restore()
        val = snaps.pop()
        if int(real) != val:
            return f"unwinding restore: real {int(real)} != reference {val}"
    return None


# ---------------------------------------------------------------- ParserState
PS_OPS = ["adv", "push", "pop", "rpush", "rpop", "atom+", "atom0", "checkpoint", "ok", "restore"]


def run_pstate(hist):
    from pest.state import ParserState, RuleFrame

    real = ParserState("x" * 50, 0)
    cur = {"pos": 0, "stk": [], "rstk": [], "atom": 0}
    snaps = []
    n = 0

    def view():
        return {
            "pos": real.pos,
            "stk": list(real.user_stack),
            "rstk": [f.name for f in real.rule_stack],
            "atom": int(real.atomic_depth),
        }

    for op in hist:
        n += 1
        try:
            if op == "adv":
                real.pos += 1
                cur["pos"] += 1
            elif op == "push":
                real.push(f"s{n}")
                cur["stk"].append(f"s{n}")
            elif op == "pop":
                if not cur["stk"]:
                    continue
                real.user_stack.pop()
                cur["stk"].pop()
            elif op == "rpush":
                real.rule_stack.push(RuleFrame(f"r{n}", 0))
                cur["rstk"].append(f"r{n}")
            elif op == "rpop":
                if not cur["rstk"]:
                    continue
                real.rule_stack.pop()
                cur["rstk"].pop()
            elif op == "atom+":
                real.atomic_depth += 1
                cur["atom"] += 1
            elif op == "atom0":
                real.atomic_depth.zero()
                cur["atom"] = 0
            elif op == "checkpoint":
                real.checkpoint()
                snaps.append({k: (list(v) if isinstance(v, list) else v) for k, v in cur.items()})
            elif op == "ok":
                if not snaps:
                    continue
                real.ok()
                snaps.pop()
            elif op == "restore":
                if not snaps:
                    continue
                real.restore()
                cur = snaps.pop()
        except Exception as e:  # noqa: BLE001
            return f"{op} raised {type(e).__name__}: {e}"
        if view() != cur:
            return f"after {op}: real {view()} != reference {cur}"
    while snaps:
        try:
            real.restore()
        except Exception as e:  # noqa: BLE001
            return f"unwinding restore raised {type(e).__name__}: {e}"
        cur = snaps.pop()
        if view() != cur:
            return f"unwinding restore: real {view()} != reference {cur}"
    return None


TARGETS = {
    "stack": (STACK_OPS, run_stack, 7, "pest.stack.Stack"),
    "sint": (SINT_OPS, run_sint, 6, "pest.checkpoint_int.SnapshottingInt"),
    "pstate": (PS_OPS, run_pstate, 5, "pest.state.ParserState"),
}


def search(target, max_len=None):
    ops, fn, dflt, _ = TARGETS[target]
    for ln in range(1, (max_len or dflt) + 1):
        for hist in itertools.product(ops, repeat=ln):
            r = fn(hist)
            if r:
                return list(hist), r
    return None


def main(argv):
    if "--history" in argv:
        tgt = argv[argv.index("--target") + 1] if "--target" in argv else "stack"
        hist = argv[argv.index("--history") + 1].split(",")
        r = TARGETS[tgt][1](hist)
        print(r or "no difference from the full-copy reference")
        return 1 if r else 0
    out = []
    for tgt, (ops_, fn, _, qual) in TARGETS.items():
        r = search(tgt)
        if not r:
            # longer histories: seeded random search (deterministic), then shrink by dropping operations
            import random

            rnd = random.Random(12345)
            for _ in range(60000):
                hist = [rnd.choice(ops_) for _ in range(rnd.randint(8, 14))]
                why = fn(hist)
                if why:
                    changed = True
                    while changed:
                        changed = False
                        for i in range(len(hist)):
                            h2 = hist[:i] + hist[i + 1:]
                            w2 = fn(h2)
                            if w2:
                                hist, why, changed = h2, w2, True
                                break
                    r = (hist, why)
                    break
        if r:
            out.append({"target": tgt, "for": qual, "history": r[0], "observed": r[1]})
    print(json.dumps(out))
    return 0


if __name__ == "__main__":
    sys.exit(main(sys.argv[1:]))
