"""Wall-clock limits for stand-ins that run the real code on generated inputs (a change that makes the code loop forever
must be reported, not hang the check)."""
from __future__ import annotations

import contextlib
import signal
import threading


class DidNotTerminate(Exception):
    pass


@contextlib.contextmanager
def time_limit(seconds: float):
    """raise DidNotTerminate in the main thread when the block runs longer than `seconds` (no-op in other threads)"""
    if threading.current_thread() is not threading.main_thread():
        yield
        return

    def handler(signum, frame):
        raise DidNotTerminate(f"did not terminate within {seconds} s")

    import time

    old = signal.signal(signal.SIGALRM, handler)
    t0 = time.monotonic()
    outer_left, _ = signal.setitimer(signal.ITIMER_REAL, seconds)  # an enclosing limit keeps running (re-armed below)
    try:
        yield
    finally:
        signal.setitimer(signal.ITIMER_REAL, 0)
        signal.signal(signal.SIGALRM, old)
        if outer_left:
            signal.setitimer(signal.ITIMER_REAL, max(outer_left - (time.monotonic() - t0), 0.001))
