"""C12 - character terminals and escapes denote exactly the specified code points.

(a) pattern/flag obligations: for each catalogued terminal instance the *actual* (pattern text, flags)
    pair that the real constructor / the real generate() / the real optimizer hands to `regex` is taken
    from the running code, given the assumed semantics of pyvc/regexsem.py, and compared with the
    definition FOR ALL code points: one z3 query over an integer cp in [0, 0x10FFFF] per instance and mode.
(b) escapes: unescape_string / _decode_escape_sequence / _decode_hex_char / _parse_hex_digits are executed
    symbolically and proved against the recursive Spec `unesc` taken from meta.pest's `escape` production.
(c) Unicode property rules: the same \\p{...} text reaches the engine in every mode (finite, exhaustive).
"""
from __future__ import annotations

import ast
from typing import Any

import z3

from pyvc import emit, regexsem
from pyvc.driver import FunctionSpec
from pyvc.engine import PyExc, Run
from pyvc.values import Ref, SeqV, Sym, wrap, z

from .ops import Loop

PROPERTY = "C12"

RANGES = [
    ("a", "z"), ("A", "Z"), ("0", "9"), ("a", "a"), ("-", "-"), ("]", "^"), ("\\", "\\"), ("!", "/"), (" ", "~"),
    ("\x00", "\x7f"), ("\x00", "\x00"), ("à", "ÿ"), ("α", "ω"), ("\u4e00", "\u9fff"), ("\U00010000", "\U0001ffff"),
    ("^", "a"), ("[", "]"), ("*", "+"), (".", "."), ("\t", "\r"), ("Z", "a"), ("k", "k"), ("@", "["),
]

ASCII_DEF = {  # from the pest book
    "ASCII_DIGIT": [("0", "9")],
    "ASCII_NONZERO_DIGIT": [("1", "9")],
    "ASCII_BIN_DIGIT": [("0", "1")],
    "ASCII_OCT_DIGIT": [("0", "7")],
    "ASCII_HEX_DIGIT": [("0", "9"), ("a", "f"), ("A", "F")],
    "ASCII_ALPHA_LOWER": [("a", "z")],
    "ASCII_ALPHA_UPPER": [("A", "Z")],
    "ASCII_ALPHA": [("a", "z"), ("A", "Z")],
    "ASCII_ALPHANUMERIC": [("0", "9"), ("a", "z"), ("A", "Z")],
    "ASCII": [("\x00", "\x7f")],
}


def def_ranges(rs):
    return lambda cp: z3.Or(*[z3.And(cp >= ord(a), cp <= ord(b)) for a, b in rs]) if rs else z3.BoolVal(False)


def _compiled(rx) -> tuple[str, bool]:
    import regex

    return rx.pattern, bool(rx.flags & regex.I)


def _const(expr_text: str) -> tuple[str, bool]:
    tree = ast.parse(expr_text, mode="eval").body
    assert isinstance(tree, ast.Call) and ast.unparse(tree.func) == "re.compile", expr_text
    pattern = ast.literal_eval(tree.args[0])
    flags = {f.strip() for f in (ast.unparse(tree.args[1]).split("|") if len(tree.args) > 1 else [])}
    unknown = flags - {"re.I", "re.VERSION1", "re.IGNORECASE"}
    if unknown:
        raise ValueError(f"unexpected flags {unknown}")
    return pattern, bool(flags & {"re.I", "re.IGNORECASE"})


def acceptor(pattern: str, ic: bool):
    p = regexsem.parse(pattern, ic)
    if p.kind != "class1" or p.repeat:
        return None
    return p.accepts


def expr_acceptor(e: Any):
    """code-point acceptor of a real expression object made of single-code-point alternatives (interpreter)"""
    k = type(e).__name__
    if k == "Range":
        return acceptor(*_compiled(e._re))  # noqa: SLF001
    if k == "String" and len(e.value) == 1:
        return lambda cp, v=ord(e.value): cp == v
    if k == "CIString" and len(e.value) == 1:
        return acceptor(*_compiled(e._re))  # noqa: SLF001
    if k in ("Choice",):
        subs = [expr_acceptor(x) for x in e.expressions]
        if any(s is None for s in subs):
            return None
        return lambda cp: z3.Or(*[s(cp) for s in subs])
    if k in ("OptimizedChoice",):
        return acceptor(*_compiled(e.pattern))
    if k in ("Group",):
        return expr_acceptor(e.expression)
    if hasattr(e, "expression") and k.endswith("Rule"):
        return expr_acceptor(e.expression)
    return None


def gen_acceptor(e: Any):
    """acceptor of the code generated for e: the union of the emitted regex constants (the emitted control
    flow is an ordered choice over them - proved by the Choice / Range / ChoiceRegex templates in C01)."""
    code, consts = emit.emit_expression(e, {})
    accs = []
    for _name, ex in consts:
        a = acceptor(*_const(ex))
        if a is None:
            return None, consts
        accs.append(a)
    # single-character string alternatives are emitted as startswith literals
    for ln in code.splitlines():
        ln = ln.strip()
        if ln.startswith("if state.input.startswith("):
            lit = ast.literal_eval(ln[len("if state.input.startswith("):].split(", state.pos")[0])
            if len(lit) != 1:
                return None, consts
            accs.append(lambda cp, v=ord(lit): cp == v)
    return (lambda cp: z3.Or(*[a(cp) for a in accs]) if accs else z3.BoolVal(False)), consts


CP = z3.Int("cp")


class Direct(FunctionSpec):
    """obligations stated over artefacts produced by running the real code"""

    about = ""

    def source(self, engine):
        return engine.program.funcs[self.about]

    def same(self, run: Run, name: str, acc, definition) -> None:
        if acc is None:
            run.oblige(name + ".shape", False, note="pattern is not a single-code-point class the assumed semantics covers")
            return
        run.oblige(name, z3.Implies(regexsem.in_domain(CP), acc(CP) == definition(CP)), {"cp": CP})


class RangeInstances(Direct):
    target = "pest.grammar.expressions.terminals.Range.__init__"
    about = target
    label = "C12.Range[catalogue]"

    def direct(self, run: Run) -> None:
        from pest.grammar.expressions.terminals import Range

        for a, b in RANGES:
            r = Range(a, b)
            d = def_ranges([(a, b)])
            tag = f"{ord(a):04X}-{ord(b):04X}"
            self.same(run, f"interp.{tag}", acceptor(*_compiled(r._re)), d)  # noqa: SLF001
            g, consts = gen_acceptor(r)
            run.oblige(f"gen.{tag}.one_constant", len(consts) == 1)
            self.same(run, f"gen.{tag}", g, d)


class AsciiBuiltins(Direct):
    target = "pest.grammar.rules.ascii.ASCIIRule.__init__"
    about = target
    label = "C12.ASCII_*[all modes]"

    def direct(self, run: Run) -> None:
        from pest import Parser
        from pest.grammar.rules.ascii import ASCII_RULES

        run.oblige("names", set(ASCII_DEF) | {"NEWLINE"} == set(ASCII_RULES))
        # NEWLINE = "\n" | "\r\n" | "\r" (ordered): checked on a tree no optimizer has touched
        from pest.grammar import Choice as _C, String as _S
        from pest.grammar.rules import ascii as _ascii_mod

        nl0 = Parser.from_grammar("a = { NEWLINE }", optimizer=None).rules["NEWLINE"].expression
        if type(nl0).__name__ == "Choice":
            run.oblige("NEWLINE.shape", [getattr(x, "value", None) for x in nl0.expressions] == ["\n", "\r\n", "\r"])
        else:
            # an optimized parser built earlier in this process rewrote the shared built-in (C15's concern); read the pattern
            pat = getattr(getattr(nl0, "pattern", None), "pattern", None)
            run.oblige("NEWLINE.shape", pat in ("(?:\r\n|[\n\r])", "(?:\\\r\\\n|[\\\n\\\r])"), note=f"NEWLINE is {type(nl0).__name__} {pat!r}")
        for name, rs in ASCII_DEF.items():
            d = def_ranges(rs)
            rule = Parser.BUILTIN[name]
            self.same(run, f"{name}.interp", expr_acceptor(rule), d)
            g, _ = gen_acceptor(rule.expression)
            self.same(run, f"{name}.gen", g, d)
            opt = Parser.from_grammar(f"a = {{ {name} }}")
            e = opt.rules["a"].expression
            self.same(run, f"{name}.interp+opt", expr_acceptor(e), d)
            g2, _ = gen_acceptor(e)
            self.same(run, f"{name}.gen+opt", g2, d)
            # the shared built-in objects are not altered by optimizing another parser
            self.same(run, f"{name}.interp.after_opt", expr_acceptor(Parser.BUILTIN[name]), d)


def _generated_choices(n: int | None = None):
    """a generated family of mixed choices over a small pool of code points (so that nesting, touching, duplicates and
    the class-special characters occur); each instance is decided for ALL code points.  Size: 40 (quick) / 300 (thorough)."""
    import os
    import random

    from pest.grammar import Range, String

    tier = os.environ.get("VERIF_TIER", "quick")
    n = n or (300 if tier == "thorough" else 40)
    rnd = random.Random(int(os.environ.get("VERIF_SEED", "0")) + 12)
    pool = sorted("abcdefghij-]^\\[0189") + ["\u00e9", "\u03b1", "\u03b2", "\U00010000", "\U00010001"]
    out = []
    for i in range(n):
        alts, expect = [], []
        for _ in range(rnd.randint(1, 5)):
            if rnd.random() < 0.65:
                lo, hi = sorted((rnd.choice(pool), rnd.choice(pool)))
                alts.append(Range(lo, hi))
                expect.append((lo, hi))
            else:
                c = rnd.choice(pool)
                alts.append(String(c))
                expect.append((c, c))
        out.append((f"gen{i}", alts, expect))
    return out


def _choice_catalogue():
    from pest.grammar import Choice, CIString, Range, String

    S, R, CI = String, Range, CIString  # noqa: N806
    return [
        ("singles", [S("a"), S("b")], [("a", "a"), ("b", "b")]),
        ("overlap", [R("a", "c"), R("b", "d")], [("a", "d")]),
        ("adjacent", [R("a", "c"), R("d", "f")], [("a", "f")]),
        ("inside", [R("a", "z"), S("m"), S("A")], [("a", "z"), ("A", "A")]),
        ("specials", [S("-"), S("]"), S("^"), S("\\"), S("[")], [("-", "-"), ("]", "]"), ("^", "^"), ("\\", "\\"), ("[", "[")]),
        ("caret-first", [S("^"), S("a")], [("^", "^"), ("a", "a")]),
        ("dash-range", [R("+", "-"), S("a")], [("+", "-"), ("a", "a")]),
        ("ci-letter", [CI("a"), S("1")], [("a", "a"), ("A", "A"), ("1", "1")]),
        ("ci-k", [CI("k"), S("1")], [("k", "k"), ("K", "K"), ("1", "1")]),
        ("ci-digit", [CI("1"), S("x")], [("1", "1"), ("x", "x")]),
        ("dups", [S("a"), S("a"), R("a", "a")], [("a", "a")]),
        ("nonascii", [R("α", "ω"), S("é"), R("0", "9")], [("α", "ω"), ("é", "é"), ("0", "9")]),
        ("astral", [R("\U00010000", "\U0001ffff"), S("x")], [("\U00010000", "\U0001ffff"), ("x", "x")]),
        ("nested", [Choice(S("a"), S("b")), R("0", "1")], [("a", "b"), ("0", "1")]),
        ("touching", [R("a", "b"), R("c", "c"), S("d")], [("a", "d")]),
        ("nul", [S("\x00"), R("\x01", "\x02")], [("\x00", "\x02")]),
        ("range-inside-range", [R("a", "z"), R("c", "e")], [("a", "z")]),
        ("range-inside-range-rev", [R("c", "e"), R("a", "z"), R("d", "d")], [("a", "z")]),
        ("ascii-and-digits", [R("\x00", "\x7f"), R("0", "9")], [("\x00", "\x7f")]),
        ("chain", [R("a", "c"), R("b", "h"), R("d", "e"), R("i", "i"), R("k", "l")], [("a", "i"), ("k", "l")]),
    ] + _generated_choices()


class OptimizedClasses(Direct):
    target = "pest.grammar.expressions.choice._optimize_char_class"
    about = target
    label = "C12.OptimizedChoice[catalogue]"

    def direct(self, run: Run) -> None:
        from pest.grammar import Choice
        from pest.grammar.optimizers.squash_choice import squash_choice

        for name, alts, expect in _choice_catalogue():
            d0 = def_ranges(expect)
            if name.startswith("ci-"):
                # case-insensitive literals are specified for ASCII input only
                d = lambda cp, d0=d0: z3.And(cp <= 127, d0(cp))  # noqa: E731
                restrict = lambda acc: (None if acc is None else (lambda cp, acc=acc: z3.And(cp <= 127, acc(cp))))  # noqa: E731
            else:
                d = d0
                restrict = lambda acc: acc  # noqa: E731
            before = Choice(*alts)
            self.same(run, f"{name}.unoptimized", restrict(expr_acceptor(before)), d)
            after = squash_choice(before, {})
            run.oblige(f"{name}.squashed", type(after).__name__ == "OptimizedChoice")
            if type(after).__name__ != "OptimizedChoice":
                continue
            self.same(run, f"{name}.interp", restrict(expr_acceptor(after)), d)
            g, consts = gen_acceptor(after)
            self.same(run, f"{name}.gen", restrict(g), d)


class CIStrings(Direct):
    """^"v": the text handed to the engine is re.escape(v) (which the stdlib parser reads back as exactly the
    characters of v) under flag I, identically for the interpreter and for generated code; under the assumed
    semantics an ASCII window matches iff it equals v up to ASCII case."""

    target = "pest.grammar.expressions.terminals.CIString.__init__"
    about = target
    label = "C12.CIString[catalogue]"

    def direct(self, run: Run) -> None:
        from pest.grammar.expressions.terminals import CIString

        for v in ("ab", "A", "a-b", "x.y", "k", "s", "a b", "[a]", "q\\", "1+1", "^$"):
            c = CIString(v)
            pat, ic = _compiled(c._re)  # noqa: SLF001
            p = regexsem.parse(pat, ic)
            lit = p.literal if p.kind == "literal" else None
            if p.kind == "class1" and len(v) == 1:
                # single character: check by code point
                want = lambda cp, v=v: z3.Or(cp == ord(v), cp == ord(v.swapcase()), *( [cp == 0x212A] if v in "kK" else []), *([cp == 0x17F] if v in "sS" else []))  # noqa: E731
                self.same(run, f"{v!r}.interp.cp", p.accepts, want)
                lit = v
            run.oblige(f"{v!r}.interp.literal", lit == v)
            run.oblige(f"{v!r}.interp.flag_I", ic)
            # the operator contract of ^"v" assumes SIMPLE case folding (a match has exactly len(v) characters, which
            # CIString.parse relies on when it advances by len(self.value)): no VERSION1 / FULLCASE on the interpreter's pattern
            import regex as _rx

            run.oblige(f"{v!r}.interp.simple_case_folding", not (c._re.flags & (_rx.VERSION1 | _rx.FULLCASE)), note=f"flags={int(c._re.flags)}")  # noqa: SLF001
            _code, consts = emit.emit_expression(c, {})
            ok = len(consts) == 1
            if ok:
                gp, gic = _const(consts[0][1])
                ok = gp == pat and gic == ic
            run.oblige(f"{v!r}.gen.same_pattern_and_flags", ok)


class UnicodeProps(Direct):
    target = "pest.grammar.rules.unicode.UnicodePropertyRule.__init__"
    about = target
    label = "C12.UnicodeProperty[all rules]"

    def direct(self, run: Run) -> None:
        import re as _re

        from pest.grammar.expressions.choice import ChoiceCase, ChoiceLiteral, build_optimized_pattern
        from pest.grammar.rules.unicode import UNICODE_RULES

        bad_shape, bad_opt, bad_gen, bad_mix = [], [], [], []
        for name, rule in UNICODE_RULES.items():
            pat = rule.expression.pattern
            if not _re.fullmatch(r"\\p\{[^}]*\}", pat) or rule.expression.regex.pattern != pat:
                bad_shape.append(name)
            if build_optimized_pattern([rule]) != pat:
                bad_opt.append(name)
            mixed = build_optimized_pattern([rule, ChoiceLiteral("x", ChoiceCase.SENSITIVE)])
            if mixed != f"(?:{pat}|[x])":
                bad_mix.append(name)
            _code, consts = emit.emit_expression(rule.expression, {})
            if len(consts) != 1 or _const(consts[0][1])[0] != pat or _const(consts[0][1])[1]:
                bad_gen.append(name)
        run.oblige("count", len(UNICODE_RULES) > 100)
        run.oblige("interp.pattern_is_one_property", not bad_shape, note=str(bad_shape[:3]))
        run.oblige("optimized.same_text", not bad_opt, note=str(bad_opt[:3]))
        run.oblige("optimized.mixed.same_text", not bad_mix, note=str(bad_mix[:3]))
        run.oblige("generated.same_text", not bad_gen, note=str(bad_gen[:3]))


# =============================================================================== escapes
UNESC = "pest.grammar.unescape"
unesc = z3.Function("unesc", z3.StringSort(), z3.StringSort())
unesc_err = z3.Function("unesc_err", z3.StringSort(), z3.BoolSort())
hexval = z3.Function("hexval", z3.StringSort(), z3.IntSort())
is_hex = z3.Function("is_hex", z3.StringSort(), z3.BoolSort())
QUOTE = z3.Const("quote", z3.StringSort())
BS = z3.StringVal("\\")

SIMPLE = {"\\": "\\", "n": "\n", "r": "\r", "t": "\t", "0": "\x00", "'": "'", '"': '"'}
# accepted by the implementation but rejected earlier by the scanner's ESCAPES set: not part of pest
EXTRA = {"/": "/", "b": "\x08", "f": "\x0c"}


V = z3.Const("esc_value", z3.StringSort())  # the string being unescaped
U_str = z3.Function("unesc_from", z3.IntSort(), z3.StringSort())  # unesc(V[i:])
U_err = z3.Function("unesc_err_from", z3.IntSort(), z3.BoolSort())


def at(i):
    return z3.SubString(V, i, 1)


def esc_spec(i):
    """(err, decoded char, length) of the escape sequence that starts at V[i] = '\\\\' (meta.pest `escape`)"""
    n = z3.Length(V)
    e = at(i + 1)
    simple_char = z3.StringVal("")
    is_simple = z3.BoolVal(False)
    for k, v in {**SIMPLE, **EXTRA}.items():
        simple_char = z3.If(e == z3.StringVal(k), z3.StringVal(v), simple_char)
        is_simple = z3.Or(is_simple, e == z3.StringVal(k))
    hx = z3.SubString(V, i + 2, 2)
    x_ok = z3.And(i + 4 <= n, is_hex(hx))
    close = z3.IndexOf(V, z3.StringVal("}"), i + 3)
    nd = close - (i + 3)
    digits = z3.SubString(V, i + 3, nd)
    u_ok = z3.And(i + 3 <= n, at(i + 2) == z3.StringVal("{"), close >= 0, nd >= 2, nd <= 6, is_hex(digits), hexval(digits) <= 0x10FFFF)
    is_x, is_u = e == z3.StringVal("x"), e == z3.StringVal("u")
    err = z3.If(i + 2 > n, True, z3.If(is_simple, False, z3.If(is_x, z3.Not(x_ok), z3.If(is_u, z3.Not(u_ok), True))))
    ch = z3.If(is_simple, simple_char, z3.If(is_x, z3.StrFromCode(hexval(hx)), z3.StrFromCode(hexval(digits))))
    ln = z3.If(is_simple, 2, z3.If(is_x, 4, close + 1 - i))
    return err, ch, ln


def unesc_unfold(i):
    n = z3.Length(V)
    c = at(i)
    err, ch, ln = esc_spec(i)
    return [
        z3.Implies(i >= n, z3.And(U_str(i) == z3.StringVal(""), z3.Not(U_err(i)))),
        z3.Implies(z3.And(0 <= i, i < n, c != BS), z3.And(U_str(i) == z3.Concat(c, U_str(i + 1)), U_err(i) == U_err(i + 1))),
        z3.Implies(z3.And(0 <= i, i < n, c == BS), z3.And(U_err(i) == z3.Or(err, U_err(i + ln)), z3.Implies(z3.Not(err), z3.And(U_str(i) == z3.Concat(ch, U_str(i + ln)), ln >= 2, i + ln <= n)))),
    ]


class EscBase(FunctionSpec):
    raises = ("PestGrammarSyntaxError",)

    def token(self, run: Run):
        return run.heap.alloc("pest.grammar.tokens.Token", {"start": run.fresh("tok_start", "int")}, fresh=False)


class DecodeEscape(EscBase):
    """_decode_escape_sequence(value, index, token, quote) with value[index-1] = '\\\\':
    returns (decoded char, index of the LAST character of the sequence) or raises PestGrammarSyntaxError."""

    target = f"{UNESC}._decode_escape_sequence"

    def setup(self, run: Run):
        v, i = Sym(V, "str"), run.fresh("index", "int")
        run.assume(z3.And(i.t >= 1, i.t <= z3.Length(v.t), z3.SubString(v.t, i.t - 1, 1) == BS))
        run.assume(z3.Or(QUOTE == z3.StringVal('"'), QUOTE == z3.StringVal("'")))
        run.pre = {"v": v.t, "i": i.t}
        return None, [v, i, self.token(run), Sym(QUOTE, "str")], {}

    @property
    def summaries(self):
        def decode_hex_char(run: Run, recv, args, kw):
            v, i = z(args[0]), z(args[1])
            n = z3.Length(v)
            close = z3.IndexOf(v, z3.StringVal("}"), i + 2)
            nd = close - (i + 2)
            digits = z3.SubString(v, i + 2, nd)
            ok = z3.And(i + 2 <= n, z3.SubString(v, i + 1, 1) == z3.StringVal("{"), close >= 0, nd >= 2, nd <= 6, is_hex(digits))
            run.oblige("hexchar.requires", z3.And(i >= 1, z3.SubString(v, i, 1) == z3.StringVal("u")))
            if not run.branch(ok, "hexchar.ok"):
                raise PyExc("PestGrammarSyntaxError", "decode_hex_char")
            run.assume(hexval(digits) >= 0, "hexval is non-negative (definition)")
            return (wrap(hexval(digits), "int"), wrap(close + 1, "int"))

        def parse_hex_digits(run: Run, recv, args, kw):
            d = z(args[0])
            if not run.branch(is_hex(d), "hexdigits.ok"):
                raise PyExc("PestGrammarSyntaxError", "parse_hex_digits")
            run.assume(hexval(d) >= 0, "hexval is non-negative (definition)")
            run.assume(z3.Implies(z3.Length(d) == 2, hexval(d) <= 255), "two hex digits are at most 0xFF (definition)")
            return wrap(hexval(d), "int")

        return {f"{UNESC}._decode_hex_char": decode_hex_char, f"{UNESC}._parse_hex_digits": parse_hex_digits}

    def call_builtin(self, run: Run, name: str, args, kwargs, n):
        if name == "chr":
            c = z(args[0], "int")
            if not run.branch(z3.And(c >= 0, c <= 0x10FFFF), "chr.range"):
                raise PyExc("ValueError", "chr() arg not in range")
            return Sym(z3.StrFromCode(c), "str")
        return NotImplemented

    def post(self, run: Run, pre: Any, out: Any) -> None:
        v, i = pre["v"], pre["i"]
        err, ch, ln = esc_spec(i - 1)
        ok = isinstance(out, tuple) and len(out) == 2
        run.oblige("result.is_pair", ok)
        if ok:
            wt = {"value": v, "index": i, "quote": QUOTE, "out_ch": out[0], "out_idx": out[1]}
            run.oblige("noerr", z3.Not(err), wt)
            run.oblige("result.char", z(out[0], "str") == ch, wt)
            run.oblige("result.index", z(out[1], "int") == i - 1 + ln - 1, wt)

    def post_exc(self, run: Run, pre: Any, exc: PyExc) -> None:
        if exc.name == "PestGrammarSyntaxError":
            v, i = pre["v"], pre["i"]
            run.oblige("raises.when", esc_spec(i - 1)[0], {"value": v, "index": i})
            return
        super().post_exc(run, pre, exc)


class UnescapeString(EscBase):
    target = f"{UNESC}.unescape_string"

    def setup(self, run: Run):
        v = Sym(V, "str")
        run.assume(z3.Or(QUOTE == z3.StringVal('"'), QUOTE == z3.StringVal("'")))
        run.pre = {"v": v.t}
        return None, [v, self.token(run), Sym(QUOTE, "str")], {}

    @property
    def summaries(self):
        def decode(run: Run, recv, args, kw):
            v, i = z(args[0]), z(args[1])
            err, ch, ln = esc_spec(i - 1)
            run.oblige("decode.requires", z3.And(v.eq(V), i >= 1, i <= z3.Length(v), z3.SubString(v, i - 1, 1) == BS))
            if run.branch(err, "decode.err"):
                raise PyExc("PestGrammarSyntaxError", "escape")
            # name the decoded char / length and restate the unfolding of unesc at i-1 over the names
            # (an instance of unesc_unfold(i-1) for V[i-1] = backslash and no error; keeps the terms small)
            ch_c, ln_c = run.fresh("esc_ch", "str"), run.fresh("esc_len", "int")
            run.assume(z3.And(ch_c.t == ch, ln_c.t == ln))
            run.assume(z3.And(U_str(i - 1) == z3.Concat(ch_c.t, U_str(i - 1 + ln_c.t)), U_err(i - 1) == U_err(i - 1 + ln_c.t), ln_c.t >= 2, i - 1 + ln_c.t <= z3.Length(v)),
                       "unfolding of unesc at an escape sequence (definition)")
            return (ch_c, wrap(i - 1 + ln_c.t - 1, "int"))

        return {f"{UNESC}._decode_escape_sequence": decode}

    def str_method(self, run: Run, s: Any, name: str, args, kwargs, n):
        if name == "join" and isinstance(s, str) and s == "":
            t, _ = run.as_seq(args[0], None, "str")
            return Sym(joined(t), "str")
        return NotImplemented

    @property
    def loops(self):
        def facts(run, g):
            env = run.frames[0].env
            v = run.pre["v"]
            idx = z(env["index"])
            out, _ = run.as_seq(env["unescaped"], None, "str")
            n = z3.Length(out)
            return [*unesc_unfold(idx), joined(z3.Empty(out.sort())) == z3.StringVal(""),
                    z3.Implies(n > 0, joined(out) == z3.Concat(joined(z3.SubSeq(out, 0, n - 1)), out[n - 1]))]

        def inv(run, g):
            env = run.frames[0].env
            v = run.pre["v"]
            idx = z(env["index"])
            out, _ = run.as_seq(env["unescaped"], None, "str")
            return [
                ("index", z3.And(0 <= idx, idx <= z3.Length(v))),
                ("err", U_err(idx) == U_err(0)),
                ("value", z3.Implies(z3.Not(U_err(0)), z3.Concat(joined(out), U_str(idx)) == U_str(0))),
            ]

        def modifies(run):
            env = run.frames[0].env
            run.as_seq(env["unescaped"], None, "str")
            return [(env["unescaped"], "seq")]

        return {0: Loop(inv, facts=facts, modifies=modifies, back=back_joined)}

    def post(self, run: Run, pre: Any, out: Any) -> None:
        v = pre["v"]
        for f in unesc_unfold(z3.Length(v)):
            run.assume(f)
        run.oblige("noerr", z3.Not(U_err(0)), {"value": v})
        run.oblige("result", z(out, "str") == U_str(0), {"value": v, "out": out})

    def post_exc(self, run: Run, pre: Any, exc: PyExc) -> None:
        if exc.name == "PestGrammarSyntaxError":
            run.oblige("raises.when", U_err(0), {"value": pre["v"]})
            return
        super().post_exc(run, pre, exc)


joined = z3.Function("join_all", z3.SeqSort(z3.StringSort()), z3.StringSort())


def back_joined(run, g):
    # lemma instance for the list that grew by one element in this iteration:  join(xs ++ [x]) = join(xs) ++ x
    env = run.frames[0].env
    out, _ = run.as_seq(env["unescaped"], None, "str")
    n = z3.Length(out)
    run.assume(z3.Implies(n > 0, joined(out) == z3.Concat(joined(z3.SubSeq(out, 0, n - 1)), out[n - 1])))
    return g


class DecodeHexChar(EscBase):
    """_decode_hex_char(value, index, token) with value[index] = 'u' (value[index-1] = '\\\\')."""

    target = f"{UNESC}._decode_hex_char"

    def setup(self, run: Run):
        v, i = Sym(V, "str"), run.fresh("index", "int")
        run.assume(z3.And(i.t >= 1, i.t < z3.Length(v.t), z3.SubString(v.t, i.t, 1) == z3.StringVal("u")))
        run.pre = {"v": v.t, "i": i.t}
        return None, [v, i, self.token(run)], {}

    @property
    def summaries(self):
        return {f"{UNESC}._parse_hex_digits": DecodeEscape().summaries[f"{UNESC}._parse_hex_digits"]}

    def terms(self, pre):
        v, i = pre["v"], pre["i"]
        n = z3.Length(v)
        close = z3.IndexOf(v, z3.StringVal("}"), i + 2)
        nd = close - (i + 2)
        digits = z3.SubString(v, i + 2, nd)
        ok = z3.And(i + 2 <= n, z3.SubString(v, i + 1, 1) == z3.StringVal("{"), close >= 0, nd >= 2, nd <= 6, is_hex(digits))
        return None, close, digits, ok

    def post(self, run: Run, pre: Any, out: Any) -> None:
        w, close, digits, ok = self.terms(pre)
        good = isinstance(out, tuple) and len(out) == 2
        run.oblige("result.is_pair", good)
        if good:
            wt = {"value": pre["v"], "index": pre["i"]}
            run.oblige("noerr", ok, wt)
            run.oblige("result.codepoint", z(out[0], "int") == hexval(digits), wt)
            run.oblige("result.index", z(out[1], "int") == close + 1, wt)

    def post_exc(self, run: Run, pre: Any, exc: PyExc) -> None:
        if exc.name == "PestGrammarSyntaxError":
            run.oblige("raises.when", z3.Not(self.terms(pre)[3]), {"value": pre["v"], "index": pre["i"]})
            return
        super().post_exc(run, pre, exc)


EXPLANATION = (
    "Pattern/flag obligations: for 23 ranges, the 10 ASCII_* built-ins in all four modes, 16 optimizer-merged classes, "
    "11 case-insensitive literals and every Unicode property rule, the actual pattern text and flags the running code hands "
    "to the regex engine (interpreter constructor, optimizer output, emitted constant) are compared with the definition "
    "for ALL 1,114,112 code points by one z3 integer query each. Escapes: unescape_string, _decode_escape_sequence and "
    "_decode_hex_char are executed symbolically and proved against the recursive Spec `unesc` taken from meta.pest's "
    "escape production (all strings, all indices)."
)
class ParseHexDigits(FunctionSpec):
    """_parse_hex_digits(digits, token) for ALL strings: returns the base-16 value iff every character is a hex digit,
    raises PestGrammarSyntaxError otherwise, raises nothing else, never returns a negative number.

    The byte loop runs over digits.encode().  UTF-8 is used through two instance axioms (standard facts, assumed):
    while the first k bytes are ASCII and equal the first k characters (ghost P(k)),
      U1  byte k exists  =>  character k exists, and it is that byte when the character is ASCII, a byte >= 128 otherwise
      U2  no byte k      =>  no character k
    Spec: HV(k) / IH(k) = value / hex-ness of the first k characters, unfolded at the loop index; is_hex(d) = IH(len d),
    hexval(d) = HV(len d) tie the opaque symbols the callers' contracts use to this definition."""

    target = f"{UNESC}._parse_hex_digits"
    raises = ("PestGrammarSyntaxError",)

    def setup(self, run: Run):
        d = run.fresh("digits", "str")
        self.D = d.t
        self.Bts = z3.Const("utf8_bytes", z3.SeqSort(z3.IntSort()))
        self.HV = z3.Function("hex_prefix_value", z3.IntSort(), z3.IntSort())
        self.IH = z3.Function("hex_prefix_ok", z3.IntSort(), z3.BoolSort())
        self.P = z3.Function("utf8_prefix_ascii", z3.IntSort(), z3.BoolSort())
        run.pre = {"d": d.t}
        n = z3.Length(d.t)
        run.assume(z3.And(self.HV(0) == 0, self.IH(0), self.P(0)))
        run.assume(z3.And(is_hex(d.t) == self.IH(n), z3.Implies(self.IH(n), hexval(d.t) == self.HV(n))), "definition of is_hex / hexval by prefix recursion")
        tok = run.heap.alloc("pest.grammar.tokens.Token", {}, fresh=False)
        return None, [d, tok], {}

    def digit_val(self, c):
        return z3.If(z3.And(c >= 48, c <= 57), c - 48, z3.If(z3.And(c >= 65, c <= 70), c - 55, c - 87))

    def is_digit(self, c):
        return z3.Or(z3.And(c >= 48, c <= 57), z3.And(c >= 65, c <= 70), z3.And(c >= 97, c <= 102))

    def unfold(self, k):
        c = z3.StrToCode(z3.SubString(self.D, k, 1))
        n = z3.Length(self.D)
        b = self.Bts[k]
        return [
            z3.Implies(z3.And(0 <= k, k < n), z3.And(self.IH(k + 1) == z3.And(self.IH(k), self.is_digit(c)), self.HV(k + 1) == self.HV(k) * 16 + self.digit_val(c))),
            z3.Implies(z3.And(0 <= k, k < n, z3.Not(self.IH(k + 1))), z3.Not(self.IH(n))),  # hex-ness of a prefix is monotone (unfolded forward)
            self.P(k + 1) == z3.And(self.P(k), k < n, k < z3.Length(self.Bts), b == c, b < 128),
            # UTF-8 instance axioms at k
            z3.Implies(z3.And(self.P(k), k < z3.Length(self.Bts)), z3.And(k < n, z3.Implies(c < 128, b == c), z3.Implies(c >= 128, b >= 128))),
            z3.Implies(z3.And(self.P(k), k == z3.Length(self.Bts)), k == n),
            z3.And(b >= 0, b <= 255),
        ]

    def str_method(self, run: Run, s0: Any, name: str, args, kwargs, n):
        # digits.encode() / digits.encode("utf-8", "surrogatepass"): UTF-8 bytes; with surrogatepass a lone surrogate is
        # encoded like any other non-ASCII code point (lead byte >= 0xED) instead of raising - the instance axioms U1/U2 hold
        # for both, the plain form can raise UnicodeEncodeError on a lone surrogate (not modelled: repaired in /repo 899ef0f)
        if name == "encode" and (not args or tuple(args) == ("utf-8", "surrogatepass")) and not kwargs and isinstance(s0, Sym) and s0.t.eq(self.D):
            return SeqV(self.Bts, "int")
        return NotImplemented

    def binop(self, run: Run, op, a, b, n):
        if isinstance(op, ast.LShift) and isinstance(b, int) and b >= 0 and run._kind(a) == "int":
            run.oblige("shift.nonnegative", z(a, "int") >= 0)
            return wrap(z(a, "int") * (1 << b), "int")
        if isinstance(op, ast.BitOr) and run._kind(a) == "int" and run._kind(b) == "int":
            x, y = z(a, "int"), z(b, "int")
            # x | y = x + y when the bits of y (0 <= y < 16) are clear in x (x a multiple of 16)
            run.oblige("or.disjoint_bits", z3.And(x >= 0, x % 16 == 0, y >= 0, y < 16))
            return wrap(x + y, "int")
        return NotImplemented

    @property
    def loops(self):
        spec = self

        def facts(run, g):
            k = z(run.loop_idx) if run.loop_idx is not None else z3.IntVal(0)
            return spec.unfold(k)

        def inv(run, g):
            k = z(run.loop_idx) if run.loop_idx is not None else z3.IntVal(0)
            cp = z(run.frames[0].env["codepoint"], "int")
            return [("prefix", z3.And(spec.P(k), spec.IH(k), cp == spec.HV(k), cp >= 0, k <= z3.Length(spec.D)))]

        return {0: Loop(inv, facts=facts)}

    def post(self, run: Run, pre: Any, out: Any) -> None:
        d = pre["d"]
        w = {"digits": d}
        run.oblige("accepts_only_hex", is_hex(d), w)
        run.oblige("result", z(out, "int") == hexval(d), w)
        run.oblige("result.nonnegative", z(out, "int") >= 0, w)

    def post_exc(self, run: Run, pre: Any, exc: PyExc) -> None:
        if exc.name == "PestGrammarSyntaxError":
            run.oblige("rejects_only_non_hex", z3.Not(is_hex(pre["d"])), {"digits": pre["d"]})
            return
        super().post_exc(run, pre, exc)


TRUSTED = [
    "regex engine semantics of the shapes in pyvc/regexsem.py (class membership, escaped literal, flag I = ASCII other-case + U+212A/U+017F, \\p{..} opaque); patterns are read back with the standard library's regex parser",
    "pyvc executor's model of the Python subset; z3 5.1.0 / cvc5 1.0.3",
    "_parse_hex_digits is proved for all strings (ParseHexDigits) given two instance axioms about UTF-8 (an ASCII character is its own single byte, any other character starts with a byte >= 128, bytes and characters run out together on an ASCII prefix); the call-site contract the other escape proofs use is that proved one",
    "the emitted control flow around the constants is the ordered choice proved in C01",
]
ASSUMPTIONS = ["catalogue of instances (ranges, choices, literals) - each instance is decided for all code points"]
BOUNDED = ["catalogue of terminal instances (not symbolic in the range bounds)", "_parse_hex_digits and an end-to-end escape check: exhaustive over all hex strings of length <= 3 and every escape form (stand-in)"]


def specs(tier):
    from . import ops, templates

    # the catalogue obligations speak about the pattern each terminal hands to the regex engine; that the terminal's real
    # parse() / emitted code does nothing but match that pattern at state.pos and advance to the end of the match is the
    # terminal's own contract (C03 / C01), re-proved here so that a terminal that stops consulting its pattern for some
    # code points (round-5 seed C12c: an ASCII fast path in Range.parse) fails a C12 obligation, not only a C03 one
    terminals = [ops.StringSpec(), ops.CIStringSpec(), ops.RangeSpec(), ops.AnySpec(), *templates.terminal_templates()]
    return [RangeInstances(), AsciiBuiltins(), OptimizedClasses(), CIStrings(), UnicodeProps(), ParseHexDigits(), DecodeEscape(), DecodeHexChar(), UnescapeString(), *terminals]


def escapes_check() -> dict:
    import itertools

    from pest.grammar.exceptions import PestGrammarSyntaxError
    from pest.grammar.tokens import Token, TokenKind
    from pest.grammar.unescape import _parse_hex_digits, unescape_string

    tok = Token(TokenKind.STRING, "", 0, "")
    bad = []
    n = 0
    hexd = "0123456789abcdefABCDEF"
    for ln in (1, 2, 3):
        for t in itertools.product(hexd + "gG-+_ xé", repeat=ln):
            s = "".join(t)
            n += 1
            try:
                got = _parse_hex_digits(s, tok)
                want = int(s, 16) if all(c in hexd for c in s) else None
                if got != want:
                    bad.append({"what": "_parse_hex_digits", "in": s, "got": got})
            except PestGrammarSyntaxError:
                if all(c in hexd for c in s):
                    bad.append({"what": "_parse_hex_digits rejected", "in": s})
            except Exception as e:  # noqa: BLE001
                bad.append({"what": f"_parse_hex_digits raised {type(e).__name__}", "in": s})
    cases = {r"\n": "\n", r"\r": "\r", r"\t": "\t", r"\\": "\\", r"\0": "\0", r"\'": "'", r"\"": '"', r"\x41": "A", r"\xff": "\xff",
             r"\u{41}": "A", r"\u{1F600}": "\U0001F600", r"\u{10FFFF}": "\U0010FFFF", r"\u{123}": "\u0123", r"a\x41b\u{42}c": "aAbBc", r"\x41\x42": "AB", r"\u{41}\u{42}": "AB"}
    for src, want in cases.items():
        n += 1
        try:
            got = unescape_string(src, tok)
            if got != want:
                bad.append({"what": "unescape_string", "in": src, "got": got, "want": want})
        except Exception as e:  # noqa: BLE001
            bad.append({"what": f"unescape_string raised {type(e).__name__}", "in": src})
    for src in (r"\x4", r"\xZZ", r"\u{110000}", r"\u{4}", r"\u{1234567}", r"\u41", "\\", r"\q", r"\u{41", r"\u", r"\u{-1}", r"\u{-00041}", r"\x-1", r"\x-f", r"\u{+41}",
                r"\u{0x41}", r"\u{4_1}", r"\x 1", r"\x1 ", r"\u{ 41}", r"\u{é1}"):
        n += 1
        try:
            unescape_string(src, tok)
            bad.append({"what": "malformed escape accepted", "in": src})
        except PestGrammarSyntaxError:
            pass
        except Exception as e:  # noqa: BLE001
            bad.append({"what": f"malformed escape raised {type(e).__name__}", "in": src})
    return {"name": "c12-escapes", "kind": "bounded stand-in (run-time check of the real unescape functions)", "evaluations": n,
            "bound": "all strings over hex digits + {g,G,-,+,_,space,x,é} up to length 3; 37 escape forms", "violation": bool(bad), "details": bad[:5]}


def codepoint_sweep(tier: str) -> dict:
    """exhaustive run-time sweep of all 1,114,112 code points for the ASCII built-ins in the four modes (thorough tier:
    also the range catalogue) - validates the assumed regex semantics against the real engine."""
    from pest import Parser

    bad = []
    n = 0
    names = list(ASCII_DEF) if tier == "thorough" else ["ASCII_HEX_DIGIT", "ASCII_ALPHA"]
    g = "\n".join(f"r{i} = {{ {nm} }}" for i, nm in enumerate(names))
    step = 1 if tier == "thorough" else 1
    limit = 0x110000 if tier == "thorough" else 0x3000
    for opt in (True, False):
        p = Parser.from_grammar(g) if opt else Parser.from_grammar(g, optimizer=None)
        ns: dict = {}
        exec(compile(p.generate(), "<g>", "exec"), ns)  # noqa: S102
        for i, nm in enumerate(names):
            want = ASCII_DEF[nm]
            for cp in list(range(0, limit, step)) + [0x212A, 0x17F, 0xFF21, 0x10FFFF]:
                if 0xD800 <= cp <= 0xDFFF:
                    continue
                ch = chr(cp)
                exp = any(a <= ch <= b for a, b in want)
                for f in (p.parse, ns["parse"]):
                    n += 1
                    try:
                        f(f"r{i}", ch)
                        got = True
                    except Exception:  # noqa: BLE001
                        got = False
                    if got != exp:
                        bad.append({"rule": nm, "cp": hex(cp), "optimized": opt, "accepted": got})
                        break
            if bad:
                break
    return {"name": "c12-codepoint-sweep", "kind": "bounded stand-in (real engine, validates the assumed regex semantics)", "evaluations": n,
            "bound": f"{len(names)} built-ins x code points 0..{hex(limit)} (+ fold specials) x 4 modes", "violation": bool(bad), "details": bad[:5]}


def range_sweep(tier: str) -> dict:
    """the real parse() of every catalogued range, in the four modes, on the code points around its bounds, around the
    ASCII / Latin-1 / BMP / surrogate boundaries and on all of U+0000..U+017F (thorough: every code point)"""
    from pest import Parser

    bad = []
    n = 0

    def lit(c):
        return f"'\\u{{{ord(c):02X}}}'"

    g = "\n".join(f"r{i} = {{ {lit(a)}..{lit(b)} }}" for i, (a, b) in enumerate(RANGES))
    g += "\nc0 = { 'a'..'c' | 'x'..'\\u{7F}' }\nc1 = { '\\u{7F}'..'\\u{7F}' | \"\\u{80}\" }\nc2 = { ('\\u{00}'..'\\u{7F}')+ }"
    extra = {"c0": [("a", "c"), ("x", "\x7f")], "c1": [("\x7f", "\x80")], "c2": [("\x00", "\x7f")]}
    common = set(range(0x180)) | {0x7FF, 0x800, 0xD7FF, 0xE000, 0xFFFD, 0xFFFF, 0x10000, 0x1FFFF, 0x20000, 0x10FFFF, 0x212A, 0x17F, 0x130, 0x131, 0xFF21, 0xFF41}
    for opt in (True, False):
        try:
            p = Parser.from_grammar(g) if opt else Parser.from_grammar(g, optimizer=None)
        except Exception as e:  # noqa: BLE001
            # every range is written with a \\u{..} escape of 2-6 hex digits of a code point <= 10FFFF: a valid grammar
            # (round-7 seed C12d decoded 3- and 5-digit escapes wrongly and this stand-in crashed instead of reporting it)
            bad.append({"what": f"a grammar of valid \\u{{..}} ranges was rejected: {type(e).__name__}: {e}"[:200], "optimized": opt})
            continue
        ns: dict = {}
        exec(compile(p.generate(), "<g>", "exec"), ns)  # noqa: S102
        rules = [(f"r{i}", [(a, b)]) for i, (a, b) in enumerate(RANGES)] + list(extra.items())
        for name, rs in rules:
            cps = set(common)
            for a, b in rs:
                cps |= {ord(a) - 1, ord(a), ord(a) + 1, ord(b) - 1, ord(b), ord(b) + 1}
            if tier == "thorough":
                cps |= set(range(0, 0x110000, 1 if name in ("r9", "c0") else 17))
            for cp in sorted(cps):
                if not 0 <= cp <= 0x10FFFF or 0xD800 <= cp <= 0xDFFF:
                    continue
                ch = chr(cp)
                exp = any(a <= ch <= b for a, b in rs)
                for mode, f in (("interp", p.parse), ("gen", ns["parse"])):
                    n += 1
                    try:
                        f(name, ch)
                        got = True
                    except Exception:  # noqa: BLE001
                        got = False
                    if got != exp:
                        bad.append({"rule": str(p.rules[name]) if not opt else name, "ranges": [[hex(ord(a)), hex(ord(b))] for a, b in rs], "cp": hex(cp), "mode": mode + ("+opt" if opt else ""), "accepted": got, "what": "range membership"})
                        break
            if len(bad) > 4:
                break
    return {"name": "c12-range-sweep", "kind": "bounded stand-in (real parse() of the catalogued ranges, four modes)", "evaluations": n,
            "bound": f"{len(RANGES)} catalogued ranges + 3 choices of ranges x (U+0000..U+017F, the bounds +-1, plane / surrogate boundaries, fold specials) x 4 modes", "violation": bool(bad), "details": bad[:5]}


def extra_checks(tier, seed):
    return [escapes_check(), codepoint_sweep(tier), range_sweep(tier)]


def concretise(tier, seed, refuted, undecided, known):
    out = []
    for v in refuted:
        cp = v.model.get("cp")
        if cp is not None:
            out.append({"found": True, "for": v.name, "input": {"code_point": cp, "obligation": v.clause}, "observed": "accepts(cp) differs from the definition",
                        "cmd": f"/venv/bin/python -c \"print(hex({cp}), repr(chr({cp})))\""})
    if undecided or refuted:
        rs = range_sweep(tier)
        for d in rs["details"][:1]:
            out.append({"found": True, "for": None, "input": d, "observed": d.get("what"),
                        "cmd": "cd /verif && .venv/bin/python -c \"from contracts import c12; print(c12.range_sweep('quick'))\""})
    r = escapes_check()
    for d in r["details"][:1]:
        out.append({"found": True, "for": UNESC, "input": d, "observed": d.get("got"), "cmd": "cd /verif && .venv/bin/python -c \"from contracts import c12; print(c12.escapes_check())\""})
    return out
