"""C10, token layer: the grammar Parser (pest.grammar.parser.Parser) builds the tree the token sequence denotes.

Spec: the flat token grammar of meta.pest's `expression` / `term` (written from the property statement, not from the
parser's precedence-climbing structure), as recursive Spec functions over an arbitrary token sequence TOKS:

  EXPR(i)  = kind(i) = CHOICE_OP ? ALT(i+1) : ALT(i)
  ALT(i)   = SEQ (CHOICE_OP SEQ)*       tree: the single sequence, or Cho[all of them]
  SEQ(i)   = TERM (SEQUENCE_OP TERM)*   tree: the single term, or Seq[all of them]
  TERM(i)  = (TAG ASSIGN_OP)? PRE        the tag goes to the outermost prefix operator, else to the node
  PRE(i,t) = (& | !) PRE(i+1, none)  |  PF(NODE(i, t))
  PF(j,e)  = ? * + {n} {n,} {,n} {m,n} applied left to right (innermost first), counts <= u32
  NODE     = string | ^string | ( EXPR ) | identifier (built-in rule or reference) | PUSH_LITERAL ( string ) | PUSH ( EXPR )
             | PEEK | PEEK [ int? .. int? ] | PEEK_ALL | POP | POP_ALL | DROP | char .. char (decoded, start <= stop)

Contracts (real bodies executed symbolically; parse_infix_expression, parse_repeat_expression, parse_peek_expression,
_number and the token cursor are inlined; recursion through the functions' own contracts):
  parse_expression(p)          p=1: EXPR   p=2: ALT   p=3: SEQ   p=4: PRE(., none)     result tree, cursor, error iff Spec error
  parse_postfix_expression(e)  PF
  parse_rules / parse          the rule list: name, modifier, doc lines, EXPR between braces; grammar doc lines

Precondition (assumed, not proved - the scanner never emits such sequences; validated by the differential): no CHOICE_OP
directly after an infix or prefix operator and no TAG directly after a prefix operator (the parser would skip/accept them).
"""
from __future__ import annotations

from typing import Any

import z3

from pyvc.driver import FunctionSpec
from pyvc.engine import PyExc, Run
from pyvc.sorts import OptStr, register_kind
from pyvc.values import BoundMethod, ClassV, Ref, Sym, wrap, z

from .ops import Loop

GPARSER = "pest.grammar.parser.Parser"
X = "pest.grammar.expressions"
S, I, B = z3.StringSort(), z3.IntSort(), z3.BoolSort()  # noqa: E741

Tok = z3.DeclareSort("GTok")
register_kind("gtok", Tok)
t_kind = z3.Function("gt_kind", Tok, I)  # token kinds are integer codes (index in KINDS): no string reasoning for them
t_value = z3.Function("gt_value", Tok, S)
tok_at = z3.Function("gtok_at", I, Tok)  # the token list, abstracted to an indexed collection of length NT
NT = z3.Int("gntokens")
EOFT = z3.Const("geof", Tok)
KINDS = [
    "SOI", "EOI", "ERROR", "WHITESPACE", "COMMENT_TEXT", "IDENTIFIER", "ASSIGN_OP", "MODIFIER", "LBRACE", "RBRACE", "CHOICE_OP", "SEQUENCE_OP", "TAG",
    "POSITIVE_PREDICATE", "NEGATIVE_PREDICATE", "BLOCK_COMMENT", "CHAR", "COMMA", "LINE_DOC", "DROP", "GRAMMAR_DOC", "LBRACKET", "LPAREN", "PEEK", "PEEK_ALL",
    "REPEAT_ONCE_OP", "POP", "POP_ALL", "PUSH", "PUSH_LITERAL", "OPTION_OP", "RANGE_OP", "RBRACKET", "RPAREN", "RULE_DOC", "REPEAT_OP", "STRING", "STRING_CI",
    "NUMBER", "INTEGER",
]
WORDS = ["opt", "rep", "rep1", "exact", "min", "max", "minmax", "PEEK", "PEEK_ALL", "POP", "POP_ALL", "DROP"]


def sv(name: str):
    """integer code of a token kind / of a tree label"""
    if name in WORDS:
        return z3.IntVal(1000 + WORDS.index(name))
    if name not in KINDS:
        KINDS.append(name)  # a token kind this table does not know yet
    return z3.IntVal(KINDS.index(name))


_e = z3.Datatype("GExpr")
_l = z3.Datatype("GEList")
_e.declare("Str", ("s_v", S))
_e.declare("IStr", ("i_v", S))
_e.declare("Ident", ("id_name", S), ("id_tag", OptStr))
_e.declare("Builtin", ("b_name", S))
_e.declare("Grp", ("g_e", _e), ("g_tag", OptStr))
_e.declare("PushLit", ("pl_v", S), ("pl_tag", OptStr))
_e.declare("Push", ("pu_e", _e), ("pu_tag", OptStr))
_e.declare("Kw", ("kw_kind", I), ("kw_tag", OptStr))
_e.declare("PeekSl", ("ps_a", OptStr), ("ps_b", OptStr), ("ps_tag", OptStr))
_e.declare("Rng", ("r_a", S), ("r_b", S), ("r_tag", OptStr))
_e.declare("Pred", ("p_pos", B), ("p_e", _e), ("p_tag", OptStr))
_e.declare("Post1", ("q_kind", I), ("q_e", _e))
_e.declare("RepN", ("rn_kind", I), ("rn_e", _e), ("rn_a", I), ("rn_b", I))
_e.declare("Seq", ("sq_items", _l))
_e.declare("Cho", ("ch_items", _l))
_l.declare("nil")
_l.declare("cons", ("hd", _e), ("tl", _l))
Expr, EList = z3.CreateDatatypes(_e, _l)
register_kind("gexpr", Expr)
register_kind("gelist", EList)
NONE_S = OptStr.none_s
U32 = 0xFFFFFFFF
INT_MAX_STR_DIGITS = 4300  # CPython >= 3.11: int(str) raises ValueError beyond this many digits

is_builtin = z3.Function("g_is_builtin", S, B)
unesc = z3.Function("g_unescape", S, S)
unesc_err = z3.Function("g_unescape_err", S, B)


def kind(i):
    return z3.If(z3.And(i >= 0, i < NT), t_kind(tok_at(i)), sv("EOI"))


def val(i):
    return t_value(tok_at(i))


def num(i):
    return z3.StrToInt(val(i))


def strip1(v):
    """v[1:] as the executor writes it"""
    n = z3.Length(v)
    return z3.SubSeq(v, z3.If(1 > n, n, 1), n - z3.If(1 > n, n, 1))


# Spec functions ------------------------------------------------------------------------------------------------------
def _fn3(name: str, *dom):
    return z3.Function(f"{name}_err", *dom, B), z3.Function(f"{name}_end", *dom, I), z3.Function(f"{name}_tree", *dom, Expr)


NODE = _fn3("g_node", I, OptStr)
PF = _fn3("g_pf", I, Expr)
PRE = _fn3("g_pre", I, OptStr)
TERM = _fn3("g_term", I)
SEQL = (z3.Function("g_seql_err", I, B), z3.Function("g_seql_end", I, I), z3.Function("g_seql_list", I, EList))
ALTL = (z3.Function("g_altl_err", I, B), z3.Function("g_altl_end", I, I), z3.Function("g_altl_list", I, EList))
POSTFIX_KINDS = ("OPTION_OP", "REPEAT_OP", "REPEAT_ONCE_OP", "LBRACE")


def seq_tree(i):
    lst = SEQL[2](i)
    return z3.If(EList.tl(lst) == EList.nil, EList.hd(lst), Expr.Seq(lst))


def alt_tree(i):
    lst = ALTL[2](i)
    return z3.If(EList.tl(lst) == EList.nil, EList.hd(lst), Expr.Cho(lst))


def expr_of(i):
    """EXPR(i) -> (err, end, tree)"""
    c = kind(i) == sv("CHOICE_OP")
    j = z3.If(c, i + 1, i)
    return ALTL[0](j), ALTL[1](j), alt_tree(j)


def is_postfix_kind(k):
    return z3.Or(*[k == sv(x) for x in POSTFIX_KINDS])


def slice_inner(v):
    """v[1:-1] as the executor writes it (clamped)"""
    n = z3.Length(v)
    lo = z3.If(1 > n, n, 1)
    hi0 = n - 1
    hi = z3.If(hi0 < 0, 0, hi0)
    hi2 = z3.If(hi < lo, lo, hi)
    return z3.SubSeq(v, lo, hi2 - lo)


def node_unfold(i, tag) -> list[z3.BoolRef]:  # noqa: C901
    k = kind(i)
    err, end, tree = NODE[0](i, tag), NODE[1](i, tag), NODE[2](i, tag)
    out = []

    def case(kname, e, j, t):
        out.append(z3.Implies(k == sv(kname), z3.And(err == e, z3.Implies(z3.Not(e), z3.And(end == j, tree == t)))))

    case("STRING", z3.BoolVal(False), i + 1, Expr.Str(val(i)))
    case("STRING_CI", z3.BoolVal(False), i + 1, Expr.IStr(val(i)))
    ee, ej, et = expr_of(i + 1)
    case("LPAREN", z3.Or(ee, kind(ej) != sv("RPAREN")), ej + 1, Expr.Grp(et, tag))
    nm = val(i)
    case("IDENTIFIER", z3.BoolVal(False), i + 1, z3.If(z3.And(nm != z3.StringVal("EOI"), is_builtin(nm)), Expr.Builtin(nm), Expr.Ident(nm, tag)))
    case("PUSH_LITERAL", z3.Or(kind(i + 1) != sv("LPAREN"), kind(i + 2) != sv("STRING"), kind(i + 3) != sv("RPAREN")), i + 4, Expr.PushLit(val(i + 2), tag))
    pe, pj, pt = expr_of(i + 2)
    case("PUSH", z3.Or(kind(i + 1) != sv("LPAREN"), pe, kind(pj) != sv("RPAREN")), pj + 1, Expr.Push(pt, tag))
    # PEEK / PEEK[a..b]
    j1 = i + 2
    has_a = kind(j1) == sv("INTEGER")
    a = z3.If(has_a, OptStr.some_s(val(j1)), NONE_S)
    j2 = z3.If(has_a, j1 + 1, j1)
    j3 = j2 + 1
    has_b = kind(j3) == sv("INTEGER")
    b = z3.If(has_b, OptStr.some_s(val(j3)), NONE_S)
    j4 = z3.If(has_b, j3 + 1, j3)
    sl = kind(i + 1) == sv("LBRACKET")
    toolong = z3.Or(z3.And(has_a, z3.Length(val(j1)) > INT_MAX_STR_DIGITS), z3.And(has_b, z3.Length(val(j3)) > INT_MAX_STR_DIGITS))
    case("PEEK", z3.And(sl, z3.Or(kind(j2) != sv("RANGE_OP"), kind(j4) != sv("RBRACKET"), toolong)), z3.If(sl, j4 + 1, i + 1), z3.If(sl, Expr.PeekSl(a, b, tag), Expr.Kw(sv("PEEK"), tag)))
    for kw in ("PEEK_ALL", "POP", "DROP", "POP_ALL"):
        case(kw, z3.BoolVal(False), i + 1, Expr.Kw(sv(kw), tag))
    ra, rb = slice_inner(val(i)), slice_inner(val(i + 2))
    ua, ub = unesc(ra), unesc(rb)
    case("CHAR", z3.Or(unesc_err(ra), kind(i + 1) != sv("RANGE_OP"), kind(i + 2) != sv("CHAR"), unesc_err(rb), ub < ua), i + 3, Expr.Rng(ua, ub, tag))
    known = ["STRING", "STRING_CI", "LPAREN", "IDENTIFIER", "PUSH_LITERAL", "PUSH", "PEEK", "PEEK_ALL", "POP", "DROP", "POP_ALL", "CHAR", "POSITIVE_PREDICATE", "NEGATIVE_PREDICATE"]
    out.append(z3.Implies(z3.And(*[k != sv(x) for x in known]), err))
    return out


def pf_unfold(j, e) -> list[z3.BoolRef]:
    k = kind(j)
    err, end, tree = PF[0](j, e), PF[1](j, e), PF[2](j, e)
    out = []

    def go(cond, e2, j2, bad=None):
        bad = z3.BoolVal(False) if bad is None else bad
        out.append(z3.Implies(cond, z3.And(err == z3.Or(bad, z3.And(z3.Not(bad), PF[0](j2, e2))), z3.Implies(z3.Not(err), z3.And(end == PF[1](j2, e2), tree == PF[2](j2, e2))))))

    go(k == sv("OPTION_OP"), Expr.Post1(sv("opt"), e), j + 1)
    go(k == sv("REPEAT_OP"), Expr.Post1(sv("rep"), e), j + 1)
    go(k == sv("REPEAT_ONCE_OP"), Expr.Post1(sv("rep1"), e), j + 1)
    lb = k == sv("LBRACE")
    k1, k2, k3, k4 = kind(j + 1), kind(j + 2), kind(j + 3), kind(j + 4)
    n1, n2, n3 = num(j + 1), num(j + 2), num(j + 3)
    is_num = k1 == sv("NUMBER")
    exact = z3.And(lb, is_num, k2 == sv("RBRACE"))
    def big(k_):
        return z3.Or(num(k_) > U32, z3.Length(val(k_)) > INT_MAX_STR_DIGITS)

    go(exact, Expr.RepN(sv("exact"), e, n1, n1), j + 3, big(j + 1))
    mn = z3.And(lb, is_num, k2 == sv("COMMA"), k3 == sv("RBRACE"))
    go(mn, Expr.RepN(sv("min"), e, n1, z3.IntVal(0)), j + 4, big(j + 1))
    mm = z3.And(lb, is_num, k2 == sv("COMMA"), k3 == sv("NUMBER"), k4 == sv("RBRACE"))
    go(mm, Expr.RepN(sv("minmax"), e, n1, n3), j + 5, z3.Or(big(j + 1), big(j + 3)))
    mx = z3.And(lb, k1 == sv("COMMA"), k2 == sv("NUMBER"), k3 == sv("RBRACE"))
    go(mx, Expr.RepN(sv("max"), e, n2, z3.IntVal(0)), j + 4, big(j + 2))
    out.append(z3.Implies(z3.And(lb, z3.Not(exact), z3.Not(mn), z3.Not(mm), z3.Not(mx)), err))
    out.append(z3.Implies(z3.Not(is_postfix_kind(k)), z3.And(z3.Not(err), end == j, tree == e)))
    return out


def pre_unfold(i, tag) -> list[z3.BoolRef]:
    k = kind(i)
    err, end, tree = PRE[0](i, tag), PRE[1](i, tag), PRE[2](i, tag)
    isp = z3.Or(k == sv("POSITIVE_PREDICATE"), k == sv("NEGATIVE_PREDICATE"))
    se, sj, st = PRE[0](i + 1, NONE_S), PRE[1](i + 1, NONE_S), PRE[2](i + 1, NONE_S)
    ne, nj, nt = NODE[0](i, tag), NODE[1](i, tag), NODE[2](i, tag)
    return [
        z3.Implies(isp, z3.And(err == se, z3.Implies(z3.Not(se), z3.And(end == sj, tree == Expr.Pred(k == sv("POSITIVE_PREDICATE"), st, tag))))),
        z3.Implies(z3.Not(isp), z3.And(err == z3.Or(ne, z3.And(z3.Not(ne), PF[0](nj, nt))), z3.Implies(z3.Not(err), z3.And(end == PF[1](nj, nt), tree == PF[2](nj, nt))))),
    ]


def term_unfold(i) -> list[z3.BoolRef]:
    k = kind(i)
    err, end, tree = TERM[0](i), TERM[1](i), TERM[2](i)
    tg = OptStr.some_s(strip1(val(i)))
    has = k == sv("TAG")
    bad = kind(i + 1) != sv("ASSIGN_OP")
    return [
        z3.Implies(has, z3.And(err == z3.Or(bad, z3.And(z3.Not(bad), PRE[0](i + 2, tg))), z3.Implies(z3.Not(err), z3.And(end == PRE[1](i + 2, tg), tree == PRE[2](i + 2, tg))))),
        z3.Implies(z3.Not(has), z3.And(err == PRE[0](i, NONE_S), z3.Implies(z3.Not(err), z3.And(end == PRE[1](i, NONE_S), tree == PRE[2](i, NONE_S))))),
    ]


def _listl_unfold(L, item, op: str, i) -> list[z3.BoolRef]:  # noqa: N803
    """L(i) = item(i) (op L(next))?   item: i -> (err, end, tree)"""
    ie, ij, it = item(i)
    more = kind(ij) == sv(op)
    err, end, lst = L[0](i), L[1](i), L[2](i)
    re_, rj, rl = L[0](ij + 1), L[1](ij + 1), L[2](ij + 1)
    return [
        err == z3.Or(ie, z3.And(z3.Not(ie), more, re_)),
        z3.Implies(z3.And(z3.Not(err), more), z3.And(end == rj, lst == EList.cons(it, rl))),
        z3.Implies(z3.And(z3.Not(err), z3.Not(more)), z3.And(end == ij, lst == EList.cons(it, EList.nil))),
    ]


def seql_unfold(i):
    return _listl_unfold(SEQL, lambda j: (TERM[0](j), TERM[1](j), TERM[2](j)), "SEQUENCE_OP", i)


def altl_unfold(i):
    return _listl_unfold(ALTL, lambda j: (SEQL[0](j), SEQL[1](j), seq_tree(j)), "CHOICE_OP", i)


def not_seq_cho(e):
    return z3.And(z3.Not(Expr.is_Seq(e)), z3.Not(Expr.is_Cho(e)))


def target(prec: int, i):
    if prec == 1:
        return expr_of(i)
    if prec == 2:
        return ALTL[0](i), ALTL[1](i), alt_tree(i)
    if prec == 3:
        return SEQL[0](i), SEQL[1](i), seq_tree(i)
    return PRE[0](i, NONE_S), PRE[1](i, NONE_S), PRE[2](i, NONE_S)


def exit_facts(prec: int, res, j, j0):
    """what a normal return of parse_expression(prec), called at token j0, guarantees about the cursor and the shape of
    the result (the shape facts are what the callers' flattening tests `isinstance(right, Choice/Sequence)` need)"""
    k = kind(j)
    f = [z3.Not(is_postfix_kind(k)), z3.And(0 <= j, j <= NT)]
    if prec <= 2:
        f += [k != sv("SEQUENCE_OP"), k != sv("CHOICE_OP")]
    if prec == 2:
        f += [Expr.is_Cho(res) == (EList.tl(ALTL[2](j0)) != EList.nil), EList.is_cons(ALTL[2](j0))]
    if prec == 3:
        f += [k != sv("SEQUENCE_OP"), z3.Not(Expr.is_Cho(res)), Expr.is_Seq(res) == (EList.tl(SEQL[2](j0)) != EList.nil), EList.is_cons(SEQL[2](j0))]
    if prec == 4:
        f += [not_seq_cho(res)]
    return f


def opt_tag(v: Any):
    if v is None:
        return NONE_S
    if isinstance(v, Sym) and v.k == "optstr":
        return v.t
    return OptStr.some_s(z(v, "str"))


def opt_strval(v: Any):
    return opt_tag(v)


# the model ------------------------------------------------------------------------------------------------------------
class GParserModel(FunctionSpec):
    raises = ("PestGrammarSyntaxError",)
    dead_paths_ok = True  # Spec unfoldings are definitional facts kept out of the feasibility solver (Run.assume_def)
    template_names = True  # resolve_name is asked first (MODIFIER_MAP is built by a comprehension)
    inline = (
        f"{GPARSER}.parse_infix_expression", f"{GPARSER}.parse_repeat_expression", f"{GPARSER}.parse_peek_expression", f"{GPARSER}._number",
        f"{GPARSER}.parse_modifier",
    )
    cursor_inline = False  # the token cursor (current/next/eat) is used through its contract, proved by the Cursor specs below
    max_paths = 4000

    def mk_parser(self, run: Run) -> Ref:
        i = run.fresh("i", "int")
        run.assume(z3.And(0 <= i.t, i.t <= NT))
        run.assume(t_kind(EOFT) == sv("EOI"))
        run.assume(NT >= 0)
        toks = run.heap.alloc("gtokenlist", {}, fresh=False)
        me = run.heap.alloc(GPARSER, {"tokens": toks, "pos": i, "eof": Sym(EOFT, "gtok"), "builtins": ("$builtins",)}, fresh=False)
        run.pre = {"me": me, "i": i.t}
        return me

    def pos(self, run: Run):
        return z(run.obj(run.pre["me"])["pos"])

    # ---- hooks
    def resolve_name(self, run: Run, name: str):
        if name == "MODIFIER_MAP":
            from pest.grammar.rule import MODIFIER_MAP

            return ("$dict", [(k, v) for k, v in MODIFIER_MAP.items()])
        return NotImplemented

    def dict_display(self, run: Run, items, n):
        return ("$dict", items)

    def getattr(self, run: Run, base: Any, attr: str, n):
        if isinstance(base, ClassV) and base.qual.endswith("TokenKind"):
            return Sym(sv(attr), "int")
        if isinstance(base, Sym) and base.k == "gtok":
            if attr == "kind":
                return Sym(t_kind(base.t), "int")
            if attr == "value":
                return Sym(t_value(base.t), "str")
        if isinstance(base, Sym) and base.k == "gexpr" and attr == "expressions":
            return Sym(z3.If(Expr.is_Cho(base.t), Expr.ch_items(base.t), Expr.sq_items(base.t)), "gelist")
        if isinstance(base, tuple) and base and base[0] in ("$dict", "$set", "$builtins"):
            return BoundMethod(base, attr)
        return NotImplemented

    def isinstance(self, run: Run, v: Any, cls: Any, n):
        if isinstance(v, Sym) and v.k == "gexpr" and isinstance(cls, ClassV):
            if cls.qual.endswith(".Choice"):
                return wrap(Expr.is_Cho(v.t), "bool")
            if cls.qual.endswith(".Sequence"):
                return wrap(Expr.is_Seq(v.t), "bool")
        return NotImplemented

    def truth(self, run: Run, v: Any):
        if isinstance(v, Sym) and v.k in ("gtok", "gexpr", "gelist"):
            return True
        if isinstance(v, tuple) and v and isinstance(v[0], str) and v[0].startswith("$"):
            return True
        return NotImplemented

    def contains(self, run: Run, container: Any, item: Any, n):
        if isinstance(container, tuple) and container and container[0] == "$builtins":
            return wrap(is_builtin(z(item, "str")), "bool")
        if isinstance(container, tuple) and container and container[0] == "$set":
            k = z(item, "int")
            return wrap(z3.Or(*[k == z(x, "int") for x in container[1]]), "bool")
        return NotImplemented

    def getitem(self, run: Run, base: Any, idx: Any, n):
        if isinstance(base, Ref) and run.cls_of(base) == "gtokenlist":
            k = run.norm_index(idx, NT, n, "token")  # IndexError outside [-NT, NT)
            return Sym(tok_at(k), "gtok")
        if isinstance(base, tuple) and base and base[0] == "$builtins":
            return Sym(Expr.Builtin(z(idx, "str")), "gexpr")
        return NotImplemented

    def call_builtin(self, run: Run, name: str, args, kwargs, n):
        if name == "frozenset":
            v = args[0]
            if isinstance(v, Ref) and run.is_list(v):
                t, _ = run.as_seq(v, n)
                items = []
                # a list display of constants: a concatenation of units
                ln = z3.simplify(z3.Length(t))
                if not z3.is_int_value(ln):
                    return NotImplemented
                for k in range(ln.as_long()):
                    items.append(Sym(z3.simplify(t[k]), "int"))
                return ("$set", items)
            return NotImplemented
        if name == "int" and len(args) == 1 and run._kind(args[0]) == "str":
            run.assume(True, "int() is applied to the text of a NUMBER token, which is what RE_NUMBER matched (proved of the scanner: adj.value_from_regex[NUMBER]) - digits only (lex.number.language); it raises ValueError exactly when the text has more digits than CPython converts (sys.int_info.default_max_str_digits = 4300)")
            sarg = z(args[0], "str")
            if run.branch(z3.Length(sarg) > INT_MAX_STR_DIGITS, "int.too_many_digits"):
                raise PyExc("ValueError", "Exceeds the limit (4300 digits) for integer string conversion")
            return wrap(z3.StrToInt(sarg), "int")
        return NotImplemented

    def call_method(self, run: Run, recv: Any, name: str, args, kwargs, n):  # noqa: C901
        if isinstance(recv, tuple) and recv and recv[0] == "$dict" and name == "get":
            k = args[0]
            default = args[1] if len(args) > 1 else None
            kk = run._kind(k)
            out = z(default, "int") if default is not None else None
            for key, v in reversed(recv[1]):
                cond = z(k, kk) == z(key, kk)
                out = z3.If(cond, z(v, "int"), out)
            return wrap(out, "int")
        if isinstance(recv, Ref) and recv == run.pre["me"] and name in ("current", "next", "eat") and not self.cursor_inline:
            return self.cursor_contract(run, name, args, kwargs)
        if isinstance(recv, Ref) and recv == run.pre["me"]:
            if name == "parse_expression":
                return self.rec_parse_expression(run, args, kwargs)
            if name == "parse_postfix_expression" and self.target != f"{GPARSER}.parse_postfix_expression":
                return self.call_postfix(run, args[0])
            if name == "parse_postfix_expression":
                return NotImplemented
        return NotImplemented

    # ---- callee contracts
    def cursor_contract(self, run: Run, name: str, args, kwargs) -> Any:
        """current(): tokens[pos] or the EOI token past the end; next(): the same and the cursor moves inside the list;
        eat(kind): next(), PestGrammarSyntaxError when the kind differs"""
        me = run.pre["me"]
        j = z(run.obj(me)["pos"])
        run.oblige(f"callee.{name}.requires.cursor", j >= 0)
        tok = z3.If(j < NT, tok_at(j), EOFT)
        if name == "current":
            return Sym(tok, "gtok")
        run.setf(me, "pos", wrap(z3.If(j < NT, j + 1, j), "int"))
        if name == "eat":
            want = z(args[0], "int")
            if run.branch(t_kind(tok) != want, "eat.mismatch"):
                raise PyExc("PestGrammarSyntaxError", "eat: unexpected token")
        return Sym(tok, "gtok")

    def rec_parse_expression(self, run: Run, args, kwargs) -> Any:
        me = run.pre["me"]
        j = z(run.obj(me)["pos"])
        pv = args[0] if args else kwargs.get("precedence", 1)
        if isinstance(pv, int):
            prec = pv
        else:
            pt = z(pv, "int")
            prec = 1
            for cand in (2, 3, 4):
                if run.branch(pt == cand, f"rec.prec{cand}"):
                    prec = cand
                    break
            else:
                run.assume(pt == 1)
        run.oblige("rec.requires.cursor", z3.And(0 <= j, j <= NT))
        if prec >= 2:
            run.assume(kind(j) != sv("CHOICE_OP"), "scanner output (proved of the scanner: adj.* clauses): no CHOICE_OP directly after an infix or prefix operator")
        if prec == 4:
            run.assume(kind(j) != sv("TAG"), "scanner output (proved of the scanner: adj.* clauses): no TAG directly after a prefix operator")
        err, end, tree = target(prec, j)
        if run.branch(err, "rec.err"):
            raise PyExc("PestGrammarSyntaxError", "recursive parse_expression")
        run.setf(me, "pos", wrap(end, "int"))
        for f in exit_facts(prec, tree, end, j):
            run.assume(f)
        run.assume(end > j)
        return Sym(tree, "gexpr")

    def call_postfix(self, run: Run, e: Any) -> Any:
        me = run.pre["me"]
        j = z(run.obj(me)["pos"])
        et = z(e)
        run.oblige("postfix.requires.not_seq_cho", not_seq_cho(et))
        run.oblige("postfix.requires.cursor", z3.And(0 <= j, j <= NT))
        for f in pf_unfold(j, et):
            run.assume_def(f)
        if run.branch(PF[0](j, et), "postfix.err"):
            raise PyExc("PestGrammarSyntaxError", "parse_postfix_expression")
        end, tree = PF[1](j, et), PF[2](j, et)
        run.setf(me, "pos", wrap(end, "int"))
        run.assume(z3.And(not_seq_cho(tree), z3.Not(is_postfix_kind(kind(end))), end >= j, end <= NT))
        return Sym(tree, "gexpr")

    @property
    def summaries(self):
        def unescape(run: Run, recv, args, kw):
            sarg = z(args[0], "str")
            if run.branch(unesc_err(sarg), "unescape.raises"):
                raise PyExc("PestGrammarSyntaxError", "unescape_string")
            return Sym(unesc(sarg), "str")

        return {"pest.grammar.unescape.unescape_string": unescape}

    @property
    def constructors(self):  # noqa: C901
        def tagkw(kwargs):
            return opt_tag(kwargs.get("tag"))

        def e(v):
            return z(v)

        def mk_peek_slice(run, a, k):
            # PeekSlice.__init__ converts its bounds with int(): ValueError beyond CPython's digit limit
            for i, v in enumerate(a[:2]):
                if v is None:
                    continue
                t = opt_strval(v)
                if run.branch(z3.And(OptStr.is_some_s(t), z3.Length(OptStr.sval(t)) > INT_MAX_STR_DIGITS), f"peekslice.bound{i}.too_many_digits"):
                    raise PyExc("ValueError", "Exceeds the limit (4300 digits) for integer string conversion")
            return Sym(Expr.PeekSl(opt_strval(a[0]), opt_strval(a[1]), tagkw(k)), "gexpr")

        def nary(ctor):
            def mk(run, args, kwargs):
                lst = EList.nil
                for a in reversed(args):
                    if isinstance(a, tuple) and a and a[0] == "$star":
                        if lst is not EList.nil and not lst.eq(EList.nil):
                            raise PyExc("TypeError", "star argument not last")
                        lst = z(a[1])
                    else:
                        lst = EList.cons(e(a), lst)
                return Sym(ctor(lst), "gexpr")

            return mk

        c = {
            f"{X}.terminals.String": lambda run, a, k: Sym(Expr.Str(z(a[0], "str")), "gexpr"),
            f"{X}.terminals.CIString": lambda run, a, k: Sym(Expr.IStr(z(a[0], "str")), "gexpr"),
            f"{X}.group.Group": lambda run, a, k: Sym(Expr.Grp(e(a[0]), tagkw(k)), "gexpr"),
            f"{X}.terminals.Identifier": lambda run, a, k: Sym(Expr.Ident(z(a[0], "str"), tagkw(k)), "gexpr"),
            f"{X}.terminals.PushLiteral": lambda run, a, k: Sym(Expr.PushLit(z(a[0], "str"), tagkw(k)), "gexpr"),
            f"{X}.terminals.Push": lambda run, a, k: Sym(Expr.Push(e(a[0]), tagkw(k)), "gexpr"),
            f"{X}.terminals.PeekSlice": mk_peek_slice,
            f"{X}.terminals.Range": lambda run, a, k: Sym(Expr.Rng(z(a[0], "str"), z(a[1], "str"), tagkw(k)), "gexpr"),
            f"{X}.prefix.PositivePredicate": lambda run, a, k: Sym(Expr.Pred(z3.BoolVal(True), e(a[0]), tagkw(k)), "gexpr"),
            f"{X}.prefix.NegativePredicate": lambda run, a, k: Sym(Expr.Pred(z3.BoolVal(False), e(a[0]), tagkw(k)), "gexpr"),
            f"{X}.postfix.Optional": lambda run, a, k: Sym(Expr.Post1(sv("opt"), e(a[0])), "gexpr"),
            f"{X}.postfix.Repeat": lambda run, a, k: Sym(Expr.Post1(sv("rep"), e(a[0])), "gexpr"),
            f"{X}.postfix.RepeatOnce": lambda run, a, k: Sym(Expr.Post1(sv("rep1"), e(a[0])), "gexpr"),
            f"{X}.postfix.RepeatExact": lambda run, a, k: Sym(Expr.RepN(sv("exact"), e(a[0]), z(a[1], "int"), z(a[1], "int")), "gexpr"),
            f"{X}.postfix.RepeatMin": lambda run, a, k: Sym(Expr.RepN(sv("min"), e(a[0]), z(a[1], "int"), z3.IntVal(0)), "gexpr"),
            f"{X}.postfix.RepeatMax": lambda run, a, k: Sym(Expr.RepN(sv("max"), e(a[0]), z(a[1], "int"), z3.IntVal(0)), "gexpr"),
            f"{X}.postfix.RepeatMinMax": lambda run, a, k: Sym(Expr.RepN(sv("minmax"), e(a[0]), z(a[1], "int"), z(a[2], "int")), "gexpr"),
            f"{X}.choice.Choice": nary(Expr.Cho),
            f"{X}.sequence.Sequence": nary(Expr.Seq),
        }
        for cls, kw in (("Peek", "PEEK"), ("PeekAll", "PEEK_ALL"), ("Pop", "POP"), ("PopAll", "POP_ALL"), ("Drop", "DROP")):
            c[f"{X}.terminals.{cls}"] = (lambda kw: lambda run, a, k: Sym(Expr.Kw(sv(kw), tagkw(k)), "gexpr"))(kw)
        return c

    def post_exc(self, run: Run, pre: Any, exc: PyExc) -> None:
        if exc.name == "PestGrammarSyntaxError":
            return self.post_err(run, pre)
        return super().post_exc(run, pre, exc)

    def post_err(self, run: Run, pre: Any) -> None:
        raise NotImplementedError


class ParseExpression(GParserModel):
    def __init__(self, prec: int):
        self.prec = prec
        self.target = f"{GPARSER}.parse_expression"
        self.label = f"{GPARSER}.parse_expression[precedence={prec}]"

    def first_term(self, i):
        """index of the first term: parse_expression skips one leading CHOICE_OP"""
        return z3.If(kind(i) == sv("CHOICE_OP"), i + 1, i) if self.prec == 1 else i

    def setup(self, run: Run):
        me = self.mk_parser(run)
        i = run.pre["i"]
        if self.prec >= 2:
            run.assume(kind(i) != sv("CHOICE_OP"), "scanner output (proved of the scanner: adj.* clauses): no CHOICE_OP directly after an infix or prefix operator")
        if self.prec == 4:
            run.assume(kind(i) != sv("TAG"), "scanner output (proved of the scanner: adj.* clauses): no TAG directly after a prefix operator")
        it = self.first_term(i)
        run.pre["it"] = it
        tg = OptStr.some_s(strip1(val(it)))
        for f in [*term_unfold(it), *pre_unfold(it, NONE_S), *pre_unfold(it + 2, tg), *node_unfold(it, NONE_S), *node_unfold(it + 2, tg), *seql_unfold(it), *altl_unfold(it)]:
            run.assume_def(f)
        return me, [self.prec], {}

    @property
    def loops(self):
        spec = self

        def facts(run, g):
            j = spec.pos(run)
            # the lists that start after the infix operator under the cursor
            return [*seql_unfold(j + 1), *altl_unfold(j + 1)]

        def inv(run, g):
            it = run.pre["it"]
            j = spec.pos(run)
            left = z(run.frames[0].env["left"])
            k = kind(j)
            a = z3.And(z3.Not(TERM[0](it)), left == TERM[2](it), j == TERM[1](it), not_seq_cho(left))
            b = z3.And(z3.Not(SEQL[0](it)), left == seq_tree(it), j == SEQL[1](it), k != sv("SEQUENCE_OP"), z3.Not(Expr.is_Cho(left)), EList.tl(SEQL[2](it)) != EList.nil)
            c = z3.And(z3.Not(ALTL[0](it)), left == alt_tree(it), j == ALTL[1](it), k != sv("SEQUENCE_OP"), k != sv("CHOICE_OP"), EList.tl(ALTL[2](it)) != EList.nil)
            phases = [a, b] if spec.prec >= 3 else [a, b, c]
            if spec.prec == 4:
                phases = [a]
            return [("phase", z3.Or(*phases)), ("cursor", z3.And(it < j, j <= NT, z3.Not(is_postfix_kind(k))))]

        def modifies(run):
            return [(run.pre["me"], "pos")]

        return {0: Loop(inv, facts=facts, modifies=modifies, merge=True, keep=("precedence",))}

    def post(self, run: Run, pre: Any, out: Any) -> None:
        err, end, tree = target(self.prec, pre["i"])
        w = {"i": pre["i"], "ntokens": NT, "pos": self.pos(run)}
        run.oblige("accepts_only_valid", z3.Not(err), w)
        run.oblige("tree", z(out) == tree, w)
        run.oblige("cursor", self.pos(run) == end, w)
        for n, f in enumerate(exit_facts(self.prec, z(out), self.pos(run), pre["i"])):
            run.oblige(f"exit.{n}", f, w)
        run.oblige("progress", self.pos(run) > pre["i"], w)

    def post_err(self, run: Run, pre: Any) -> None:
        err, _, _ = target(self.prec, pre["i"])
        run.oblige("rejects_only_invalid", err, {"i": pre["i"], "ntokens": NT})


class ParsePostfix(GParserModel):
    target = f"{GPARSER}.parse_postfix_expression"

    def setup(self, run: Run):
        me = self.mk_parser(run)
        e0 = run.fresh("expr", "gexpr")
        run.assume(not_seq_cho(e0.t))
        run.pre["e0"] = e0.t
        return me, [e0], {}

    @property
    def loops(self):
        spec = self

        def facts(run, g):
            return pf_unfold(spec.pos(run), z(run.frames[0].env["expr"]))

        def inv(run, g):
            i, e0 = run.pre["i"], run.pre["e0"]
            j, e = spec.pos(run), z(run.frames[0].env["expr"])
            return [
                ("rest", z3.And(PF[0](i, e0) == PF[0](j, e), z3.Implies(z3.Not(PF[0](i, e0)), z3.And(PF[1](i, e0) == PF[1](j, e), PF[2](i, e0) == PF[2](j, e))))),
                ("shape", not_seq_cho(e)),
                ("cursor", z3.And(i <= j, j <= NT)),
            ]

        def modifies(run):
            return [(run.pre["me"], "pos")]

        return {0: Loop(inv, facts=facts, modifies=modifies)}

    def post(self, run: Run, pre: Any, out: Any) -> None:
        i, e0 = pre["i"], pre["e0"]
        w = {"i": i, "ntokens": NT}
        run.oblige("accepts_only_valid", z3.Not(PF[0](i, e0)), w)
        run.oblige("tree", z(out) == PF[2](i, e0), w)
        run.oblige("cursor", self.pos(run) == PF[1](i, e0), w)
        run.oblige("exit.shape", not_seq_cho(z(out)), w)
        run.oblige("exit.no_postfix_left", z3.Not(is_postfix_kind(kind(self.pos(run)))), w)
        run.oblige("exit.cursor", z3.And(self.pos(run) >= i, self.pos(run) <= NT), w)

    def post_err(self, run: Run, pre: Any) -> None:
        run.oblige("rejects_only_invalid", PF[0](pre["i"], pre["e0"]), {"i": pre["i"], "ntokens": NT})


class Cursor(GParserModel):
    """Parser.current / next / eat: the functional contract the big proofs use at call sites"""

    cursor_inline = True
    dead_paths_ok = False
    inline = (f"{GPARSER}.current", f"{GPARSER}.next")

    def __init__(self, method: str):
        self.method = method
        self.target = f"{GPARSER}.{method}"

    def setup(self, run: Run):
        me = self.mk_parser(run)
        run.pre["i"] = run.fresh_t("cursor", "int")
        run.assume(run.pre["i"] >= 0)
        run.setf(me, "pos", wrap(run.pre["i"], "int"))
        args: list[Any] = []
        if self.method == "eat":
            run.pre["want"] = run.fresh_t("wanted_kind", "int")
            args = [Sym(run.pre["want"], "int")]
        return me, args, {}

    def post(self, run: Run, pre: Any, out: Any) -> None:
        j = pre["i"]
        tok = z3.If(j < NT, tok_at(j), EOFT)
        run.oblige("result", z(out) == tok)
        run.oblige("cursor", self.pos(run) == (j if self.method == "current" else z3.If(j < NT, j + 1, j)))
        if self.method == "eat":
            run.oblige("kind", t_kind(tok) == pre["want"])

    def post_err(self, run: Run, pre: Any) -> None:
        j = pre["i"]
        tok = z3.If(j < NT, tok_at(j), EOFT)
        run.oblige("raises_only_on_mismatch", z3.BoolVal(self.method == "eat") if self.method != "eat" else t_kind(tok) != pre["want"])


# ---------------------------------------------------------------------------------------------------- rules and docs
_r = z3.Datatype("GRuleRec")
_r.declare("RuleRec", ("rr_name", S), ("rr_mod", I), ("rr_docs", z3.SeqSort(S)), ("rr_expr", Expr))
RuleRec = _r.create()
register_kind("grule", RuleRec)
SeqRule = z3.SeqSort(RuleRec)
SeqStr = z3.SeqSort(S)
DOCS = (z3.Function("g_docs_err", I, I, B), z3.Function("g_docs_end", I, I, I), z3.Function("g_docs_list", I, I, SeqStr))  # (opener kind, i)
RULESL = (z3.Function("g_rules_err", I, B), z3.Function("g_rules_list", I, SeqRule))
SPEC_MODS = {"_": 2, "@": 4, "$": 8, "!": 16}  # SILENT, ATOMIC, COMPOUND, NON-ATOMIC (the property's modifiers)


def spec_mod(v):
    out = z3.IntVal(0)
    for k, m in SPEC_MODS.items():
        out = z3.If(v == z3.StringVal(k), z3.IntVal(m), out)
    return out


def docs_unfold(opener, i) -> list[z3.BoolRef]:
    """DOCS(i) = (opener COMMENT_TEXT)*  -> the doc lines"""
    err, end, lst = DOCS[0](opener, i), DOCS[1](opener, i), DOCS[2](opener, i)
    more = kind(i) == opener
    bad = kind(i + 1) != sv("COMMENT_TEXT")
    return [
        z3.Implies(z3.Not(more), z3.And(z3.Not(err), end == i, lst == z3.Empty(SeqStr))),
        z3.Implies(more, err == z3.Or(bad, z3.And(z3.Not(bad), DOCS[0](opener, i + 2)))),
        z3.Implies(z3.And(more, z3.Not(err)), z3.And(end == DOCS[1](opener, i + 2), lst == z3.Concat(z3.Unit(val(i + 1)), DOCS[2](opener, i + 2)))),
    ]


def rules_unfold(i) -> list[z3.BoolRef]:
    rd = sv("RULE_DOC")
    err, lst = RULESL[0](i), RULESL[1](i)
    de, dj, dl = DOCS[0](rd, i), DOCS[1](rd, i), DOCS[2](rd, i)
    has_mod = kind(dj + 2) == sv("MODIFIER")
    j = z3.If(has_mod, dj + 3, dj + 2)
    ee, ej, et = expr_of(j + 1)
    bad = z3.Or(kind(dj) != sv("IDENTIFIER"), kind(dj + 1) != sv("ASSIGN_OP"), kind(j) != sv("LBRACE"), ee, kind(ej) != sv("RBRACE"))
    rec = RuleRec.RuleRec(val(dj), z3.If(has_mod, spec_mod(val(dj + 2)), z3.IntVal(0)), dl, et)
    stop = z3.Or(kind(i) == sv("EOI"), z3.And(z3.Not(de), kind(dj) == sv("EOI")))  # the end, possibly after trailing doc lines
    return [
        z3.Implies(stop, z3.And(z3.Not(err), lst == z3.Empty(SeqRule))),
        z3.Implies(z3.Not(stop), err == z3.Or(de, z3.And(z3.Not(de), z3.Or(bad, z3.And(z3.Not(bad), RULESL[0](ej + 1)))))),
        z3.Implies(z3.And(z3.Not(stop), z3.Not(err)), lst == z3.Concat(z3.Unit(rec), RULESL[1](ej + 1))),
    ]


class ParseRules(GParserModel):
    """parse_rules: the rule table is filled with <name, modifier, doc lines, EXPR> of every rule, in order (a later
    rule of the same name replaces the earlier one: dict semantics, trusted)."""

    target = f"{GPARSER}.parse_rules"

    def setup(self, run: Run):
        me = self.mk_parser(run)
        return me, [], {}

    def dict_display(self, run: Run, items, n):
        if not items:
            return run.heap.alloc("gruledict", {"recs": Sym(z3.Empty(SeqRule), "seq:grule")})
        return ("$dict", items)

    def setitem(self, run: Run, base: Any, idx: Any, v: Any, n):
        if isinstance(base, Ref) and run.cls_of(base) == "gruledict":
            rec = z(v)
            run.oblige("table.key_is_rule_name", z(idx, "str") == RuleRec.rr_name(rec))
            run.setf(base, "recs", Sym(z3.Concat(z(run.obj(base)["recs"]), z3.Unit(rec)), "seq:grule"))
            return None
        return NotImplemented

    @property
    def constructors(self):
        c = dict(GParserModel.constructors.fget(self))

        def mk_rule(run: Run, a, k):
            docs = a[3] if len(a) > 3 else k.get("doc")
            t, _ = run.as_seq(docs, None, "str")
            return Sym(RuleRec.RuleRec(z(a[0], "str"), z(a[2], "int"), t, z(a[1])), "grule")

        c["pest.grammar.rule.GrammarRule"] = mk_rule
        return c

    def truth(self, run: Run, v: Any):
        if isinstance(v, Sym) and v.k == "grule":
            return True
        return GParserModel.truth(self, run, v)

    def recs(self, run: Run):
        d = run.frames[0].env["rules"]
        return z(run.obj(d)["recs"])

    @property
    def loops(self):
        spec = self
        rd = sv("RULE_DOC")

        def facts0(run, g):
            j = spec.pos(run)
            dj = DOCS[1](rd, j)
            mv = val(dj + 2)
            # a MODIFIER token carries one of the four modifier symbols: the scanner emits it only from RE_MODIFIER, whose
            # language is the meta-grammar's `modifier` (proved: lex.modifier.language)
            tokfact = z3.Implies(kind(dj + 2) == sv("MODIFIER"), z3.Or(*[mv == z3.StringVal(k) for k in SPEC_MODS]))
            return [*rules_unfold(j), *docs_unfold(rd, j), tokfact]

        def inv0(run, g):
            i, j = run.pre["i"], spec.pos(run)
            return [
                ("rest", z3.And(RULESL[0](i) == RULESL[0](j), z3.Implies(z3.Not(RULESL[0](i)), RULESL[1](i) == z3.Concat(spec.recs(run), RULESL[1](j))))),
                ("cursor", z3.And(i <= j, j >= 0)),
            ]

        def modifies0(run):
            return [(run.pre["me"], "pos"), (run.frames[0].env["rules"], "recs")]

        def entry1(run):
            run.ghost["docs_start"] = spec.pos(run)
            return {}

        def facts1(run, g):
            return docs_unfold(rd, spec.pos(run))

        def inv1(run, g):
            i, j = run.ghost["docs_start"], spec.pos(run)
            docs, _ = run.as_seq(run.frames[0].env["rule_doc"], None, "str")
            return [
                ("docs", z3.And(DOCS[0](rd, i) == DOCS[0](rd, j), z3.Implies(z3.Not(DOCS[0](rd, i)), z3.And(DOCS[1](rd, i) == DOCS[1](rd, j), DOCS[2](rd, i) == z3.Concat(docs, DOCS[2](rd, j)))))),
                ("cursor", z3.And(i <= j, j >= 0)),
            ]

        def modifies1(run):
            return [(run.pre["me"], "pos"), (run.frames[0].env["rule_doc"], "seq")]

        return {0: Loop(inv0, facts=facts0, modifies=modifies0), 1: Loop(inv1, facts=facts1, modifies=modifies1, entry=entry1)}

    def post(self, run: Run, pre: Any, out: Any) -> None:
        i = pre["i"]
        w = {"i": i, "ntokens": NT}
        run.oblige("accepts_only_valid", z3.Not(RULESL[0](i)), w)
        run.oblige("rules", z3.BoolVal(isinstance(out, Ref) and run.cls_of(out) == "gruledict") if not (isinstance(out, Ref) and run.cls_of(out) == "gruledict") else z(run.obj(out)["recs"]) == RULESL[1](i), w)

    def post_err(self, run: Run, pre: Any) -> None:
        run.oblige("rejects_only_invalid", RULESL[0](pre["i"]), {"i": pre["i"], "ntokens": NT})


class ParseTop(GParserModel):
    """parse(): grammar doc lines (//!) first, then the rules"""

    target = f"{GPARSER}.parse"

    def setup(self, run: Run):
        me = self.mk_parser(run)
        for f in docs_unfold(sv("GRAMMAR_DOC"), run.pre["i"]):
            run.assume_def(f)
        return me, [], {}

    def call_method(self, run: Run, recv: Any, name: str, args, kwargs, n):
        if isinstance(recv, Ref) and recv == run.pre["me"] and name == "parse_rules":
            j = self.pos(run)
            run.oblige("parse_rules.requires.cursor", j >= 0)
            if run.branch(RULESL[0](j), "parse_rules.err"):
                raise PyExc("PestGrammarSyntaxError", "parse_rules")
            run.setf(recv, "pos", run.fresh("pos_after_rules", "int"))
            return Sym(RULESL[1](j), "seq:grule")
        return GParserModel.call_method(self, run, recv, name, args, kwargs, n)

    def truth(self, run: Run, v: Any):
        if isinstance(v, Sym) and v.k == "seq:grule":
            return True
        return GParserModel.truth(self, run, v)

    @property
    def loops(self):
        spec = self
        gd = sv("GRAMMAR_DOC")

        def facts(run, g):
            return docs_unfold(gd, spec.pos(run))

        def inv(run, g):
            i, j = run.pre["i"], spec.pos(run)
            docs, _ = run.as_seq(run.frames[0].env["grammar_doc"], None, "str")
            return [
                ("docs", z3.And(DOCS[0](gd, i) == DOCS[0](gd, j), z3.Implies(z3.Not(DOCS[0](gd, i)), z3.And(DOCS[1](gd, i) == DOCS[1](gd, j), DOCS[2](gd, i) == z3.Concat(docs, DOCS[2](gd, j)))))),
                ("cursor", z3.And(i <= j, j >= 0)),
            ]

        def modifies(run):
            return [(run.pre["me"], "pos"), (run.frames[0].env["grammar_doc"], "seq")]

        return {0: Loop(inv, facts=facts, modifies=modifies)}

    def post(self, run: Run, pre: Any, out: Any) -> None:
        i = pre["i"]
        gd = sv("GRAMMAR_DOC")
        w = {"i": i, "ntokens": NT}
        ok = isinstance(out, tuple) and len(out) == 2
        run.oblige("returns_rules_and_docs", ok)
        if not ok:
            return
        run.oblige("accepts_only_valid", z3.And(z3.Not(DOCS[0](gd, i)), z3.Not(RULESL[0](DOCS[1](gd, i)))), w)
        run.oblige("rules", z(out[0]) == RULESL[1](DOCS[1](gd, i)), w)
        docs, _ = run.as_seq(out[1], None, "str")
        run.oblige("grammar_docs", docs == DOCS[2](gd, i), w)

    def post_err(self, run: Run, pre: Any) -> None:
        i = pre["i"]
        gd = sv("GRAMMAR_DOC")
        run.oblige("rejects_only_invalid", z3.Or(DOCS[0](gd, i), RULESL[0](DOCS[1](gd, i))), {"i": i, "ntokens": NT})


class SpecConsistent(FunctionSpec):
    """vacuity guard for the Spec itself: the unfoldings used as definitional facts are jointly satisfiable for every kind
    of token under the cursor (a contradictory case would silently turn the paths of that kind into dead paths)"""

    target = f"{GPARSER}.parse_expression"
    label = "C10.token_spec[consistent]"

    def source(self, engine):
        return engine.program.funcs[self.target]

    def direct(self, run: Run) -> None:
        i = z3.Int("spec_i")
        tg = OptStr.some_s(strip1(val(i)))
        facts = [*term_unfold(i), *pre_unfold(i, NONE_S), *pre_unfold(i + 2, tg), *node_unfold(i, NONE_S), *node_unfold(i + 2, tg), *seql_unfold(i), *altl_unfold(i),
                 *pf_unfold(i + 1, Expr.Str(z3.StringVal("x"))), *rules_unfold(i), *docs_unfold(sv("RULE_DOC"), i), *docs_unfold(sv("GRAMMAR_DOC"), i), t_kind(EOFT) == sv("EOI")]
        for k in list(KINDS):
            base = len(run.pc)
            run.pc.extend([*facts, kind(i) == sv(k), i >= 0, i < NT])
            run.oblige(f"cover.spec[{k}]", True)
            del run.pc[base:]
        run.oblige("spec.kinds_enumerated", len(KINDS) >= 40)


def specs(tier):
    return [SpecConsistent(), Cursor("current"), Cursor("next"), Cursor("eat"), ParsePostfix(), *[ParseExpression(p) for p in (1, 2, 3, 4)], ParseRules(), ParseTop()]
