"""C11 - loading a grammar is total: a Parser or a renderable PestGrammarError.

Contracts (all strings, all scanner positions):
  * every method of the grammar Scanner is executed symbolically - regexes are oracles (a match starts at the given
    position and ends inside the text), the other Scanner methods are used through their contracts - and proved to
    (a) raise nothing but PestGrammarSyntaxError, (b) keep the object invariant 0 <= start <= pos <= len(grammar),
    (c) create only tokens whose start lies inside [0, len(grammar)] (so the message can point at it);
  * every method of the grammar Parser (token cursor + recursive descent) likewise raises only
    PestGrammarSyntaxError, given the token invariant the Scanner establishes (NUMBER / INTEGER tokens are what
    RE_NUMBER / RE_INTEGER matched; CHAR tokens are what RE_CHAR matched);
  * PestGrammarError._error_context / detailed_message never raise for a token start in [0, len(grammar)] and report
    a line that exists; unescape_* by C12.
What is outside the dialect (Expression constructors, Optimizer.optimize with its `match` passes, regex compilation of
user-supplied ranges): bounded stand-in - a corpus of token soups, truncations and single-character mutations of valid
grammars through Parser.from_grammar.  Termination and recursion depth are not decided.
"""
from __future__ import annotations

import os
import random
from pathlib import Path
from typing import Any

import z3

from pyvc.driver import FunctionSpec
from pyvc.engine import PyExc, Run
from pyvc.values import BoundMethod, ClassV, ModuleV, Opaque, Ref, SeqV, Sym, wrap, z

from . import c12, c14
from .ops import Loop, MatchV, RegexV

from .common import standin_findings  # noqa: E402

PROPERTY = "C11"
SCANNER = "pest.grammar.scanner.Scanner"
GPARSER = "pest.grammar.parser.Parser"
GERR = "pest.grammar.exceptions.PestGrammarError"

G = z3.Const("grammar_text", z3.StringSort())
NG = z3.Length(G)

# ---- ghost: kind of the last token emitted (what the grammar Parser's proof, C10 layer 2, assumes of scanner output)
_KCODES: dict[str, int] = {}


def kcode(name: str) -> int:
    return _KCODES.setdefault(name, len(_KCODES) + 1)


INFIX_PREFIX = ("CHOICE_OP", "SEQUENCE_OP", "POSITIVE_PREDICATE", "NEGATIVE_PREDICATE")
PREFIX = ("POSITIVE_PREDICATE", "NEGATIVE_PREDICATE")
TERM_END = ("STRING", "STRING_CI", "IDENTIFIER", "RPAREN", "PEEK", "PEEK_ALL", "POP", "POP_ALL", "DROP", "RBRACKET", "CHAR", "OPTION_OP", "REPEAT_OP", "REPEAT_ONCE_OP", "RBRACE")
TERMINAL_END = ("STRING", "STRING_CI", "IDENTIFIER", "RPAREN", "PEEK", "PEEK_ALL", "POP", "POP_ALL", "DROP", "RBRACKET", "CHAR")
TERM_START_CTX = ("LBRACE", "LPAREN", "CHOICE_OP", "SEQUENCE_OP")
TERMINAL_START_CTX = (*TERM_START_CTX, "ASSIGN_OP", "POSITIVE_PREDICATE", "NEGATIVE_PREDICATE")


TOKEN_REGEX = {"MODIFIER": "RE_MODIFIER", "NUMBER": "RE_NUMBER", "INTEGER": "RE_INTEGER", "CHAR": "RE_CHAR", "TAG": "RE_TAG", "IDENTIFIER": "RE_IDENTIFIER"}


def among(last, names) -> z3.BoolRef:
    return z3.Or(*[last == kcode(n) for n in names])


def okpair(last, kind: str) -> z3.BoolRef:
    """the adjacency facts: no CHOICE_OP directly after an infix or prefix operator, no TAG directly after a prefix operator"""
    if kind == "CHOICE_OP":
        return z3.Not(among(last, INFIX_PREFIX))
    if kind == "TAG":
        return z3.Not(among(last, PREFIX))
    return z3.BoolVal(True)


# method -> (precondition on the last kind, postcondition(last0, last1, result))
def _adj_pre(method: str, last):
    if method == "accept_expression":
        return among(last, ("LBRACE", "LPAREN"))
    if method == "accept_term":
        return among(last, TERM_START_CTX)
    if method == "accept_terminal":
        return among(last, TERMINAL_START_CTX)
    if method == "accept_postfix_op":
        return among(last, TERM_END)
    if method in ("accept_string", "accept_ci_string"):
        return among(last, (*TERMINAL_START_CTX, "LPAREN"))
    return z3.BoolVal(True)


def _adj_post(method: str, last0, last1, result):
    if method in ("accept_expression", "accept_term", "accept_postfix_op"):
        return among(last1, TERM_END)
    if method == "accept_terminal":
        return z3.And(z3.Implies(result, among(last1, TERMINAL_END)), z3.Implies(z3.Not(result), last1 == last0))
    if method == "accept_string":
        return z3.And(z3.Implies(result, last1 == kcode("STRING")), z3.Implies(z3.Not(result), last1 == last0))
    if method == "accept_ci_string":
        return z3.And(z3.Implies(result, last1 == kcode("STRING_CI")), z3.Implies(z3.Not(result), last1 == last0))
    if method in ("next", "peek", "scan", "scan_until", "skip", "skip_trivia"):
        return last1 == last0
    return z3.BoolVal(True)  # state functions, error, emit: nothing promised here (emit sets it to the emitted kind)


# ---- ghost: where the last skip_trivia() returned ($tv_at).  Claim (C10, clauses tv.*): every token the scanner emits -
# except the text of a doc comment - begins exactly where a skip_trivia() ended, i.e. implicit WHITESPACE / COMMENT is accepted
# in front of every token; and the precise cursor effects of the helper methods that the claim rests on.
TV_PRE = ("accept_term", "accept_terminal", "accept_string", "accept_ci_string")  # require tv_at == pos == start
STATE_FNS = ("scan_grammar", "scan_grammar_rule", "scan_grammar_doc_inner", "scan_rule_doc_inner")
TV_START_PRE = ("accept_expression", "accept_postfix_op", "skip_trivia", *STATE_FNS)  # require start == pos
TV_POST = ("accept_expression", "accept_term", "accept_postfix_op", "skip_trivia")  # ensure tv_at == pos == start


def _tv_pre(method: str, pos, start, tv_at):
    if method in TV_PRE:
        return z3.And(tv_at == pos, start == pos)
    if method in TV_START_PRE:
        return start == pos
    return z3.BoolVal(True)


def _tv_post(method: str, pos0, start0, tv0, pos1, start1, tv1, result, is_none=None, sval=None):
    """cursor effect of a scanner method on <pos, start, tv_at>; result: the boolean result (bool methods), is_none: the
    result is None (scan / scan_until)"""
    same = z3.And(pos1 == pos0, start1 == start0, tv1 == tv0)
    if method in TV_POST:
        return z3.And(tv1 == pos1, start1 == pos1, pos1 >= pos0)
    if method in STATE_FNS:
        return start1 == pos1  # every state function hands over with the token start at the cursor
    if method == "scan":
        return z3.And(start1 == start0, tv1 == tv0, pos1 >= pos0, z3.Implies(is_none, pos1 == pos0), z3.Implies(z3.Not(is_none), pos1 == pos0 + z3.Length(sval)))
    if method == "scan_until":
        return z3.And(start1 == start0, tv1 == tv0)
    if method == "skip":
        return z3.And(tv1 == tv0, z3.Implies(result, z3.And(start1 == pos1, pos1 >= pos0)), z3.Implies(z3.Not(result), z3.And(pos1 == pos0, start1 == start0)))
    if method in ("accept_terminal", "accept_string", "accept_ci_string"):
        return z3.And(z3.Implies(result, z3.And(start1 == pos1, pos1 >= pos0)), z3.Implies(z3.Not(result), same))
    return z3.BoolVal(True)


def _tv_emit_ok(kind: str, start, tv_at):
    """the token being emitted starts where the last skip_trivia() ended (the opening quote, for string tokens)"""
    if kind == "COMMENT_TEXT":
        return z3.BoolVal(True)  # the text of a doc comment follows its opener (and an optional blank) directly
    if kind in ("STRING", "STRING_CI"):
        return z3.Or(start - 1 == tv_at, start == tv_at)  # the token may be taken to start at or after its opening quote
    return start == tv_at


SCANNER_METHODS = [
    "emit", "next", "peek", "scan", "scan_until", "skip", "skip_trivia", "error", "scan_grammar", "scan_grammar_doc_inner", "scan_grammar_rule",
    "scan_rule_doc_inner", "accept_expression", "accept_term", "accept_terminal", "accept_postfix_op", "accept_string", "accept_ci_string",
]
RETURNS = {"next": "str", "peek": "str", "scan": "optstr", "scan_until": "optstr", "skip": "bool", "accept_terminal": "bool", "accept_string": "bool", "accept_ci_string": "bool"}


class ScannerModel(FunctionSpec):
    """symbolic Scanner + the contracts of its methods at call sites"""

    raises = ("PestGrammarSyntaxError",)

    def mk_scanner(self, run: Run) -> Ref:
        pos, start = run.fresh("pos", "int"), run.fresh("start", "int")
        run.assume(z3.And(0 <= start.t, start.t <= pos.t, pos.t <= NG))
        toks = run.heap.alloc("tokens", {"n": run.fresh("ntokens", "int")}, fresh=False)
        last = run.fresh("last_kind", "int")
        tv_at = run.fresh("tv_at", "int")
        sc = run.heap.alloc(SCANNER, {"grammar": Sym(G, "str"), "pos": pos, "start": start, "tokens": toks, "$last": last, "$tv_at": tv_at}, fresh=False)
        run.pre = {"sc": sc, "pos0": pos.t, "start0": start.t, "last0": last.t, "tv0": tv_at.t}
        return sc

    def inv(self, run: Run) -> z3.BoolRef:
        o = run.obj(run.pre["sc"])
        return z3.And(0 <= z(o["start"]), z(o["start"]) <= z(o["pos"]), z(o["pos"]) <= NG, z3.BoolVal(isinstance(o["grammar"], Sym) and o["grammar"].t.eq(G)))

    # ---- hooks
    def getattr(self, run: Run, base: Any, attr: str, n):
        if isinstance(base, ClassV) and base.qual.endswith("TokenKind"):
            return ("$kind", attr)
        if isinstance(base, (RegexV, MatchV)):
            return BoundMethod(base, attr)
        if isinstance(base, Ref) and run.cls_of(base) == "tokens":
            return BoundMethod(base, attr)
        return NotImplemented

    def resolve_regex(self, name: str) -> RegexV:
        def sem(inp, pos, name=name):
            ok = z3.Bool(f"m_{name}_{abs(hash(str(pos))) % 10**6}")
            end = z3.Int(f"e_{name}_{abs(hash(str(pos))) % 10**6}")
            return ok, end

        return RegexV(sem)

    def call_external(self, run: Run, name: str, args, kwargs, n):
        if name.endswith("regex.compile"):
            rx = self.resolve_regex(str(args[0])[:12] if isinstance(args[0], str) else "rx")
            rx.pattern = args[0] if isinstance(args[0], str) else None
            return rx
        if name.endswith("frozenset"):
            return ("$set", args[0]) if args else ("$set", ())
        return NotImplemented

    def call_builtin(self, run: Run, name: str, args, kwargs, n):
        if name == "frozenset":
            v = args[0] if args else ()
            if isinstance(v, Ref) and run.is_list(v):
                return ("$set", "list")
            return ("$set", v)
        return NotImplemented

    def contains(self, run: Run, container: Any, item: Any, n):
        if isinstance(container, tuple) and container and container[0] == "$set":
            return wrap(run.fresh_t("in_set", "bool"), "bool")
        return NotImplemented

    def truth(self, run: Run, v: Any):
        if isinstance(v, MatchV):
            return v.cond
        if isinstance(v, tuple) and v and isinstance(v[0], str) and v[0].startswith("$"):
            return True
        return NotImplemented

    def call_method(self, run: Run, recv: Any, name: str, args, kwargs, n):
        if isinstance(recv, RegexV) and name in ("match", "search"):
            text, pos = args[0], z(args[1], "int")
            run.oblige("regex.args", z3.And(z3.BoolVal(isinstance(text, Sym) and text.t.eq(G)), pos >= 0))
            ok = run.fresh_t("matched", "bool")
            mstart = pos if name == "match" else run.fresh_t("mstart", "int")
            mend = run.fresh_t("mend", "int")
            run.assume(z3.Implies(ok, z3.And(pos <= mstart, mstart <= mend, mend <= NG)), "regex: a match lies inside the text at or after the given position")
            m = MatchV(ok, mend)
            m.start = mstart
            return m
        if isinstance(recv, MatchV):
            if name == "end":
                return wrap(recv.end, "int")
            if name == "start":
                return wrap(recv.start, "int")
        if isinstance(recv, Ref) and run.cls_of(recv) == "tokens" and name == "append":
            return None
        if isinstance(recv, Ref) and run.cls_of(recv) == SCANNER and name in SCANNER_METHODS and not (len(run.frames) == 1 and False):
            if f"{SCANNER}.{name}" != self.target or len(run.frames) >= 1:
                # call-site contract of another (or, recursively, the same) Scanner method
                if len(run.frames) >= 1 and not (f"{SCANNER}.{name}" == self.target and len(run.frames) == 0):
                    return self.scanner_contract(run, recv, name, args)
        return NotImplemented

    def getitem(self, run: Run, base: Any, idx: Any, n):
        if isinstance(base, MatchV):
            return Sym(z3.SubString(G, base.start, base.end - base.start), "str")
        return NotImplemented

    def scanner_contract(self, run: Run, sc: Ref, name: str, args) -> Any:
        """requires the object invariant; ensures it again; may raise PestGrammarSyntaxError; precise for next/peek/emit/error"""
        run.oblige(f"callee.{name}.requires_invariant", self.inv(run))
        o = run.obj(sc)
        pos, start = z(o["pos"]), z(o["start"])
        if name == "peek":
            return Sym(z3.If(pos < NG, z3.SubString(G, pos, 1), z3.StringVal("")), "str")
        if name == "next":
            run.setf(sc, "pos", wrap(z3.If(pos < NG, pos + 1, pos), "int"))
            return Sym(z3.If(pos < NG, z3.SubString(G, pos, 1), z3.StringVal("")), "str")
        last = z(o["$last"])
        tv_at = z(o["$tv_at"])
        run.oblige(f"adj.callee.{name}.requires", _adj_pre(name, last))
        run.oblige(f"tv.callee.{name}.requires", _tv_pre(name, pos, start, tv_at))
        if name == "emit":
            kind = args[0][1] if isinstance(args[0], tuple) and args[0] and args[0][0] == "$kind" else None
            run.oblige("adj.emit.kind_is_a_constant", kind is not None)
            if kind is not None:
                run.oblige(f"tv.token_starts_after_trivia[{kind}]", _tv_emit_ok(kind, start, tv_at))
                run.oblige(f"adj.okpair[{kind}]", okpair(last, kind))
                run.setf(sc, "$last", wrap(z3.IntVal(kcode(kind)), "int"))
                if kind in TOKEN_REGEX:
                    # the value of such a token is what that regex matched (so it lies in the language proved for it:
                    # C10 lex.*): digits for NUMBER (int() cannot fail), a modifier symbol for MODIFIER, ...
                    import importlib

                    want = getattr(importlib.import_module("pest.grammar.scanner"), TOKEN_REGEX[kind]).pattern
                    src = run.ghost.get("scan_results", {})
                    v = args[1]
                    pat = next((p_ for nm_, p_ in src.items() if isinstance(v, Sym) and nm_ in v.t.sexpr()), None)
                    run.oblige(f"adj.value_from_regex[{kind}]", pat == want, note=f"value from pattern {pat!r}, wanted {TOKEN_REGEX[kind]}")
            run.setf(sc, "start", wrap(pos, "int"))
            return None
        if name == "error":
            raise PyExc("PestGrammarSyntaxError", "Scanner.error")
        # every other method: may fail with a syntax error, otherwise re-establishes the invariant at some later position
        if run.branch(run.fresh_t(f"{name}_fails", "bool"), f"callee.{name}.raises"):
            raise PyExc("PestGrammarSyntaxError", name)
        npos, nstart = run.fresh(f"pos_after_{name}", "int"), run.fresh(f"start_after_{name}", "int")
        run.assume(z3.And(0 <= nstart.t, nstart.t <= npos.t, npos.t <= NG, npos.t >= pos))
        run.setf(sc, "pos", npos)
        run.setf(sc, "start", nstart)
        kind = RETURNS.get(name)
        nlast = run.fresh(f"last_after_{name}", "int")
        res_b = run.fresh_t(f"{name}_result", "bool") if kind == "bool" else z3.BoolVal(True)
        run.assume(_adj_post(name, last, nlast.t, res_b))
        run.setf(sc, "$last", nlast)
        ntv = run.fresh(f"tv_after_{name}", "int")
        ropt = run.fresh(f"{name}_result", "optstr") if kind == "optstr" else None
        from pyvc.sorts import OptStr as _OS

        run.assume(_tv_post(name, pos, start, tv_at, npos.t, nstart.t, ntv.t, res_b, _OS.is_none_s(ropt.t) if ropt is not None else None,
                            _OS.sval(ropt.t) if ropt is not None else None))
        run.setf(sc, "$tv_at", ntv)
        if kind == "bool":
            return wrap(res_b, "bool")
        if kind == "optstr":
            r = ropt
            if name == "scan" and args and isinstance(args[0], RegexV):
                run.ghost.setdefault("scan_results", {})[r.t.decl().name()] = getattr(args[0], "pattern", None)
            return r
        if name.startswith("scan_"):
            return Opaque("statefn")
        return None

    @property
    def constructors(self):
        def mk_token(run: Run, args, kwargs):
            start = z(args[2], "int")
            run.oblige("token.start_inside_text", z3.And(0 <= start, start <= NG))
            run.oblige("token.grammar_is_the_text", z3.BoolVal(isinstance(args[3], Sym) and args[3].t.eq(G)))
            return run.heap.alloc("pest.grammar.tokens.Token", {"kind": args[0], "value": args[1], "start": args[2]})

        return {"pest.grammar.tokens.Token": mk_token}

    @property
    def summaries(self):
        def unescape(run: Run, recv, args, kw):
            if run.branch(run.fresh_t("unescape_fails", "bool"), "unescape.raises"):
                raise PyExc("PestGrammarSyntaxError", "unescape_string")  # C12: the only exception it raises
            return run.fresh("unescaped", "str")

        return {"pest.grammar.unescape.unescape_string": unescape}


class ScannerMethod(ScannerModel):
    def __init__(self, method: str):
        self.method = method
        self.target = f"{SCANNER}.{method}"

    def setup(self, run: Run):
        sc = self.mk_scanner(run)
        run.assume(_adj_pre(self.method, run.pre["last0"]))
        run.assume(_tv_pre(self.method, run.pre["pos0"], run.pre["start0"], run.pre["tv0"]))
        args: list[Any] = []
        if self.method == "emit":
            args = [("$kind", "X"), run.fresh("value", "str")]
        elif self.method in ("scan", "scan_until", "skip"):
            args = [self.resolve_regex("arg")]
        elif self.method == "error":
            args = ["message"]
        return sc, args, {}

    # the method under verification must run its REAL body; calls it makes to other methods use their contracts
    def call_method(self, run: Run, recv: Any, name: str, args, kwargs, n):
        if isinstance(recv, Ref) and run.cls_of(recv) == SCANNER and name in SCANNER_METHODS:
            return self.scanner_contract(run, recv, name, args)
        return ScannerModel.call_method(self, run, recv, name, args, kwargs, n)

    @property
    def loops(self):
        spec = self

        # what the loops keep true of the kind of the last emitted token
        loop_last = {
            ("skip_trivia", 0): "same", ("accept_string", 0): "same", ("accept_ci_string", 0): "same",
            ("accept_expression", 0): TERM_END,
            ("accept_term", 0): (*TERM_START_CTX, "ASSIGN_OP", *PREFIX),
            ("accept_postfix_op", 0): TERM_END, ("accept_postfix_op", 1): ("LBRACE", "COMMA", "NUMBER"),
        }

        def mk(ordinal):
            want = loop_last.get((spec.method, ordinal), "same")

            tv_inv = {
                ("skip_trivia", 0): lambda p, st, tv, pre: z3.Or(z3.And(p == pre["pos0"], st == pre["start0"]), st == p),
                ("accept_term", 0): lambda p, st, tv, pre: z3.And(tv == p, st == p),
                ("accept_expression", 0): lambda p, st, tv, pre: st == p,
                ("accept_postfix_op", 0): lambda p, st, tv, pre: st == p,
                ("accept_postfix_op", 1): lambda p, st, tv, pre: st == p,
                ("accept_string", 0): lambda p, st, tv, pre: z3.And(tv == pre["tv0"], st == pre["pos0"] + 1),
                ("accept_ci_string", 0): lambda p, st, tv, pre: tv == st - 1,
            }.get((spec.method, ordinal))

            def inv(run, g):
                o = run.obj(run.pre["sc"])
                last = z(o["$last"])
                adj = last == run.pre["last0"] if want == "same" else among(last, want)
                out = [("object_invariant", spec.inv(run)), ("progress", z(o["pos"]) >= run.pre["pos0"]), ("adj.last_kind", adj)]
                if tv_inv is not None:
                    out.append(("tv.cursor", tv_inv(z(o["pos"]), z(o["start"]), z(o["$tv_at"]), run.pre)))
                return out

            def modifies(run):
                sc = run.pre["sc"]
                return [(sc, "pos"), (sc, "start"), (sc, "$last"), (sc, "$tv_at")]

            return Loop(inv, modifies=modifies)

        return {0: mk(0), 1: mk(1), 2: mk(2)}

    def post(self, run: Run, pre: Any, out: Any) -> None:
        run.oblige("invariant", self.inv(run))
        o = run.obj(pre["sc"])
        if self.method != "emit":
            res = z(out, "bool") if RETURNS.get(self.method) == "bool" else z3.BoolVal(True)
            run.oblige("adj.post", _adj_post(self.method, pre["last0"], z(o["$last"]), res))
            from pyvc.sorts import OptStr as _OS

            is_none = sval = None
            if RETURNS.get(self.method) == "optstr":
                is_none = z3.BoolVal(True) if out is None else _OS.is_none_s(z(out, "optstr"))
                sval = z3.StringVal("") if out is None else _OS.sval(z(out, "optstr"))
            tv1 = z(o["pos"]) if self.method == "skip_trivia" else z(o["$tv_at"])  # skip_trivia DEFINES the ghost: where it returns
            run.oblige("tv.post", _tv_post(self.method, pre["pos0"], pre["start0"], pre["tv0"], z(o["pos"]), z(o["start"]), tv1, res, is_none, sval))
        if self.method == "peek":
            run.oblige("result", z(out, "str") == z3.If(pre["pos0"] < NG, z3.SubString(G, pre["pos0"], 1), z3.StringVal("")))
            run.oblige("unchanged", z3.And(z(o["pos"]) == pre["pos0"], z(o["start"]) == pre["start0"]))
        if self.method == "next":
            run.oblige("result", z(out, "str") == z3.If(pre["pos0"] < NG, z3.SubString(G, pre["pos0"], 1), z3.StringVal("")))
            run.oblige("advance", z(o["pos"]) == z3.If(pre["pos0"] < NG, pre["pos0"] + 1, pre["pos0"]))
        if self.method == "emit":
            run.oblige("start_moves_to_pos", z3.And(z(o["start"]) == pre["pos0"], z(o["pos"]) == pre["pos0"]))
        run.oblige("progress", z(o["pos"]) >= pre["pos0"])

    def post_exc(self, run: Run, pre: Any, exc: PyExc) -> None:
        if exc.name == "PestGrammarSyntaxError":
            return
        super().post_exc(run, pre, exc)


# ------------------------------------------------------------------ error rendering
class ErrorContext(c14.TextSpec):
    """PestGrammarError._error_context(text, index) for 0 <= index <= len(text): never raises; the reported line exists
    (1-based line <= number of lines, or the empty line after a trailing newline / line 1 of an empty text)."""

    target = f"{GERR}._error_context"

    def setup(self, run: Run):
        p = run.fresh("index", "int")
        run.assume(z3.And(0 <= p.t, p.t <= z3.Length(c14.T)))
        me = run.heap.alloc(GERR, {}, fresh=False)
        run.pre = {"p": p.t}
        return me, [Sym(c14.T, "str"), p], {}

    def str_method(self, run: Run, s: Any, name: str, args, kwargs, n):
        if name == "rstrip" and not args:
            return Sym(c14.rstrip_fn(z(s, "str")), "str")
        return c14.TextSpec.str_method(self, run, s, name, args, kwargs, n)

    @property
    def loops(self):
        def facts(run, g):
            i = z(run.loop_idx)
            return [*c14.split_facts(i), c14.bridge_in_line(i, run.pre["p"])]

        def inv(run, g):
            env = run.frames[0].env
            i = z(run.loop_idx)
            return [("cum", z(env["cumulative_length"]) == c14.off(i)), ("notfound", z(env["target_line_index"]) == -1), ("before", c14.off(i) <= run.pre["p"])]

        return {0: Loop(inv, facts=facts, modifies=lambda run: [])}

    def post(self, run: Run, pre: Any, out: Any) -> None:
        p = pre["p"]
        for f in [*c14.split_facts(c14.N - 1), c14.bridge_at_end(p), *c14.cnt_unfold(p)]:
            run.assume(f)
        ok = isinstance(out, tuple) and len(out) == 5
        run.oblige("result.is_5tuple", ok)
        if ok:
            line, col = z(out[0], "int"), z(out[1], "int")
            run.oblige("line.exists", z3.And(line >= 1, line <= c14.N + 1), {"T": c14.T, "p": p, "line": line})
            run.oblige("line.is_line_of_index", line == 1 + c14.cnt(p), {"T": c14.T, "p": p, "line": line})
            run.oblige("col.nonneg", col >= 0, {"T": c14.T, "p": p, "col": col})
            run.oblige("col.is_col_of_index", col == p - c14.lastnl(p) - 1, {"T": c14.T, "p": p, "col": col})


# ------------------------------------------------------------------ grammar Parser: token cursor
class CursorSpec(FunctionSpec):
    """Parser.current / next / peek / eat: never IndexError (the EOI token is returned past the end); eat raises only
    PestGrammarSyntaxError."""

    raises = ("PestGrammarSyntaxError",)
    inline = (f"{GPARSER}.next", f"{GPARSER}.current")

    def __init__(self, method: str):
        self.method = method
        self.target = f"{GPARSER}.{method}"

    def setup(self, run: Run):
        toks = run.heap.alloc("tokenlist", {"n": run.fresh("ntokens", "int")}, fresh=False)  # the token list, abstracted to its length
        run.assume(z(run.obj(toks)["n"]) >= 0)
        eof = run.heap.alloc("pest.grammar.tokens.Token", {"kind": -1, "value": ""}, fresh=False)
        pos = run.fresh("pos", "int")
        run.assume(pos.t >= 0)
        me = run.heap.alloc(GPARSER, {"tokens": toks, "pos": pos, "eof": eof}, fresh=False)
        run.pre = {"me": me, "eof": eof, "pos0": pos.t, "n": z(run.obj(toks)["n"])}
        args: list[Any] = []
        if self.method == "peek":
            off = run.fresh("offset", "int")
            run.assume(off.t >= 0)
            args = [off]
        if self.method == "eat":
            args = [Sym(z3.Int("wanted_kind"), "int")]
        return me, args, {}

    def getitem(self, run: Run, base: Any, idx: Any, n):
        me = run.pre["me"]
        if isinstance(base, Ref) and base == run.obj(me)["tokens"]:
            run.norm_index(idx, run.pre["n"], n, "token")
            return run.heap.alloc("pest.grammar.tokens.Token", {"kind": run.fresh("tokkind", "int"), "value": run.fresh("tokval", "str")})
        return NotImplemented

    def post(self, run: Run, pre: Any, out: Any) -> None:
        o = run.obj(pre["me"])
        run.oblige("returns_a_token", isinstance(out, Ref) and run.cls_of(out) == "pest.grammar.tokens.Token")
        run.oblige("pos.nonneg", z(o["pos"]) >= 0)
        if self.method in ("current", "peek"):
            run.oblige("cursor.unchanged", z(o["pos"]) == pre["pos0"])
        if self.method == "next":
            run.oblige("cursor.advances_inside", z(o["pos"]) == z3.If(pre["pos0"] < pre["n"], pre["pos0"] + 1, pre["pos0"]))
            run.oblige("eof_past_end", z3.Implies(pre["pos0"] >= pre["n"], z3.BoolVal(out == pre["eof"])))

    def post_exc(self, run: Run, pre: Any, exc: PyExc) -> None:
        if exc.name == "PestGrammarSyntaxError" and self.method == "eat":
            return
        super().post_exc(run, pre, exc)


EXPLANATION = (
    "All 18 methods of the grammar Scanner are executed symbolically over an arbitrary text and arbitrary scanner position "
    "(regexes are oracles that match inside the text; the other methods are used through their contracts, so recursion is "
    "modular) and proved to raise nothing but PestGrammarSyntaxError, to keep 0 <= start <= pos <= len(grammar) and to "
    "create only tokens that start inside the text; the grammar Parser's token cursor never raises IndexError; "
    "PestGrammarError._error_context is proved total for every token start in [0, len] and to report the line/column of "
    "that position (C14's Spec). PestGrammarError.__init__ / message / detailed_message / __str__ are proved never to raise "
    "and to show that line:column, the source line and the caret column (contracts/c11_render.py). unescape_*: C12. The "
    "grammar Parser's recursive descent over tokens is proved to end normally or in PestGrammarSyntaxError (C10's "
    "executions). Expression constructors and the optimizer are outside the dialect: bounded corpus stand-in."
)
TRUSTED = [
    "pyvc executor's model of the Python subset; z3/cvc5",
    "regex oracles: match(text, pos) starts at pos (search: at or after pos) and ends inside the text",
    "C14's splitlines BRIDGE; str.rstrip opaque",
]
ASSUMPTIONS = ["partial correctness: termination of the scanner's state loop and recursion depth on nested parentheses are not decided"]
BOUNDED = ["Parser.from_grammar end to end (Expression constructors, optimizer; the grammar Parser's recursive descent and the error rendering are proved): corpus of bundled grammars, every truncation (LF and CRLF), single-character mutations, token soups, 270 rule-reference cycles under a wall-clock limit, lone surrogates, multi-line texts with LF / CRLF / CR ends, 5 deeply nested texts (listed finding) (quick: ~7k texts; thorough: ~60k) - stand-in, not proved"]


# the token-adjacency clauses belong to C10 (they are what its token-layer proof assumes of scanner output)
DROP_CLAUSES = r"(^|\.)(adj|tv)\."


class ScannerAdjacency(ScannerMethod):
    """the same executions, kept for their `adj.*` clauses only (used by C10)"""

    keep_clauses = r"(^|\.)(adj|tv)\."

    def __init__(self, method: str):
        super().__init__(method)
        self.label = f"{SCANNER}.{method}[token adjacency]"


def parser_exception_specs(tier):
    """the grammar Parser's recursive descent (executed for C10's token-layer proof) kept here for exception freedom:
    a path that ends in anything but PestGrammarSyntaxError generates a `noraise.*` obligation with goal False"""
    from . import c10_parser

    out = []
    for sp in c10_parser.specs(tier):
        sp.keep_clauses = r"^noraise|requires"
        sp.label = f"{sp.label or sp.target}[exceptions]"
        out.append(sp)
    return out


def specs(tier):
    from . import c11_render

    return [*parser_exception_specs(tier), *[ScannerMethod(m) for m in SCANNER_METHODS], ErrorContext(), *[CursorSpec(m) for m in ("current", "next", "peek", "eat")],
            c12.ParseHexDigits(), c12.DecodeEscape(), c12.DecodeHexChar(), c12.UnescapeString(), *c11_render.specs(tier)]


# ------------------------------------------------------------------ corpus stand-in
ALPHABET = ['a', 'b', '_', 'A', '=', '{', '}', '(', ')', '[', ']', '~', '|', '*', '+', '?', '!', '&', '@', '$', '^', '"', "'", '\\', '.', '..', ',', '-', '0', '1', '12',
            ' ', '\n', '/', '//', '///', '//!', '/*', '*/', '#', '#tt', '"\\u{-1}"', '"\\x-1"', '"\\u{+41}"', '"\\x4"', "'\\u{-1}'", '\\u{', '\\x', '{-1}', 'PUSH', 'PEEK', 'POP', 'DROP', 'PEEK_ALL', 'POP_ALL', 'PUSH_LITERAL', 'ANY', 'SOI', 'EOI', 'x', 'n', 'u', '\u00e9', '\u00df', '\U0001F600', '\t', '\r']


def _valid_grammars() -> list[str]:
    root = Path(os.environ.get("PYVC_REPO", "/repo"))
    out = ['a = { "x" }', "a = _{ 'a'..'z' ~ (b | ^\"c\")* }\nb = @{ PUSH(\"x\") ~ PEEK[0..1] ~ !POP ~ &DROP? }", '/// doc\na = ${ #tt=("x"){1,2} ~ "y"{2} ~ "z"{,3} ~ "w"{4,} }',
           '//! g\nWHITESPACE = _{ " " }\nCOMMENT = _{ "/*" ~ (!"*/" ~ ANY)* ~ "*/" }\na = !{ "\\u{41}\\x42\\n" ~ \'\\u{10FFFF}\'..\'\\u{10FFFF}\' }']
    for pat in ("tests/grammars/*.pest", "examples/*/*.pest"):
        for p in sorted(root.glob(pat)):
            out.append(p.read_text())
    return out


def check_text(text: str) -> str | None:
    from pest import Parser
    from pest.grammar.exceptions import PestGrammarError

    from replay.limits import DidNotTerminate, time_limit

    try:
        with time_limit(10):
            Parser.from_grammar(text)
        return None
    except DidNotTerminate as e:
        return f"from_grammar {e}"
    except PestGrammarError as e:
        try:
            msg = str(e)
            e.detailed_message()
        except Exception as e2:  # noqa: BLE001
            return f"str(error) raised {type(e2).__name__}: {e2}"
        if not isinstance(msg, str) or not msg:
            return "empty message"
        tok = e.token
        if tok is not None:
            if not (0 <= tok.start <= len(text)):
                return f"error token starts at {tok.start}, outside the text (len {len(text)})"
            lines = text.splitlines(keepends=True)
            import re as _re

            m = _re.search(r"-> (\d+):(-?\d+)", msg)
            if not m:
                return "message has no line:column"
            line, col = int(m.group(1)), int(m.group(2))
            nlines = max(len(lines), 1) + (1 if text.endswith("\n") else 0)
            if not (1 <= line <= nlines) or col < 0:
                return f"line:column {line}:{col} does not exist in the text"
            this = lines[line - 1] if line - 1 < len(lines) else ""
            if col > len(this):
                return f"column {col} beyond the line of length {len(this)}"
        return None
    except RecursionError:
        return "RecursionError escaped"
    except Exception as e:  # noqa: BLE001
        return f"{type(e).__name__}: {e}"[:100]


def corpus_check(tier: str, seed: int) -> dict:
    rnd = random.Random(seed + 3)
    bad: list[dict[str, Any]] = []
    n = 0
    valid = _valid_grammars()

    def run(text: str, origin: str) -> None:
        nonlocal n
        if len(bad) >= 5:
            return  # enough witnesses; a change that makes from_grammar loop would otherwise cost 10 s per text
        n += 1
        why = check_text(text)
        if why and len(bad) < 5:
            bad.append({"text": text if len(text) < 200 else text[:100] + "..." + text[-80:], "origin": origin, "what": why})

    # rule-graph shapes (reference cycles through every optimizer pass): a cycle must neither recurse nor loop without bound
    # (round-5: RecursionError through the skip pass - repaired in /repo -, and seed C11c: alias-following loop without a cycle guard)
    for mod1 in ("", "_", "@", "$", "!"):
        for mod2 in ("", "_"):
            for body in ("b", "(b)", "b | \"x\"", "!b ~ ANY", "(!b ~ ANY)*", "b*", "b?", "#t=b", "PUSH(b)"):
                run(f"a = {mod1}{{ {body} }}\nb = {mod2}{{ a }}", "rule cycle")
                run(f"a = {mod1}{{ {body} }}\nb = {mod2}{{ c }}\nc = {mod2}{{ b }}", "rule cycle")
                run(f"a = {mod1}{{ {body} }}\nb = {mod2}{{ b }}", "rule cycle")
    for t in ['a = _{ a }', 'a = _{ b }\nb = _{ c }\nc = _{ a }', 'WHITESPACE = _{ COMMENT }\nCOMMENT = _{ WHITESPACE }\na = { "x" ~ "y" }', 'WHITESPACE = _{ WHITESPACE }\na = { "x"* }',
              'a = { "\\u{' + "\ud800" + '1}" }', 'a = { \'\\u{' + "\udfff" + 'A}\' }', 'a = { "' + "\ud800" + '" }', "a = { '" + "\udc00" + "'..'" + "\udfff" + "' }", "/* " + "\ud800" + " */ a = { \"x\" }"]:
        run(t, "hand")
    # deeply nested / very long expressions: the recursive descent of the front end exhausts CPython's recursion limit.
    # Listed finding (KNOWN_FINDINGS.txt, standin=c11-corpus); any other RecursionError is a violation.
    deep = {"deep-parens": 'a = { ' + "(" * 3000 + '"x"' + ")" * 3000 + " }", "deep-prefix": 'a = { ' + "!" * 5000 + '"x" }', "deep-postfix": 'a = { "x"' + "?" * 5000 + " }",
            "long-sequence": 'a = { ' + " ~ ".join(['"x"'] * 3000) + " }", "long-choice": 'a = { ' + " | ".join(["b"] * 3000) + " }\nb = { \"x\" }"}
    listed = standin_findings(PROPERTY, "c11-corpus")
    known_lines: list[str] = []
    for case, t in deep.items():
        n += 1
        why = check_text(t)
        if why == "RecursionError escaped" and f"recursion-depth:{case}" in listed:
            known_lines.append(listed[f"recursion-depth:{case}"])
        elif why and len(bad) < 5:
            bad.append({"text": t[:100] + "..." + t[-80:], "origin": f"deep:{case}", "what": why})
    for t in ["", " ", "\n", "//", "// c", "/* c", "/* c */", "//!", "///", "a", "a=", "a={", "a={}", 'a={"', "a={'", "a={'x", "a={'x'", "a={'x'..", "a={'x'..'", "a = { b }", "a = { 'z'..'a' }",
              'a = { ^"\u00df" | \'a\'..\'b\' }', "a = { PEEK[ } ", "a = { PEEK[1.. } ", "a = { PEEK[a..b] }", "a = { \"x\"{} }", "a = { \"x\"{,} }", "a = { \"x\"{1,2,3} }", "a = { \"x\"{99999999999999999999} }",
              "a = { #tt }", "a = { #tt= }", "a = { ! }", "a = { & }", "a = { | }", "a = { ~ }", "a = { \"\\u{110000}\" }", "a = { \"\\xZZ\" }", "a = { '\\u{D800}'..'\\u{DFFF}' }", "a = { PUSH_LITERAL(x) }",
              "a = { PUSH() }", "= { \"x\" }", "a { \"x\" }", "a = \"x\"", "1 = { \"x\" }", "a = { \"x\" } }", "a = { (((((((((( \"x\" }",
              # more digits than CPython's int() converts (4300): found by a round-4 seeding agent in the unmodified tree
              'a = { "x"{' + "1" * 5000 + "} }", 'a = { "x"{1,' + "0" * 5000 + "2} }", "a = { PEEK[" + "1" * 5000 + "..] }", "a = { PEEK[..-" + "1" * 5000 + "] }"]:
        run(t, "hand")
    # the same grammars with CRLF line ends, and multi-line texts whose error sits on the last line (round-6 seed C11d: a line
    # count that adds one character per line break points past the last line of a CRLF text)
    multi = ['a = { "x" }\nb = { "y" }\nc = { "z" ', '// one\n// two\n// three\na = { "\\q', 'a = { "x" }\n\n\nb = ', '/* c\n c */\na = { b ~ }\n', 'a = {\n  "x" ~\n  \'a\'..\n}\n', 'a = { "x" }\n  \t b', "a = { \"x\" }\n\u00e9"]
    for t in multi:
        for nl in ("\n", "\r\n", "\r"):
            for tail in ("", nl, nl + nl):
                run(t.replace("\n", nl) + tail, "multi-line")
    for g in valid:
        if len(g) < 400:
            gg = g.replace("\n", "\r\n")
            for i in range(0, len(gg) + 1):
                run(gg[:i], "truncation (CRLF)")
    for g in valid:
        step = 1 if len(g) < 400 else (len(g) // (150 if tier == "quick" else 1500) or 1)
        for i in range(0, len(g), step):
            run(g[:i], "truncation")
        for _ in range(60 if tier == "quick" else 600):
            i = rnd.randrange(len(g) + 1)
            kind = rnd.random()
            tok = rnd.choice(ALPHABET)
            if kind < 0.4:
                m = g[:i] + tok + g[i:]
            elif kind < 0.7 and i < len(g):
                m = g[:i] + g[i + 1:]
            else:
                m = g[:i] + tok + g[i + 1:]
            run(m, "mutation")
    for _ in range(2500 if tier == "quick" else 30000):
        run("".join(rnd.choice(ALPHABET) for _ in range(rnd.randint(1, 14))), "token soup")
    return {"name": "c11-corpus", "kind": "bounded stand-in (Parser.from_grammar end to end on a corpus)", "evaluations": n,
            "bound": f"hand-written edge cases, 270 rule-reference cycles, lone surrogates, 5 deeply nested texts, multi-line texts with LF / CRLF / CR line ends, every truncation of {len(valid)} valid grammars (sampled for long files), single-character mutations, token soups up to 14 tokens",
            "violation": bool(bad), "details": bad[:3], "known_lines": known_lines}


def extra_checks(tier, seed):
    return [corpus_check(tier, seed)]


def concretise(tier, seed, refuted, undecided, known):
    r = corpus_check("quick", seed)
    return [{"found": True, "for": None, "input": d["text"], "observed": d["what"], "cmd": f"/venv/bin/python -c \"from pest import Parser; Parser.from_grammar({d['text']!r})\""} for d in r["details"][:1]]
