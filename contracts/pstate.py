"""Parser-state model shared by the operator contracts (C01, C03-C08, C13, C16).

Logical state  L = <pos, stk, rstk, atom, tags, neg, sup, far, fi>   (z3 datatype LS)
plus the four checkpoint lists (user-stack copies, rule-stack copies, atomic-depth
checkpoints, position history) which C09 proves to behave as one list of full copies.

A child expression is an *oracle*: uninterpreted functions of (index, L) giving
<ok, L', pairs>, constrained only by the generic contract G (below).  The same oracle
symbols are used by the Spec (contracts/spec.py) and by the code under verification.
"""
from __future__ import annotations

from typing import Any

import z3

from pyvc.engine import PyExc, Run
from pyvc.sorts import SL, FInfo, OptStr, PairS, RuleS, register_kind, sort_of
from pyvc.values import Child, Ref, Sym, wrap, z

from .common import SINT_INLINE, STACK, STACK_SUMMARIES, new_abstract_stack, new_sint, stack_view

PSTATE = "pest.state.ParserState"

SeqStr = z3.SeqSort(z3.StringSort())
SeqRule = z3.SeqSort(RuleS)
SeqPair = z3.SeqSort(PairS)
SeqInt = z3.SeqSort(z3.IntSort())

_ls = z3.Datatype("LS")
_ls.declare(
    "mk_ls",
    ("l_pos", z3.IntSort()),
    ("l_stk", SeqStr),
    ("l_rstk", SeqRule),
    ("l_atom", z3.IntSort()),
    ("l_tags", SeqStr),
    ("l_neg", z3.IntSort()),
    ("l_sup", z3.BoolSort()),
    ("l_far", z3.IntSort()),
    ("l_fi", FInfo),
)
LS = _ls.create()
register_kind("ls", LS)
FIELDS = ["pos", "stk", "rstk", "atom", "tags", "neg", "sup", "far", "fi"]


def lget(L, f: str):  # noqa: N803
    return getattr(LS, "l_" + f)(L)


def lmk(**kw):
    return LS.mk_ls(*[kw[f] for f in FIELDS])


def lset(L, **kw):  # noqa: N803
    return LS.mk_ls(*[kw.get(f, lget(L, f)) for f in FIELDS])


def restored(L_saved, L_now):  # noqa: N803
    """state.restore(): the four checkpointed components come back, the rest stays."""
    return lset(L_now, pos=lget(L_saved, "pos"), stk=lget(L_saved, "stk"), rstk=lget(L_saved, "rstk"), atom=lget(L_saved, "atom"))


# rule objects
r_name = z3.Function("r_name", RuleS, z3.StringSort())
r_mod = z3.Function("r_mod", RuleS, z3.IntSort())

# pairs
mkpair = z3.Function("mkpair", z3.StringSort(), z3.IntSort(), z3.IntSort(), SeqPair, OptStr, PairS)
p_name = z3.Function("p_name", PairS, z3.StringSort())
p_start = z3.Function("p_start", PairS, z3.IntSort())
p_end = z3.Function("p_end", PairS, z3.IntSort())
p_children = z3.Function("p_children", PairS, SeqPair)
p_tag = z3.Function("p_tag", PairS, OptStr)

# failure bookkeeping: contents of furthest_expected/unexpected/stack as one abstract value
fi_upd = z3.Function(
    "fi_upd", FInfo, z3.BoolSort(), z3.BoolSort(), z3.StringSort(), z3.StringSort(), z3.BoolSort(), SeqRule, FInfo
)
# fi_upd(fi, further, equal, label, rule_name, neg_context, rule_stack)


def oracle(tag: str):
    """Oracle family `tag`: (ok, st, prs, junk) as functions of (index, L)."""
    return (
        z3.Function(f"{tag}_ok", z3.IntSort(), LS, z3.BoolSort()),
        z3.Function(f"{tag}_st", z3.IntSort(), LS, LS),
        z3.Function(f"{tag}_prs", z3.IntSort(), LS, SeqPair),
        z3.Function(f"{tag}_junk", z3.IntSort(), LS, SeqPair),
    )


def named_oracle(tag: str):
    """Oracle family indexed by a rule *name* (Identifier -> rules[name])."""
    return (
        z3.Function(f"{tag}_ok", z3.StringSort(), LS, z3.BoolSort()),
        z3.Function(f"{tag}_st", z3.StringSort(), LS, LS),
        z3.Function(f"{tag}_prs", z3.StringSort(), LS, SeqPair),
        z3.Function(f"{tag}_junk", z3.StringSort(), LS, SeqPair),
    )


INP = z3.Const("inp", z3.StringSort())
START = z3.Const("start_pos", z3.IntSort())

wf = z3.Function("wf_pairs", SeqPair, z3.IntSort(), z3.IntSort(), z3.BoolSort())


# wf(P, lo, hi): the pairs of P lie inside [lo, hi], in input order, pairwise non-overlapping, each with
# start <= end and its children recursively well-formed inside its own span.  The predicate is opaque; the
# facts below are instances of lemmas that follow from that definition by induction on the length of P
# (trusted; listed in evidence):
def W1(lo, hi):  # noqa: N802
    return wf(z3.Empty(SeqPair), lo, hi) == (lo <= hi)


def W2(A, B, lo, mid, hi):  # noqa: N802, N803
    return z3.Implies(z3.And(wf(A, lo, mid), wf(B, mid, hi)), wf(z3.Concat(A, B), lo, hi))


def W3(P, lo, hi, lo2, hi2):  # noqa: N802, N803
    return z3.Implies(z3.And(wf(P, lo, hi), lo2 <= lo, hi <= hi2), wf(P, lo2, hi2))


def W4(name, s, e, ch, tag, lo, hi):  # noqa: N802
    return z3.Implies(z3.And(lo <= s, s <= e, e <= hi, wf(ch, s, e)), wf(z3.Unit(mkpair(name, s, e, ch, tag)), lo, hi))


def W5(P, lo, hi):  # noqa: N802, N803
    return z3.Implies(wf(P, lo, hi), lo <= hi)


def G(L, ok, L2, P) -> list[z3.BoolRef]:  # noqa: N802, N803
    """Generic contract every expression's parse() guarantees (and every K must imply)."""
    n = z3.Length(INP)
    return [
        lget(L2, "rstk") == lget(L, "rstk"),
        lget(L2, "atom") == lget(L, "atom"),
        lget(L2, "neg") == lget(L, "neg"),
        z3.Implies(ok, z3.And(lget(L, "pos") <= lget(L2, "pos"), lget(L2, "pos") <= n)),
        lget(L, "far") <= lget(L2, "far"),
        z3.Implies(lget(L, "far") <= n, lget(L2, "far") <= n),
        z3.Implies(ok, wf(P, lget(L, "pos"), lget(L2, "pos"))),
    ]


def G_inst(fam, i, L) -> z3.BoolRef:  # noqa: N802, N803
    """The child's contract instantiated at L: wf_state(L) => G(L, child(L)).
    Implicit trivia (family tv) never fails, so its G is stated with ok = True."""
    ok_f, st_f, prs_f, _ = fam
    ok = z3.BoolVal(True) if ok_f.name() == "tv_ok" else ok_f(i, L)
    is_rule = ok_f.name() in ("rule_ok", "tv_ok")
    return z3.Implies(z3.And(*wf_state(L, is_rule)), z3.And(*G(L, ok, st_f(i, L), prs_f(i, L))))


def wf_state(L, rule: bool = False) -> list[z3.BoolRef]:  # noqa: N803
    """Precondition of every expression's parse(); a *rule* may also be called on an empty rule stack
    (the start rule), since Rule.parse pushes itself before anything can call fail()."""
    n = z3.Length(INP)
    if rule:
        return wf_state(L)[:-1]
    return [
        0 <= START,
        START <= lget(L, "pos"),
        lget(L, "pos") <= n,
        lget(L, "atom") >= 0,
        lget(L, "neg") >= 0,
        lget(L, "far") >= -1,
        lget(L, "far") <= n,
        z3.Length(lget(L, "rstk")) > 0,
    ]


# ---------------------------------------------------------------------------------
class StateModel:
    """Mixin for FunctionSpecs that take a ParserState: builds it, packs/unpacks L,
    implements oracle calls and the call-site contracts of ParserState methods."""

    template_mode = False  # True: a failing child may leave junk in the list it was given
    summaries: dict[str, Any] = dict(STACK_SUMMARIES)
    inline: tuple[str, ...] = (
        *SINT_INLINE,
        f"{PSTATE}.checkpoint",
        f"{PSTATE}.ok",
        f"{PSTATE}.restore",
        f"{PSTATE}.push",
        f"{PSTATE}.drop",
        f"{PSTATE}.peek",
        f"{PSTATE}.peek_slice",
    )

    # ---- construction
    def mk_state(self, run: Run, name: str = "") -> Ref:
        f = lambda n, k: run.fresh(f"{n}{name}", k)  # noqa: E731
        us = new_abstract_stack(run, "str", run.fresh_t(f"stk{name}", "seq:str"), z3.Const(f"us_snaps{name}", SL("str").sort))
        rs = new_abstract_stack(run, "rule", run.fresh_t(f"rstk{name}", "seq:rule"), z3.Const(f"rs_snaps{name}", SL("rule").sort))
        ad = new_sint(run, f("atom", "int"), run.fresh_t(f"atom_cps{name}", "seq:int"))
        ph = run.new_list("int", run.fresh_t(f"pos_hist{name}", "seq:int"), fresh=False)
        tags = run.new_list("str", run.fresh_t(f"tags{name}", "seq:str"), fresh=False)
        parser = run.heap.alloc("pest.parser.Parser", {"rules": ("$rules",)}, fresh=False)
        st = run.heap.alloc(
            PSTATE,
            {
                "input": Sym(INP, "str"),
                "pos": f("pos", "int"),
                "parser": parser,
                "neg_pred_depth": f("neg", "int"),
                "furthest_pos": f("far", "int"),
                "$fi": f("fi", "finfo"),
                "_pos_history": ph,
                "_suppress_failures": f("sup", "bool"),
                "atomic_depth": ad,
                "rule_stack": rs,
                "tag_stack": tags,
                "user_stack": us,
            },
            fresh=False,
        )
        return st

    def pack(self, run: Run, st: Ref):
        o = run.obj(st)
        return lmk(
            pos=z(o["pos"]),
            stk=stack_view(run, o["user_stack"])[0],
            rstk=stack_view(run, o["rule_stack"])[0],
            atom=z(run.obj(o["atomic_depth"])["_value"]),
            tags=run.seq(o["tag_stack"]),
            neg=z(o["neg_pred_depth"]),
            sup=z(o["_suppress_failures"]),
            far=z(o["furthest_pos"]),
            fi=z(o["$fi"]),
        )

    def snaps(self, run: Run, st: Ref) -> dict[str, Any]:
        o = run.obj(st)
        return {
            "us": stack_view(run, o["user_stack"])[1],
            "rs": stack_view(run, o["rule_stack"])[1],
            "ad": run.seq(run.obj(o["atomic_depth"])["_checkpoints"]),
            "ph": run.seq(o["_pos_history"]),
        }

    def unpack(self, run: Run, st: Ref, L) -> None:  # noqa: N803
        o = run.obj(st)
        run.setf(st, "pos", wrap(lget(L, "pos"), "int"))
        run.set_seq(run.obj(o["user_stack"])["items"], lget(L, "stk"))
        run.set_seq(run.obj(o["rule_stack"])["items"], lget(L, "rstk"))
        run.setf(o["atomic_depth"], "_value", wrap(lget(L, "atom"), "int"))
        run.set_seq(o["tag_stack"], lget(L, "tags"))
        run.setf(st, "neg_pred_depth", wrap(lget(L, "neg"), "int"))
        run.setf(st, "_suppress_failures", wrap(lget(L, "sup"), "bool"))
        run.setf(st, "furthest_pos", wrap(lget(L, "far"), "int"))
        run.setf(st, "$fi", Sym(lget(L, "fi"), "finfo"))

    # ---- oracle call: child.parse(state, pairs)
    def oracle_call(self, run: Run, fam, idx, st: Ref, pairs: Ref) -> Any:
        ok_f, st_f, prs_f, junk_f = fam
        L = self.pack(run, st)  # noqa: N806
        i = z(idx)
        is_tv = ok_f.name() == "tv_ok"
        ok, L2, P = ok_f(i, L), st_f(i, L), prs_f(i, L)  # noqa: N806
        # the callee's precondition is an obligation of the caller
        run.oblige(f"child.requires.{ok_f.name()[:-3]}", z3.And(*wf_state(L, ok_f.name() in ("rule_ok", "tv_ok"))))
        run.assume(G_inst(fam, i, L))
        run.ghost.setdefault("oracle_calls", []).append((fam, i, L))
        self.unpack(run, st, L2)
        cur, _ = run.as_seq(pairs, None, "pair")
        if is_tv:
            # implicit trivia never fails: the list grows by the (possibly empty) trivia pairs
            run.set_seq(pairs, z3.Concat(cur, P))
        elif self.template_mode and ok_f.name() != "rule_ok":
            run.set_seq(pairs, z3.Concat(cur, z3.If(ok, P, junk_f(i, L))))
        else:
            run.set_seq(pairs, z3.If(ok, z3.Concat(cur, P), cur))
        return wrap(ok, "bool")

    # hooks used by the executor --------------------------------------------------
    def setattr(self, run: Run, base: Any, attr: str, v: Any, n):
        # state.pos = <int | None value>: the position must be an int (never None)
        if isinstance(base, Ref) and attr == "pos" and isinstance(v, Sym) and v.k == "optint":
            from pyvc.sorts import OptInt

            run.oblige("pos.not_none", OptInt.is_some_i(v.t))
            run.setf(base, attr, Sym(OptInt.ival(v.t), "int"))
            return None
        return NotImplemented

    def as_seq(self, run: Run, v: Any):
        if isinstance(v, Ref) and run.cls_of(v) == STACK:
            o = run.obj(v)
            return run.seq(o["items"]), o["$ek"]
        return NotImplemented

    def iter_guard(self, run: Run, it: Any):
        if isinstance(it, Ref) and run.cls_of(it) == STACK:
            return [run.obj(it)["items"].oid]
        return []

    def call_method(self, run: Run, recv: Any, name: str, args, kwargs, n):
        if isinstance(recv, Child) and name == "parse":
            fam = self.family(run, recv)
            return self.oracle_call(run, fam, recv.idx, args[0], args[1])
        if isinstance(recv, Ref) and run.cls_of(recv) == PSTATE:
            if name == "fail":
                return self.s_fail(run, recv, args, kwargs)
            if name == "checkpoint":
                run.ghost["ckpt_state"] = self.pack(run, recv)  # history ghost: state saved by the last checkpoint()
            if name == "parse_trivia" and getattr(self, "trivia_oracle", True):
                return self.oracle_call(run, oracle("tv"), 0, recv, args[0])
        return NotImplemented

    def family(self, run: Run, child: Child):
        return oracle(child.tag)

    # ---- contract of ParserState.fail (proved against the real body in C13)
    def s_fail(self, run: Run, st: Ref, args, kwargs) -> None:
        o = run.obj(st)
        label = args[0]
        force = kwargs.get("force", False)
        rule_name = kwargs.get("rule_name")
        pos = kwargs.get("pos")
        neg, sup = z(o["neg_pred_depth"]), z(o["_suppress_failures"])
        quiet = z3.Or(z3.And(neg > 0, z3.Not(z(force))), sup)
        if run.branch(quiet, "fail.quiet"):
            return
        rstk = stack_view(run, o["rule_stack"])[0]
        # rule_name = rule_name or self.rule_stack[-1].name
        if rule_name is None or (isinstance(rule_name, str) and not rule_name):
            if not run.branch(z3.Length(rstk) > 0, "fail.rstk.nonempty"):
                raise PyExc("IndexError", "fail(): rule_stack[-1] on an empty rule stack")
            rn = r_name(rstk[z3.Length(rstk) - 1])
        elif isinstance(rule_name, str) or (isinstance(rule_name, Sym) and rule_name.k == "str"):
            rn = z(rule_name)
            if not isinstance(rule_name, str):
                rn = z3.If(z3.Length(rn) > 0, rn, r_name(rstk[z3.Length(rstk) - 1]))
        else:
            raise PyExc("TypeError", f"fail(rule_name={rule_name!r})")
        if pos is not None:
            raise PyExc("TypeError", "fail(pos=...) is not covered by the contract (no caller passes it)")
        p = z(o["pos"])
        far = z(o["furthest_pos"])
        if label is None:
            lab = z3.StringVal("<None>")
            run.ghost["none_label"] = True
        elif isinstance(label, Sym) and label.k == "optstr":
            lab = z3.If(OptStr.is_none_s(label.t), z3.StringVal("<None>"), OptStr.sval(label.t))
            run.ghost.setdefault("maybe_none_label", []).append(OptStr.is_none_s(label.t))
        else:
            try:
                lab = z(label, "str")
            except TypeError:
                lab = z3.StringVal("<opaque>")
        further, equal = p > far, p == far
        run.setf(st, "furthest_pos", wrap(z3.If(further, p, far), "int"))
        run.setf(
            st, "$fi", Sym(z3.If(z3.Or(further, equal), fi_upd(z(o["$fi"]), further, equal, lab, rn, neg % 2 == 1, rstk), z(o["$fi"])), "finfo")
        )


def fail_effect(L, label, rule_name=None, force: bool = False):  # noqa: N803
    """Spec-level F(L, label): the state after state.fail(label) (same text as StateModel.s_fail)."""
    neg, sup = lget(L, "neg"), lget(L, "sup")
    quiet = z3.Or(z3.And(neg > 0, z3.Not(z3.BoolVal(force))), sup)
    rstk = lget(L, "rstk")
    rn = r_name(rstk[z3.Length(rstk) - 1]) if rule_name is None else rule_name
    p, far = lget(L, "pos"), lget(L, "far")
    further, equal = p > far, p == far
    fi2 = z3.If(z3.Or(further, equal), fi_upd(lget(L, "fi"), further, equal, label, rn, neg % 2 == 1, rstk), lget(L, "fi"))
    return z3.If(quiet, L, lset(L, far=z3.If(further, p, far), fi=fi2))
