"""C02 - optimizer passes never change what a grammar parses.

Three layers:
 (1) the optimizer-only node classes are proved against contracts of their own (all inputs/states):
     SkipUntil.parse/generate (pos' = least first occurrence of a stop string, else len), OptimizedChoice /
     RegexExpression parse/generate; the bounded repetition classes delegate to unroll() (C03);
 (2) every arm of every pass is RUN on schematic trees (the real pass functions, concrete execution) and the
     before/after trees are checked against the Spec-level rewrite the arm is allowed to perform - including
     the arms that must NOT fire; line coverage of the pass functions by the schemas must be complete;
 (3) Spec-level equivalence of each allowed rewrite: by definition (unroll), by the code-point obligations of
     C12 plus an order check (squash), by the SkipUntil contract plus a bounded differential stand-in (skip),
     by the Rule[SILENT] contract modulo failure-label attribution (inline_*: meta-argument).
Pass composition (any subset/order/repetition) follows from per-pass preservation over the closed class set
(meta-argument).
"""
from __future__ import annotations

import sys
from typing import Any

import z3

from pyvc import regexsem
from pyvc.driver import FunctionSpec
from pyvc.engine import Run

from . import c12, groups, ops, templates, unroll_struct
from .groups import concretise_ops

PROPERTY = "C02"


def _gx():
    return templates._gx()  # noqa: SLF001


def shape(e: Any) -> Any:
    """structural fingerprint of an expression tree (identity of leaves by object id where needed)"""
    k = type(e).__name__
    if k in ("String", "CIString", "PushLiteral"):
        return (k, e.value)
    if k == "Range":
        return (k, e.start, e.stop)
    if k == "Identifier":
        return (k, e.value, e.tag)
    if k == "SkipUntil":
        return (k, tuple(e.subs))
    if k in ("OptimizedChoice", "OptimizedChoiceRepeat"):
        return (k, e.build_optimized_pattern())
    if k in ("Sequence", "Choice"):
        return (k, tuple(shape(x) for x in e.expressions))
    if k in ("RepeatExact", "RepeatMin", "RepeatMax"):
        return (k, e.number, shape(e.expression))
    if k == "RepeatMinMax":
        return (k, e.min, e.max, shape(e.expression))
    if k == "Group":
        return (k, e.tag, shape(e.expression))
    if k.endswith("Rule") or k in ("Any", "SOI", "EOI"):
        return ("rule", e.name, e.modifier, shape(e.expression))
    if hasattr(e, "expression"):
        return (k, shape(e.expression))
    if k in ("_Any", "_SOI", "_EOI", "Peek", "Pop", "PeekAll", "PopAll", "Drop"):
        return (k,)
    if k == "PeekSlice":
        return (k, e.start, e.stop)
    return (k, "?")


class PassSpec(FunctionSpec):
    """direct obligations over the output of a real pass on schematic trees"""

    about = ""

    def source(self, engine):
        return engine.program.funcs[self.about]


class UnrollArms(PassSpec):
    target = "pest.grammar.optimizers.unroller.unroll"
    about = target
    label = "C02.unroll[arms]"

    def direct(self, run: Run) -> None:
        gx = _gx()
        from pest.grammar.optimizers.unroller import unroll

        e = gx.String("e")
        r = unroll_struct.check()
        run.oblige("bounded_forms", not r["violation"], note=str(r["details"][:2]))
        # e+ with an untagged group: the group around the first item may be dropped ((e) == e)
        g0 = gx.Group(e)
        run.oblige("once.group", shape(unroll(gx.RepeatOnce(g0), {})) == ("Sequence", (shape(e), ("Repeat", shape(g0)))))
        # a tagged group keeps its tag on every iteration
        gt = gx.Group(e, "t")
        run.oblige("once.tagged_group", shape(unroll(gx.RepeatOnce(gt), {})) == ("Sequence", (shape(gt), ("Repeat", shape(gt)))))
        # everything else is left alone (identity)
        for node in (e, gx.Repeat(e), gx.Optional(e), gx.Sequence(e, e), gx.Choice(e, e), gx.Group(e), gx.NegativePredicate(e)):
            run.oblige(f"identity.{type(node).__name__}", unroll(node, {}) is node)


class SkipArms(PassSpec):
    target = "pest.grammar.optimizers.skippers.skip"
    about = target
    label = "C02.skip[arms]"

    def direct(self, run: Run) -> None:
        gx = _gx()
        from pest.grammar.optimizers.skippers import skip
        from pest.grammar.rule import GrammarRule
        from pest.grammar.rules.special import Any as AnyRule

        S = gx.String  # noqa: N806

        def idiom(inner, any_node=None):
            return gx.Repeat(gx.Group(gx.Sequence(gx.NegativePredicate(inner), any_node or AnyRule())))

        rules = {"lit": GrammarRule("lit", S("q"), 0), "alts": GrammarRule("alts", gx.Choice(S("x"), S("yz")), 2), "rng": GrammarRule("rng", gx.Range("a", "b"), 0), "su": GrammarRule("su", gx.SkipUntil(["z"]), 4)}
        fires = [
            ("string", idiom(S("a")), ("a",)),
            ("choice", idiom(gx.Choice(S("b"), S("ab"))), ("b", "ab")),
            ("group", idiom(gx.Group(gx.Choice(S("a"), S("b")))), ("a", "b")),
            ("ident", idiom(gx.Identifier("lit")), ("q",)),
            ("ident.choice", idiom(gx.Identifier("alts")), ("x", "yz")),
            ("any.ident", idiom(S("a"), gx.Identifier("ANY")), ("a",)),
            ("rule.inner", idiom(GrammarRule("r", gx.Choice(S("u"), S("v")), 0)), ("u", "v")),
            ("order", idiom(gx.Choice(S("\r\n"), S("\n"), S("\r"))), ("\r\n", "\n", "\r")),
            # a tag on the group is unobservable here: nothing inside the idiom can produce a pair to carry it
            ("tagged.group", gx.Repeat(gx.Group(gx.Sequence(gx.NegativePredicate(S("a")), AnyRule()), "t")), ("a",)),
        ]
        for name, node, subs in fires:
            out = skip(node, rules)
            run.oblige(f"fires.{name}", shape(out) == ("SkipUntil", subs), note=str(shape(out)))
        no_fire = [
            ("range", idiom(gx.Range("a", "b"))),
            ("cistring", idiom(gx.CIString("a"))),
            ("choice.range", idiom(gx.Choice(S("a"), gx.Range("0", "9")))),
            ("ident.range", idiom(gx.Identifier("rng"))),
            ("ident.undefined", idiom(gx.Identifier("nope"))),
            ("sequence3", gx.Repeat(gx.Group(gx.Sequence(gx.NegativePredicate(S("a")), AnyRule(), S("b"))))),
            ("nogroup", gx.Repeat(gx.Sequence(gx.NegativePredicate(S("a")), AnyRule()))),
            ("pospred", gx.Repeat(gx.Group(gx.Sequence(gx.PositivePredicate(S("a")), AnyRule())))),
            ("not.any", gx.Repeat(gx.Group(gx.Sequence(gx.NegativePredicate(S("a")), S("x"))))),
            ("once", gx.RepeatOnce(gx.Group(gx.Sequence(gx.NegativePredicate(S("a")), AnyRule())))),
            # !SkipUntil(..) never succeeds (SkipUntil always matches): the idiom then matches nothing - not a search
            ("nested.skipuntil", idiom(gx.Choice(gx.SkipUntil(["m"]), S("n")))),
            ("nested.skipuntil.ident", idiom(gx.Identifier("su"))),
            ("plain", S("a")),
        ]
        for name, node in no_fire:
            out = skip(node, rules)
            run.oblige(f"identity.{name}", out is node, note=str(shape(out)))
        # context: the driver applies the pass only where implicit trivia cannot match
        from pest import Parser

        def has_skipuntil(p, rule):
            found = []

            def walk(e):
                found.append(type(e).__name__)
                for c in e.children():
                    walk(c)

            walk(p.rules[rule].expression)
            return "SkipUntil" in found

        body = '(!"b" ~ ANY)* ~ "b"'
        ws = 'WHITESPACE = _{ " " }\n'
        cases = [
            ("notrivia.plain", f"r = {{ {body} }}", True),
            ("trivia.plain", ws + f"r = {{ {body} }}", False),
            ("trivia.silent", ws + f"r = _{{ {body} }}", False),
            ("trivia.nonatomic", ws + f"r = !{{ {body} }}", False),
            ("trivia.atomic", ws + f"r = @{{ {body} }}", True),
            ("trivia.compound", ws + f"r = ${{ {body} }}", True),
            ("comment.plain", 'COMMENT = _{ "#" }\n' + f"r = {{ {body} }}", False),
        ]
        for name, g, want in cases:
            run.oblige(f"context.{name}", has_skipuntil(Parser.from_grammar(g), "r") == want)


class InlineArms(PassSpec):
    target = "pest.grammar.optimizers.inliners.inline_silent_rules"
    about = target
    label = "C02.inline[arms]"

    def direct(self, run: Run) -> None:
        gx = _gx()
        from pest import Parser
        from pest.grammar.optimizers.inliners import inline_builtin, inline_silent_rules
        from pest.grammar.rule import GrammarRule

        body = gx.Sequence(gx.String("a"), gx.String("b"))
        rules = {"s": GrammarRule("s", body, 2), "n": GrammarRule("n", body, 0), "a": GrammarRule("a", body, 4)}
        run.oblige("silent.inlined", inline_silent_rules(gx.Identifier("s"), rules) is body)
        tagged = gx.Identifier("s", "t")
        run.oblige("silent.tagged.kept", inline_silent_rules(tagged, rules) is tagged)
        for nm in ("n", "a"):
            node = gx.Identifier(nm)
            run.oblige(f"nonsilent.{nm}.kept", inline_silent_rules(node, rules) is node)
        run.oblige("other.kept", inline_silent_rules(body, rules) is body)
        # WHITESPACE and COMMENT are atomic by name (Rule.parse): their body alone is not, so a reference to them stays
        for nm in ("WHITESPACE", "COMMENT"):
            trules = {nm: GrammarRule(nm, body, 2)}
            node = gx.Identifier(nm)
            run.oblige(f"silent.{nm}.kept", inline_silent_rules(node, trules) is node, note="an explicitly referenced silent trivia rule must keep its implicit atomicity")
        # inlining must not change what an enclosing atomic rule shows: Rule.parse decides the visibility of inner pairs by the
        # SYNTAX of the atomic rule's body (finding F8), so replacing `b` by its body `c` (a $ rule) changes the tree
        from pest.grammar.optimizer import Optimizer

        from replay.refpeg import tagged_tree_of

        g = 'a = @{ b }\nb = _{ c }\nc = ${ "x" ~ d }\nd = { "y" }'
        before = tagged_tree_of(Parser.from_grammar(g, optimizer=None).parse("a", "xy"))
        try:
            after = tagged_tree_of(Parser.from_grammar(g, optimizer=Optimizer([("inline silent", inline_silent_rules)])).parse("a", "xy"))
        except Exception:  # noqa: BLE001
            after = tagged_tree_of(Parser.from_grammar(g).parse("a", "xy"))
        run.oblige("silent.atomic_visibility_preserved", before == after, note=f"a = @{{ b }}, b = _{{ c }}, c = ${{ \"x\" ~ d }} on 'xy': unoptimized {before} optimized {after}")
        for name, rule in Parser.BUILTIN.items():
            out = inline_builtin(rule, {})
            if name == "EOI":
                run.oblige("builtin.EOI.kept", out is rule)
            elif not (out is rule.expression and rule.modifier == 2):
                run.oblige(f"builtin.{name}", False, note="a built-in must be silent and be replaced by its own expression")
        run.oblige("builtin.all_silent_inlined", True)
        run.oblige("builtin.other.kept", inline_builtin(body, {}) is body)


class SquashArms(PassSpec):
    """squash_choice: the alternatives of the emitted pattern, in order, are the alternatives of the choice with
    adjacent single-code-point items merged; multi-character literals keep their position (ordered choice);
    the merged classes denote the union of their items for all code points (C12)."""

    target = "pest.grammar.expressions.choice.build_optimized_pattern"
    about = target
    label = "C02.squash_choice[arms]"

    def direct(self, run: Run) -> None:  # noqa: C901, PLR0912
        gx = _gx()
        from pest.grammar.optimizers.squash_choice import squash_choice
        from pest.grammar.rules.unicode import UNICODE_RULES

        S, R, CI = gx.String, gx.Range, gx.CIString  # noqa: N806
        letter = UNICODE_RULES["LETTER"]
        cases = [
            ("prefix", [S("a"), S("ab")]),
            ("prefix.rev", [S("ab"), S("a")]),
            ("multi.between", [S("x"), S("abc"), S("y"), R("0", "9")]),
            ("ci.multi", [CI("ab"), S("abc")]),
            # pending single-code-point items must be flushed in front of a case-insensitive multi-character literal too
            # (a campaign-4 mutant deleted that flush() and passed: no schema had a single item before a ^"multi")
            ("single.before.ci.multi", [S("a"), CI("ab")]),
            ("range.before.ci.multi", [R("a", "b"), CI("ab"), S("c")]),
            ("ci.single.before.ci.multi", [CI("a"), CI("ab")]),
            ("prop.before.ci.multi", [letter, CI("ab")]),
            ("single.before.multi", [S("a"), S("ab")]),
            ("range.before.multi", [R("a", "b"), S("ab")]),
            ("ci.after", [S("abc"), CI("ab"), S("a")]),
            ("prop", [S("a"), letter, S("bc"), R("0", "1")]),
            ("singles", [S("a"), S("b"), R("c", "d")]),
            ("nested", [gx.Choice(S("a"), S("ab")), S("abc")]),
            ("builtin.rule", [S("x"), __import__("pest").Parser.BUILTIN["ASCII_HEX_DIGIT"], S("xy")]),
            # what the default pipeline really hands to squash: inline_builtin has already replaced LETTER by its regex node
            ("inlined.prop", [letter.expression, S("_")]),
            ("inlined.prop.last", [S("ab"), R("0", "9"), letter.expression]),
            ("nested.optimized", [squash_choice(gx.Choice(S("p"), S("pq"), R("0", "1")), {}), S("y")]),
        ]
        for name, alts in cases:
            before = gx.Choice(*alts)
            after = squash_choice(before, {})
            if type(after).__name__ != "OptimizedChoice":
                # leaving the choice alone is always allowed for shapes squash does not know (an inlined property)
                run.oblige(f"{name}.squashed", name.startswith("inlined.") and after is before)
                continue
            # the pattern is compiled lazily inside parse(): it must build and compile now (C07: parse() never raises)
            try:
                after.pattern  # noqa: B018
                compiled = ""
            except Exception as ex:  # noqa: BLE001
                compiled = f"{type(ex).__name__}: {ex}"[:120]
            run.oblige(f"{name}.compiles", not compiled, note=compiled)
            if compiled:
                continue
            pat = after.build_optimized_pattern()
            parsed = regexsem.parse(pat)
            parts = parsed.parts if parsed.kind == "alt" else [parsed]
            # expected: walk the flattened alternatives in order, merging runs of single-code-point items
            flat: list[Any] = []

            def flatten(xs):
                for x in xs:
                    kx = type(x).__name__
                    if kx == "Choice":
                        flatten(x.expressions)
                    elif kx.endswith("Rule") and kx != "UnicodePropertyRule" and type(x.expression).__name__ == "Choice":
                        flatten(x.expression.expressions)  # a built-in that is a choice of ranges
                    elif kx == "OptimizedChoice":
                        for c in x.choices:  # an already squashed choice contributes its own items, in order
                            ck = type(c).__name__
                            if ck == "ChoiceLiteral":
                                flat.append((CI if c.case.name == "INSENSITIVE" else S)(c.value))
                            elif ck == "ChoiceRange":
                                flat.append(R(c.start, c.end))
                            else:
                                flat.append(c)
                    else:
                        flat.append(x)

            flatten(alts)
            expect: list[Any] = []
            run_items: list[Any] = []

            def flush():
                if run_items:
                    expect.append(("group", list(run_items)))
                    run_items.clear()

            for x in flat:
                k = type(x).__name__
                single = (k == "String" and len(x.value) == 1) or k == "Range" or k in ("UnicodePropertyRule", "RegexExpression") or (k == "CIString" and len(x.value) == 1)
                if single:
                    run_items.append(x)
                else:
                    flush()
                    expect.append(("lit", x.value, k == "CIString"))
            flush()
            # compare alternative by alternative
            i = 0
            ok = True
            why = ""
            for ex in expect:
                if ex[0] == "lit":
                    if i >= len(parts) or parts[i].kind != "literal" or parts[i].literal != ex[1] or parts[i].ignore_case != ex[2]:
                        ok, why = False, f"alternative {i} is not the literal {ex[1]!r}"
                        break
                    i += 1
                else:
                    props = [x for x in ex[1] if type(x).__name__ in ("UnicodePropertyRule", "RegexExpression")]
                    chars = [x for x in ex[1] if type(x).__name__ not in ("UnicodePropertyRule", "RegexExpression")]
                    for pr in props:
                        ptxt = pr.pattern if type(pr).__name__ == "RegexExpression" else pr.expression.pattern
                        if i >= len(parts) or parts[i].kind != "prop" or parts[i].props != (ptxt,):
                            ok, why = False, f"alternative {i} is not the property {ptxt}"
                            break
                        i += 1
                    if not ok:
                        break
                    if chars:
                        if i >= len(parts) or parts[i].kind != "class1":
                            ok, why = False, f"alternative {i} is not a character class"
                            break
                        accs = [c12.expr_acceptor(c) for c in chars]
                        d = lambda cp, accs=accs: z3.Or(*[a(cp) for a in accs])  # noqa: E731
                        acc = parts[i].accepts
                        ci = any(type(c).__name__ == "CIString" for c in chars)
                        dom = (lambda cp: z3.And(regexsem.in_domain(cp), cp <= 127)) if ci else regexsem.in_domain
                        run.oblige(f"{name}.class{i}", z3.Implies(dom(c12.CP), acc(c12.CP) == d(c12.CP)), {"cp": c12.CP})
                        i += 1
            if ok and i != len(parts):
                ok, why = False, "extra alternatives in the pattern"
            run.oblige(f"{name}.order", ok, note=f"{pat!r}: {why}")
        # not squashable: left alone
        for name, alts in (("with.sequence", [S("a"), gx.Sequence(S("b"), S("c"))]), ("with.ident", [S("a"), gx.Identifier("x")]),
                           ("nested.unsquashable", [gx.Choice(S("x"), gx.Identifier("y")), S("c")]), ("nested.unsquashable.last", [S("c"), gx.Choice(S("x"), gx.Sequence(S("p"), S("q")))])):
            before = gx.Choice(*alts)
            run.oblige(f"identity.{name}", squash_choice(before, {}) is before)
        run.oblige("identity.nonchoice", squash_choice(S("a"), {}) is not None and type(squash_choice(S("a"), {})).__name__ == "String")


class SkipRuleArms(PassSpec):
    """Optimizer._optimize_skip_rule: SKIP = _@{ COMMENT-body* } (only a silent COMMENT) or _@{ <class>* } (only a silent
    WHITESPACE that is a choice of single-code-point literals); nothing otherwise.  The rule must be silent AND
    atomic: trivia bodies are matched atomically."""

    target = "pest.grammar.optimizer.Optimizer._optimize_skip_rule"
    about = target
    label = "C02.skip_rule[arms]"

    def direct(self, run: Run) -> None:
        gx = _gx()
        from pest.grammar.optimizer import DEFAULT_OPTIMIZER
        from pest.grammar.rule import GrammarRule

        S = gx.String  # noqa: N806
        cbody = gx.Sequence(S("#"), S("!"))

        def run_on(rules):
            rules = dict(rules)
            DEFAULT_OPTIMIZER._optimize_skip_rule(rules)  # noqa: SLF001
            return rules.get("SKIP")

        sk = run_on({"COMMENT": GrammarRule("COMMENT", cbody, 2)})
        run.oblige("comment.silent", sk is not None and sk.name == "SKIP" and sk.modifier == 6 and type(sk.expression).__name__ == "Repeat" and sk.expression.expression is cbody,
                   note=str(None if sk is None else (sk.modifier, shape(sk.expression))))
        ws = gx.Choice(S(" "), S("\t"), S("\n"))
        sk = run_on({"WHITESPACE": GrammarRule("WHITESPACE", ws, 2)})
        ok = sk is not None and sk.modifier == 6 and type(sk.expression).__name__ == "OptimizedChoiceRepeat"
        run.oblige("whitespace.silent.choice", ok, note=str(None if sk is None else sk.modifier))
        if ok:
            pat = sk.expression.build_optimized_pattern()
            p = regexsem.parse(pat)
            run.oblige("whitespace.pattern.star", p.repeat and p.kind == "class1", note=pat)
            if p.repeat and p.kind == "class1":
                d = c12.def_ranges([(" ", " "), ("\t", "\t"), ("\n", "\n")])
                run.oblige("whitespace.class", z3.Implies(regexsem.in_domain(c12.CP), p.accepts(c12.CP) == d(c12.CP)), {"cp": c12.CP})
        none_cases = {
            "both": {"COMMENT": GrammarRule("COMMENT", cbody, 2), "WHITESPACE": GrammarRule("WHITESPACE", ws, 2)},
            "comment.nonsilent": {"COMMENT": GrammarRule("COMMENT", cbody, 0)},
            "whitespace.nonsilent": {"WHITESPACE": GrammarRule("WHITESPACE", ws, 0)},
            "whitespace.notchoice": {"WHITESPACE": GrammarRule("WHITESPACE", S(" "), 2)},
            "whitespace.multichar": {"WHITESPACE": GrammarRule("WHITESPACE", gx.Choice(S(" "), gx.Sequence(S("a"), S("b"))), 2)},
            "none": {},
        }
        for name, rules in none_cases.items():
            run.oblige(f"no_skip.{name}", run_on(rules) is None)


class LazyPatternsCompile(PassSpec):
    """OptimizedChoice compiles its pattern lazily inside parse(); whatever the default pipeline builds from grammars
    that put every kind of built-in / literal / range into choices must build and compile (else parse() raises)."""

    target = "pest.grammar.expressions.choice.OptimizedChoice.pattern"
    about = "pest.grammar.expressions.choice.build_optimized_pattern"
    label = "C02.lazy_patterns_compile"

    GRAMMARS = [
        'a = { (LETTER | "_") ~ (LETTER | NUMBER | ASCII_DIGIT | "_" | "-")* }',
        'a = { (HAN | HIRAGANA | "x" | "xy" | ^"z" | ^"zz" | \'0\'..\'9\')+ }',
        'WHITESPACE = _{ " " | "\\t" | NEWLINE }\na = { (ASCII_ALPHA | ASCII_HEX_DIGIT | XID_START | "\\u{E9}")* ~ (NEWLINE | ANY) }',
        'b = _{ "p" | UPPERCASE_LETTER }\na = { (b | "q" | \'r\'..\'s\')* }',
    ]

    def direct(self, run: Run) -> None:
        from pest import Parser

        n = 0
        for gi, g in enumerate(self.GRAMMARS):
            try:
                p = Parser.from_grammar(g)
            except Exception as ex:  # noqa: BLE001
                run.oblige(f"g{gi}.builds", False, note=f"{type(ex).__name__}: {ex}"[:120])
                continue
            bad = []

            def walk(e):
                nonlocal n
                if type(e).__name__ in ("OptimizedChoice", "OptimizedChoiceRepeat"):
                    n += 1
                    try:
                        e.pattern  # noqa: B018
                    except Exception as ex:  # noqa: BLE001
                        bad.append(f"{type(ex).__name__}: {ex}"[:100])
                for ch in e.children():
                    walk(ch)

            for r in p.rules.values():
                walk(r.expression)
            run.oblige(f"g{gi}.patterns_compile", not bad, note="; ".join(bad[:2]))
            try:
                src = p.generate()
                compile(src, "<g>", "exec")
                gen_err = ""
            except Exception as ex:  # noqa: BLE001
                gen_err = f"{type(ex).__name__}: {ex}"[:120]
            run.oblige(f"g{gi}.generates", not gen_err, note=gen_err)
        run.oblige("some_optimized_choices_seen", n >= 3, note=str(n))


class PassCoverage(PassSpec):
    """the schemas above must execute every line of every pass function (an arm no schema reaches is undecided)"""

    target = "pest.grammar.optimizer.Optimizer.optimize"
    about = target
    label = "C02.pass_coverage"

    def direct(self, run: Run) -> None:
        import ast
        import inspect

        from pest.grammar.optimizer import Optimizer
        from pest.grammar.optimizers import inliners, skippers, squash_choice, unroller

        fns = [unroller.unroll, skippers.skip, skippers._skip, inliners.inline_builtin, inliners.inline_silent_rules,  # noqa: SLF001
               squash_choice.squash_choice, squash_choice.squash, Optimizer._optimize_skip_rule, Optimizer._is_atomic] if hasattr(Optimizer, "_is_atomic") else []  # noqa: SLF001
        if not fns:
            fns = [unroller.unroll, skippers.skip, skippers._skip, inliners.inline_builtin, inliners.inline_silent_rules, squash_choice.squash_choice, squash_choice.squash, Optimizer._optimize_skip_rule]  # noqa: SLF001
        # the default pipeline consists of exactly the passes that have preservation schemas: a pass added to
        # DEFAULT_OPTIMIZER_PASSES has no contract - the property is UNDECIDED for it, never silently accepted
        # (round-6 seed C08c added a choice "factorizer" to the default passes and C02 stayed green)
        from pest.grammar.optimizer import DEFAULT_OPTIMIZER, DEFAULT_OPTIMIZER_PASSES
        from pyvc.engine import OutOfDialect

        contracted = {unroller.unroll: ("unroll", False), skippers.skip: ("skip", True), inliners.inline_builtin: ("inline built-in", False),
                      squash_choice.squash_choice: ("squash_choice", False), inliners.inline_silent_rules: ("inline silent", False)}
        for step in [*DEFAULT_OPTIMIZER_PASSES, *DEFAULT_OPTIMIZER.passes]:
            if step.func not in contracted:
                raise OutOfDialect(f"optimizer pass {step.name!r} ({getattr(step.func, '__qualname__', step.func)}) of the default pipeline has no preservation contract")
        run.oblige("default_passes.atomic_only_where_required", all(step.atomic_only or not contracted[step.func][1] for step in DEFAULT_OPTIMIZER_PASSES),
                   note="the skip pass is sound only where no implicit trivia can match (atomic_only=True)")
        run.oblige("default_passes.no_predicate_or_fixed_point_surprises", all(step.predicate is None for step in DEFAULT_OPTIMIZER_PASSES))
        want: dict[tuple[str, int], str] = {}
        for f in fns:
            _src, start = inspect.getsourcelines(f)
            code = f.__code__
            for ln in {ln for _, _, ln in code.co_lines() if ln is not None} | {ln for c in code.co_consts if hasattr(c, "co_lines") for _, _, ln in c.co_lines() if ln}:
                if ln > start:
                    want[(code.co_filename, ln)] = f.__qualname__
        seen: set[tuple[str, int]] = set()

        def tracer(frame, event, arg):
            if event == "line":
                seen.add((frame.f_code.co_filename, frame.f_lineno))
            return tracer

        old = sys.gettrace()
        sys.settrace(tracer)
        try:
            dummy = Run(run.engine, [], "coverage")
            for cls in (UnrollArms, SkipArms, InlineArms, SquashArms, SkipRuleArms):
                cls().direct(dummy)
        finally:
            sys.settrace(old)
        missing = sorted((fn, ln) for (fn, ln), q in want.items() if (fn, ln) not in seen)
        # lines that only raise for impossible inputs are allowed to stay unreached
        allowed = {"raise", "return None"}
        real_missing = []
        for fn, ln in missing:
            text = open(fn).read().splitlines()[ln - 1].strip()
            if not any(text.startswith(a) for a in allowed):
                real_missing.append(f"{fn.split('/')[-1]}:{ln}: {text[:60]}")
        run.oblige("all_arms_reached", not real_missing, note="; ".join(real_missing[:6]))


EXPLANATION = (
    "SkipUntil, OptimizedChoice and RegexExpression - the node classes only the optimizer creates - are proved against "
    "contracts of their own (parse and generated code, all inputs and states). Every arm of every pass (unroll, skip, "
    "inline_builtin, squash_choice, inline_silent_rules, Optimizer._optimize_skip_rule and the driver's applicability "
    "test) is run - the real functions - on schematic trees, including the shapes that must not be rewritten, and the "
    "before/after trees are checked against the rewrite the Spec allows (order of alternatives, tags kept, SKIP silent "
    "and atomic, skip only where no trivia can match); the merged character classes are decided for all code points; "
    "line coverage of the pass functions by the schemas must be complete. The equivalences themselves: unroll by "
    "definition of the bounded repetitions, squash by the assumed ordered-alternation semantics of the regex engine, "
    "skip by SkipUntil's contract plus a bounded differential stand-in, inlining modulo failure-label attribution."
)
TRUSTED = [
    *groups.COMMON_TRUSTED,
    "regex alternation is ordered (leftmost alternative that matches wins) - assumed semantics (pyvc/regexsem.py)",
    "meta-arguments: (a) Rule[SILENT](body) == body for <ok, pos, stack, pairs> (the rule stack only feeds failure labels); (b) (!(l1|..|lk) ~ ANY)* == SkipUntil([l1..lk]) where no trivia can match (induction on len - pos; bounded differential stand-in); (c) any subset/order/repetition of passes preserves meaning because each pass does over the closed class set",
]
ASSUMPTIONS = groups.COMMON_ASSUMPTIONS
BOUNDED = ["pass arms are exercised on a finite set of schematic trees (each arm at least once; coverage measured on every run)",
           "differential stand-in: replay/diff4 families optimizer_skip / optimizer_squash / optimizer_inline, inputs up to length 5"]


def specs(tier):
    return [
        ops.SkipUntilSpec(), ops.RegexNodeSpec("RegexExpression"), ops.RegexNodeSpec("OptimizedChoice"),
        *templates.skipuntil_templates(), *templates.regex_node_templates(), *ops.bounded_repeat_specs(),
        UnrollArms(), SkipArms(), InlineArms(), SquashArms(), SkipRuleArms(), LazyPatternsCompile(), PassCoverage(),
        # the character classes squash_choice / the SKIP fusion compile (catalogue + generated family, each decided for all
        # code points): C12's contract, re-proved here - a second-round seed in _optimize_char_class passed C02 without it
        c12.OptimizedClasses(),
    ]


concretise = concretise_ops(PROPERTY, default_modes=("interp", "interp+opt", "gen", "gen+opt"))


def differential() -> dict:
    from replay import diff4

    fams = ["optimizer_skip", "optimizer_squash", "optimizer_ranges", "optimizer_inline", "trivia", "rule"]
    kc = groups.known_cases(PROPERTY)
    skip = {(c["grammar"], c["text"]) for c in kc.values()} | {(c["grammar"], c["text"]) for c in groups.known_cases("C04").values()}
    res = diff4.search(fams, diff4.MODES, limit=3, skip=skip)
    n = sum(len(diff4.FAMILIES[f]["grammars"]) for f in fams)
    return {"name": "c02-differential", "kind": "bounded stand-in (optimized vs unoptimized vs executable Spec on small grammars/inputs)",
            "evaluations": n, "bound": "families " + ", ".join(fams), "violation": bool(res), "details": res[:2]}


# Divergences of the UNCHANGED tree reported by round-5 seeding agents, reproduced natively, not repaired (DESIGN 10.5):
# each is probed on exactly the reported input; a listed one is printed as KNOWN-FINDING, one that is not listed
# (KNOWN_FINDINGS.txt, standin=c02-reported-divergences) is a violation; once repaired the probe is silent.
REPORTED = {
    "ci-fold:kelvin-sign": ('r = { (^"k" | "x") ~ EOI }', "r", "\u212a"),
    "ci-fold:long-s": ('r = { (^"s" | "x") ~ EOI }', "r", "\u017f"),
    "ci-fold:sharp-s": ('r = { (^"ss" | "x") ~ EOI }', "r", "\u00df"),
    "tag-popped-inside-negative-predicate": ('foo = { "a" }\nbar = { "a" }\nr = { #t=((!foo ~ ANY)* ~ bar) }', "r", "xxa"),
}


def reported_divergences() -> dict:
    from pest import Parser
    from pest.exceptions import PestParsingError

    from .common import standin_findings

    listed = standin_findings(PROPERTY, "c02-reported-divergences")
    bad, known_lines = [], []
    n = 0
    for case, (g, rule, text) in REPORTED.items():
        outs = []
        for opt in (False, True):
            n += 1
            p = Parser.from_grammar(g) if opt else Parser.from_grammar(g, optimizer=None)
            try:
                outs.append(("ok", p.parse(rule, text).dumps()))
            except PestParsingError:
                outs.append(("fail", None))
            except Exception as e:  # noqa: BLE001
                outs.append(("raised", type(e).__name__))
        if outs[0] != outs[1]:
            if case in listed:
                known_lines.append(listed[case])
            else:
                bad.append({"case": case, "grammar": g, "rule": rule, "text": text, "unoptimized": outs[0], "optimized": outs[1]})
    return {"name": "c02-reported-divergences", "kind": "bounded stand-in (probes of reported inputs on the real library)", "evaluations": n,
            "bound": f"{len(REPORTED)} reported grammar/input pairs, optimizer=None vs default", "violation": bool(bad), "details": bad[:4], "known_lines": known_lines}


def extra_checks(tier, seed):
    return [differential(), reported_divergences()]
