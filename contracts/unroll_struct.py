"""Bounded structural check (concrete execution of the real code on schematic instances):
`unroll(X(e, ...))` is the sequence the property names for each bounded repetition form.

Bounded in the numeric parameters (0..MAX_N); labelled bounded, never counted as proved.
"""
from __future__ import annotations

MAX_N = 5


def check() -> dict:
    from pest.grammar import Optional, Repeat, RepeatExact, RepeatMax, RepeatMin, RepeatMinMax, RepeatOnce, Sequence, String
    from pest.grammar.optimizers.unroller import unroll

    e = String("e")
    cases = 0
    bad = []

    def shape(x):
        if x is e:
            return "e"
        if isinstance(x, Sequence):
            return ("seq", [shape(c) for c in x.expressions])
        if isinstance(x, Optional):
            return ("opt", shape(x.expression))
        if isinstance(x, Repeat):
            return ("star", shape(x.expression))
        return ("other", type(x).__name__)

    def expect(name, node, want):
        nonlocal cases
        cases += 1
        got = shape(unroll(node, {}))
        if got != want:
            bad.append({"node": name, "got": got, "want": want})
        # the postfix classes' own helper must be the same function of the node
        from pest.grammar.expressions import postfix

        if hasattr(postfix, "_unrolled") and not isinstance(node, RepeatOnce):
            cases += 1
            if shape(postfix._unrolled(node)) != want:  # noqa: SLF001
                bad.append({"node": name + " via postfix._unrolled", "got": shape(postfix._unrolled(node)), "want": want})  # noqa: SLF001

    for n in range(MAX_N + 1):
        expect(f"e{{{n}}}", RepeatExact(e, n), ("seq", ["e"] * n))
        expect(f"e{{{n},}}", RepeatMin(e, n), ("seq", ["e"] * n + [("star", "e")]))
        expect(f"e{{,{n}}}", RepeatMax(e, n), ("seq", [("opt", "e")] * n))
        for m in range(n + 1):
            expect(f"e{{{m},{n}}}", RepeatMinMax(e, m, n), ("seq", ["e"] * m + [("opt", "e")] * (n - m)))
    expect("e+", RepeatOnce(e), ("seq", ["e", ("star", "e")]))
    return {
        "name": "unroll-structure",
        "kind": "bounded stand-in (concrete execution of the real unroll() on schematic instances)",
        "bound": f"numeric parameters 0..{MAX_N}",
        "evaluations": cases,
        "violation": bool(bad),
        "details": bad[:5],
    }
