"""C10, lexical layer: the scanner's token regexes against the lexical productions of tests/grammars/meta.pest,
for ALL strings, decided with the solvers' regular-expression theory.

Both sides are translated mechanically:

  production -> RE     T(e, K) = { w : the PEG expression e succeeds on w and the rest of w is in K }  (K: continuation)
        T("s", K)        = s . K                      T('a'..'b', K) = [a-b] . K          T(ANY, K) = Sigma . K
        T(e1 ~ e2, K)    = T(e1, T(e2, K))            (lexical productions are atomic: no implicit trivia)
        T(e1 | e2, K)    = T(e1, K)  u  (T(e2, K) n not M(e1))          M(e) = T(e, Sigma*)  (inputs on which e succeeds)
        T(!e, K)         = K n not M(e)               T(&e, K) = K n M(e)
        T(e?, K)         = T(e, K)  u  (K n not M(e))
        T(e*, K)         = R* . (K n not (R . Sigma*))   only when e is a prefix-free set R of strings/classes (checked)
        T(e+, K)         = T(e ~ e*, K)               T(e{n}), T(e{m,n}) as their unrolled sequences
        T(name, K)       = T(body of name, K)         (no recursion among the lexical productions used here)
     This is the exact PEG semantics (ordered choice, greedy repetition, no backtracking) of non-recursive expressions.
  regex -> RE           from the pattern text of the constant in the imported pest.grammar.scanner (parsed by the standard
     library's re._parser), also in continuation style so that look-aheads see what follows:
        R(lit) R(class) R(.) concatenation, alternation = union, repeats = star/loop (existence-of-a-match semantics of a
        backtracking engine = language semantics);  (?!X) rest = rest n not (X . Sigma*);  (?=X) rest = rest n X . Sigma*

Obligations per pair <regex constant, production>:
  language      L(regex) = T(production, {""})                     a string is a token of this kind iff the meta-grammar says so
  matches_at    L(regex with continuation Sigma*) = M(production)   the regex matches at a position iff the production does
Keywords (no production of their own: POP, PEEK ... are identifiers in meta.pest):
  keyword       the keyword regex matches at a position iff the identifier production consumes exactly that word there

NOT decided here (assumption, validated by the bounded differential): that regex.match returns the same END as the
production when both match (maximal munch for these shapes), the recursive RE_BLOCK_COMMENT, and the productions with
multi-character negative look-ahead inside a repetition (inner_doc, line_comment bodies).
"""
from __future__ import annotations

import re as _re
from typing import Any

import z3

from replay import metaspec as ms

RS = z3.ReSort(z3.StringSort())
SIGMA = z3.AllChar(RS)
ALL = z3.Full(RS)
EPS = z3.Re("")
NONE = z3.Empty(RS)


class Unsupported(Exception):
    pass


def _union(*rs):
    rs = [r for r in rs if r is not NONE]
    if not rs:
        return NONE
    return rs[0] if len(rs) == 1 else z3.Union(*rs)


def _cat(a, b):
    if a is EPS:
        return b
    if b is EPS:
        return a
    return z3.Concat(a, b)


def _chr_re(c: str):
    return z3.Re(c)


# --------------------------------------------------------------------------- productions
def _resolve(e: Any, rules: dict) -> Any:
    while type(e).__name__ == "Identifier" and e.value in rules and type(rules[e.value]).__name__ == "GrammarRule":
        e = rules[e.value].expression
    return e


def simple_set(e: Any, rules: dict) -> list[Any] | None:
    """e as a set of literal strings / one-character classes (flattened choice), or None"""
    e = _resolve(e, rules)
    k = type(e).__name__
    if k == "String":
        return [("s", e.value)]
    if k == "Range":
        return [("r", e.start, e.stop)]
    if k == "Identifier" and e.value == "ANY":
        return [("any",)]
    if k == "Choice":
        out: list[Any] = []
        for x in e.expressions:
            s = simple_set(x, rules)
            if s is None:
                return None
            out += s
        return out
    return None


def _prefix_free(items: list[Any]) -> bool:
    """no member can match a proper prefix of (or the same first characters as) another: the ordered choice is a set"""
    def first(it):
        if it[0] == "s":
            return (it[1][:1], it[1][:1])
        if it[0] == "r":
            return (it[1], it[2])
        return ("\0", "\U0010ffff")

    for i, a in enumerate(items):
        for b in items[i + 1 :]:
            fa, fb = first(a), first(b)
            if a[0] == "s" and a[1] == "":
                return False
            if fa[0] <= fb[1] and fb[0] <= fa[1]:
                # overlapping first characters: allowed only for two different strings none a prefix of the other
                if a[0] == "s" and b[0] == "s" and not a[1].startswith(b[1]) and not b[1].startswith(a[1]):
                    continue
                return False
    return True


def _set_re(items: list[Any]):
    rs = []
    for it in items:
        if it[0] == "s":
            rs.append(z3.Re(it[1]))
        elif it[0] == "r":
            rs.append(z3.Range(it[1], it[2]))
        else:
            rs.append(SIGMA)
    return _union(*rs)


def T(e: Any, K: Any, rules: dict, depth: int = 0) -> Any:  # noqa: N802, N803, C901, PLR0911, PLR0912
    if depth > 40:
        raise Unsupported("recursive production")
    k = type(e).__name__
    if k == "String":
        return _cat(z3.Re(e.value), K)
    if k == "Range":
        return _cat(z3.Range(e.start, e.stop), K)
    if k == "Identifier":
        if e.value == "ANY":
            return _cat(SIGMA, K)
        if e.value in ("SOI", "EOI"):
            raise Unsupported(e.value)
        return T(rules[e.value].expression, K, rules, depth + 1)
    if k == "Sequence":
        for x in reversed(e.expressions):
            K = T(x, K, rules, depth + 1)  # noqa: N806
        return K
    if k == "Choice":
        out = NONE
        blocked: list[Any] = []
        for x in e.expressions:
            t = T(x, K, rules, depth + 1)
            for m in blocked:
                t = z3.Intersect(t, z3.Complement(m))
            out = _union(out, t)
            blocked.append(M(x, rules, depth + 1))
        return out
    if k == "NegativePredicate":
        return z3.Intersect(K, z3.Complement(M(e.expression, rules, depth + 1)))
    if k == "PositivePredicate":
        return z3.Intersect(K, M(e.expression, rules, depth + 1))
    if k == "Optional":
        return _union(T(e.expression, K, rules, depth + 1), z3.Intersect(K, z3.Complement(M(e.expression, rules, depth + 1))))
    if k in ("Repeat", "RepeatOnce"):
        items = simple_set(e.expression, rules)
        if items is None or not _prefix_free(items):
            raise Unsupported("repetition over an expression that is not a prefix-free set of literals/classes")
        r = _set_re(items)
        star = _cat(z3.Star(r), z3.Intersect(K, z3.Complement(z3.Concat(r, ALL))))
        return star if k == "Repeat" else _cat(r, star)
    if k == "RepeatExact":
        for _ in range(e.number):
            K = T(e.expression, K, rules, depth + 1)  # noqa: N806
        return K
    if k == "RepeatMinMax":
        for _ in range(e.max - e.min):
            K = _union(T(e.expression, K, rules, depth + 1), z3.Intersect(K, z3.Complement(M(e.expression, rules, depth + 1))))  # noqa: N806
        for _ in range(e.min):
            K = T(e.expression, K, rules, depth + 1)  # noqa: N806
        return K
    raise Unsupported(k)


def M(e: Any, rules: dict, depth: int = 0) -> Any:  # noqa: N802
    return T(e, ALL, rules, depth)


# --------------------------------------------------------------------------- regexes
def _class_re(items, flags) -> Any:
    from re import _constants as c  # type: ignore[attr-defined]

    neg = False
    rs = []
    for op, av in items:
        if op is c.NEGATE:
            neg = True
        elif op is c.LITERAL:
            rs.append(z3.Re(chr(av)))
        elif op is c.RANGE:
            rs.append(z3.Range(chr(av[0]), chr(av[1])))
        elif op is c.CATEGORY:
            raise Unsupported(f"category {av}")
        else:
            raise Unsupported(str(op))
    r = _union(*rs)
    return z3.Intersect(SIGMA, z3.Complement(r)) if neg else r


def R(items: list[Any], K: Any, flags: int) -> Any:  # noqa: N802, N803, C901, PLR0912
    """sre parse tree (list of (op, arg)) followed by continuation K"""
    from re import _constants as c  # type: ignore[attr-defined]

    for idx in range(len(items) - 1, -1, -1):
        op, av = items[idx]
        if op is c.LITERAL:
            K = _cat(z3.Re(chr(av)), K)  # noqa: N806
        elif op is c.NOT_LITERAL:
            K = _cat(z3.Intersect(SIGMA, z3.Complement(z3.Re(chr(av)))), K)  # noqa: N806
        elif op is c.IN:
            K = _cat(_class_re(av, flags), K)  # noqa: N806
        elif op is c.ANY:
            dot = SIGMA if flags & _re.DOTALL else z3.Intersect(SIGMA, z3.Complement(z3.Re("\n")))
            K = _cat(dot, K)  # noqa: N806
        elif op is c.BRANCH:
            K = _union(*[R(list(alt), K, flags) for alt in av[1]])  # noqa: N806
        elif op is c.SUBPATTERN:
            _g, add, _del, sub = av
            K = R(list(sub), K, flags | add)  # noqa: N806
        elif op in (c.MAX_REPEAT, c.MIN_REPEAT, getattr(c, "POSSESSIVE_REPEAT", None)):
            lo, hi, sub = av
            body = R(list(sub), EPS, flags)
            rep = z3.Star(body) if hi is c.MAXREPEAT and lo == 0 else z3.Plus(body) if hi is c.MAXREPEAT and lo == 1 else None
            if rep is None:
                rep = z3.Concat(z3.Loop(body, lo, lo), z3.Star(body)) if hi is c.MAXREPEAT else z3.Loop(body, lo, hi)
            K = _cat(rep, K)  # noqa: N806
        elif op is c.ASSERT_NOT:
            direction, sub = av
            if direction != 1:
                raise Unsupported("look-behind")
            K = z3.Intersect(K, z3.Complement(R(list(sub), ALL, flags)))  # noqa: N806
        elif op is c.ASSERT:
            direction, sub = av
            if direction != 1:
                raise Unsupported("look-behind")
            K = z3.Intersect(K, R(list(sub), ALL, flags))  # noqa: N806
        else:
            raise Unsupported(str(op))
    return K


def regex_re(pattern: str, flags: int, K: Any) -> Any:  # noqa: N803
    from re import _parser  # type: ignore[attr-defined]

    tree = _parser.parse(pattern, flags & (_re.DOTALL | _re.IGNORECASE))
    if flags & _re.IGNORECASE:
        raise Unsupported("IGNORECASE")
    return R(list(tree), K, flags)


# --------------------------------------------------------------------------- the pairs
def _plus(name: str):
    return ms.RepeatOnce(ms.Identifier(name, None))


PAIRS: list[tuple[str, str, Any]] = [
    # (label, scanner constant, production expression (MiniReader nodes))
    ("identifier", "RE_IDENTIFIER", ms.Identifier("identifier", None)),
    ("tag_id", "RE_TAG", ms.Identifier("tag_id", None)),
    ("number", "RE_NUMBER", ms.Identifier("number", None)),
    ("integer", "RE_INTEGER", ms.Identifier("integer", None)),
    ("range_operator", "RE_RANGE_OP", ms.Identifier("range_operator", None)),
    ("character", "RE_CHAR", ms.Identifier("character", None)),
    ("modifier", "RE_MODIFIER", ms.Identifier("modifier", None)),
    ("newline", "RE_NEWLINE", ms.Identifier("newline", None)),
    ("whitespace+", "RE_WHITESPACE", _plus("WHITESPACE")),
    ("grammar_doc.opener", "RE_GRAMMAR_DOC", ms.String("//!")),
    ("line_doc.opener", "RE_RULE_DOC", ms.String("///")),
    ("push", "RE_PUSH", ms.String("PUSH")),
    ("push_literal", "RE_PUSH_LITERAL", ms.String("PUSH_LITERAL")),
]
KEYWORDS = [("POP", "RE_POP"), ("POP_ALL", "RE_POP_ALL"), ("PEEK", "RE_PEEK"), ("PEEK_ALL", "RE_PEEK_ALL"), ("DROP", "RE_DROP")]


def lexical_obligations() -> list[tuple[str, Any, dict, str]]:
    """-> [(clause, goal, watch, note)]; goal None = the pair is outside the translatable subset (reported undecided)"""
    import importlib

    sc = importlib.import_module("pest.grammar.scanner")
    rules = ms.meta_rules()
    s = z3.String("w")
    out: list[tuple[str, Any, dict, str]] = []
    for label, const, prod in PAIRS:
        rx = getattr(sc, const, None)
        if rx is None:
            # the scanner no longer has this constant: the pair cannot be stated - undecided (update the table), not a violation
            out.append((f"lex.{label}.language", None, {}, f"scanner constant {const} not found: the lexical pair <{const}, {label}> can no longer be stated"))
            continue
        try:
            lr = regex_re(rx.pattern, rx.flags, EPS)
            lp = T(prod, EPS, rules)
            mr = regex_re(rx.pattern, rx.flags, ALL)
            mp = M(prod, rules)
        except Unsupported as ex:
            out.append((f"lex.{label}.language", None, {}, f"outside the translatable subset: {ex} (pattern {rx.pattern!r})"))
            continue
        note = f"{const} = {rx.pattern!r}"
        out.append((f"lex.{label}.language", z3.InRe(s, lr) == z3.InRe(s, lp), {"w": s}, note))
        out.append((f"lex.{label}.matches_at", z3.InRe(s, mr) == z3.InRe(s, mp), {"w": s}, note))
    # keywords: the regex matches at a position iff the identifier production consumes exactly that word
    ident = rules["identifier"].expression
    tail = None
    for x in ident.expressions:
        if type(x).__name__ == "Repeat":
            tail = _set_re(simple_set(x.expression, rules) or [])
    for word, const in KEYWORDS:
        rx = getattr(sc, const, None)
        if rx is None or tail is None:
            out.append((f"lex.keyword[{word}]", None, {}, f"{const} or the identifier tail class not found"))
            continue
        try:
            mr = regex_re(rx.pattern, rx.flags, ALL)
        except Unsupported as ex:
            out.append((f"lex.keyword[{word}]", None, {}, str(ex)))
            continue
        want = z3.Intersect(M(ms.Identifier("identifier", None), rules), z3.Concat(z3.Re(word), z3.Complement(z3.Concat(tail, ALL))))
        out.append((f"lex.keyword[{word}]", z3.InRe(s, mr) == z3.InRe(s, want), {"w": s}, f"{const} = {rx.pattern!r}"))
    return out
