"""C01 - the code emitted by every Expression.generate() refines the SAME contract K as the class' parse().

The text verified is obtained on every run by calling the real generate() of the current tree
with stub children (pyvc/emit.py).  Differences from the interpreter harness:
  * `matched` is unassigned at entry (a template correct only inside a wrapper is refuted);
  * a failing child may leave junk in the list it was given (template_mode), so the template must
    clear or never commit its scratch list; on failure the template itself may leave junk: the
    clause is `P0 is a prefix of pairs` instead of `pairs == P0`;
  * n-ary templates are unrolled by the generator: arity is instantiated (0..MAX_ARITY).
"""
from __future__ import annotations

import ast
import re as _re
from typing import Any

import z3

from pyvc import emit
from pyvc.engine import PyExc, Run
from pyvc.values import BoundMethod, ModuleV, Ref, Sym, wrap, z

from . import ops
from .ops import C, EMPTY_P, MatchV, R, RegexV, TV, ci_match, in_range
from .pstate import FIELDS, G, INP, PSTATE, W1, lget, mkpair, r_mod, r_name, wf, wf_state


class TplFn:
    def __init__(self, kind: str, arg: Any = None):
        self.kind = kind
        self.arg = arg


# ---------------------------------------------------------------- assumed regex semantics (DESIGN 3.5; details: C12)
def other_case(ch):
    """the other-case ASCII letter of a 1-char string, or the char itself"""
    code = z3.StrToCode(ch)
    return z3.If(z3.And(code >= 65, code <= 90), z3.StrFromCode(code + 32), z3.If(z3.And(code >= 97, code <= 122), z3.StrFromCode(code - 32), ch))


def regex_from_constant(expr_text: str) -> RegexV:
    """`re.compile(<pattern literal>, <flags>)` -> assumed semantics for the shapes the library builds."""
    tree = ast.parse(expr_text, mode="eval").body
    assert isinstance(tree, ast.Call)
    pattern = ast.literal_eval(tree.args[0])
    flags = ast.unparse(tree.args[1]) if len(tree.args) > 1 else ""
    ignore_case = "re.I" in flags.split("|") or flags.strip() == "re.I" or "re.I " in flags or flags.endswith("re.I")
    m = _re.fullmatch(r"\[(\\?.)-(\\?.)\]", pattern, _re.S)
    if m:
        a, b = m.group(1)[-1], m.group(2)[-1]
        A, B = z3.StringVal(a), z3.StringVal(b)  # noqa: N806

        def sem(inp, pos):
            ch = z3.SubString(inp, pos, 1)
            inside = z3.And(pos >= 0, pos < z3.Length(inp))
            hit = z3.And(A <= ch, ch <= B)
            if ignore_case:
                oc = other_case(ch)
                hit = z3.Or(hit, z3.And(A <= oc, oc <= B))
            return z3.And(inside, hit), pos + 1

        return RegexV(sem)
    # escaped literal (CIString): every char is either plain or backslash-escaped
    lit = _re.sub(r"\\(.)", r"\1", pattern, flags=_re.S)
    import regex

    if regex.escape(lit) == pattern:
        v = z3.StringVal(lit)
        if ignore_case:
            return RegexV(lambda inp, pos: (ci_match(v, inp, pos), pos + len(lit)))
        return RegexV(lambda inp, pos: (z3.And(pos <= z3.Length(inp), z3.SubString(inp, pos, len(lit)) == v), pos + len(lit)))
    # anything else: an opaque pattern (its meaning is C12's business); same symbol for same (pattern, flags)
    key = abs(hash((pattern, flags))) % (10**9)
    m_ok = z3.Function(f"rx{key}_ok", z3.StringSort(), z3.IntSort(), z3.BoolSort())
    m_end = z3.Function(f"rx{key}_end", z3.StringSort(), z3.IntSort(), z3.IntSort())
    return RegexV(lambda inp, pos: (m_ok(inp, pos), m_end(inp, pos)))


class TemplateMixin:
    template_mode = True
    template_names = True
    node_label = ""

    def build(self):
        """-> (code text, FunctionDef, constants)"""
        raise NotImplementedError

    def source(self, engine):
        src, fn, consts = self.build()
        self._consts = {name: expr for name, expr in consts}
        self._src = src
        return emit.funcinfo(self.label or self.target, src, fn)

    def setup(self, run: Run):
        _me, args, kw = super().setup(run)  # type: ignore[misc]
        if getattr(self, "_label", None) is not None:
            run.pre["label"] = self._label
        return None, args, kw

    # names the emitted code uses
    def resolve_name(self, run: Run, name: str):
        if name.startswith("__child_"):
            return TplFn("child", int(name[len("__child_"):]))
        if name == "parse_trivia":
            return TplFn("tv")
        if name.startswith("parse_"):
            return TplFn("rule", name[len("parse_"):])
        if name == "Pair":
            return TplFn("Pair")
        if name == "rule_frame":
            return run.pre["me"]
        if name in getattr(self, "_consts", {}):
            ex = self._consts[name]
            if ex.startswith("re.compile("):
                return regex_from_constant(ex)
            return self.constant_value(run, name, ex)
        if name == "re":
            return ModuleV("regex")
        return NotImplemented

    def constant_value(self, run: Run, name: str, ex: str):
        return NotImplemented

    def call_value(self, run: Run, f: Any, args, kwargs, n):
        if isinstance(f, TplFn):
            if f.kind == "child":
                return self.oracle_call(run, C, f.arg, args[0], args[1])  # type: ignore[attr-defined]
            if f.kind == "tv":
                return self.oracle_call(run, TV, 0, args[0], args[1])  # type: ignore[attr-defined]
            if f.kind == "rule":
                return self.oracle_call(run, R, f.arg, args[0], args[1])  # type: ignore[attr-defined]
            if f.kind == "Pair":
                _inp, start, end, rule, ch, tag = args
                rt = run.obj(rule)["$term"]
                if isinstance(ch, Ref):
                    t, _ = run.as_seq(ch, None, "pair")
                else:
                    t, _ = run.as_seq(ch, None, "pair")
                return Sym(mkpair(r_name(rt), z(start, "int"), z(end, "int"), t, z(tag, "optstr")), "pair")
        return NotImplemented

    def post(self, run: Run, pre: Any, out: Any) -> None:
        L0, P0 = pre["L0"], pre["P0"]  # noqa: N806
        for f in self.template_facts(run):
            run.assume(f)
        ok, L1, prs = self.K(run, L0)  # type: ignore[attr-defined]  # noqa: N806
        Lc = self.cur(run)  # type: ignore[attr-defined]  # noqa: N806
        okc = z(out) if not isinstance(out, bool) else z3.BoolVal(out)
        w = {"pos0": lget(L0, "pos"), "pos1": lget(Lc, "pos"), "posK": lget(L1, "pos"), "okK": ok, "inp": INP,
             "stk0": lget(L0, "stk"), "stk1": lget(Lc, "stk"), "stkK": lget(L1, "stk")}
        run.oblige("K.ok", okc == ok, w)
        for f in FIELDS:
            cond = z3.BoolVal(True) if f in self.fail_care else ok  # type: ignore[attr-defined]
            run.oblige(f"K.st.{f}", z3.Implies(cond, lget(Lc, f) == lget(L1, f)), w)
        now = self.pairs_now(run)  # type: ignore[attr-defined]
        run.oblige("K.pairs", z3.If(ok, now == z3.Concat(P0, prs), z3.PrefixOf(P0, now)), w)
        run.oblige("frame.snaps", self.snaps_same(run), w)  # type: ignore[attr-defined]
        for i, g in enumerate(G(L0, okc, Lc, prs)[:-1]):
            run.oblige(f"G.{i}", g, w)
        p0, p1 = lget(L0, "pos"), lget(L1, "pos")
        run.assume(W1(p0, p1))
        for h in self.wf_hints(run, L0, ok, L1, prs):  # type: ignore[attr-defined]
            run.assume(h)
        run.oblige("G.wf", z3.Implies(ok, wf(prs, p0, p1)), w)


    def template_facts(self, run: Run) -> list[z3.BoolRef]:
        """unfolding instances of recursive Spec symbols at the states this straight-line path visited"""
        return []


def nary_facts(unfold):
    def facts(self, run: Run):
        out = []
        for fam, i, L in run.ghost.get("oracle_calls", []):  # noqa: N806
            if fam[0].name() == "c_ok":
                out += unfold(i, L)
        out += unfold(ops.N, self.cur(run))
        # wf of the concatenation built along this path (instances of W2)
        from .pstate import W2

        p0 = lget(run.pre["L0"], "pos")
        acc = EMPTY_P
        out.append(W1(p0, p0))
        for fam, i, L in run.ghost.get("oracle_calls", []):  # noqa: N806
            P, L2 = fam[2](i, L), fam[1](i, L)  # noqa: N806
            out.append(W2(acc, P, p0, lget(L, "pos"), lget(L2, "pos")))
            acc = z3.Concat(acc, P)
        return out

    return facts


def stub(k: int):
    return emit.stub_class()(k)


def expr_template(code: str, consts):
    src, fn = emit.as_function(code, "__template")
    return src, fn, consts


# ================================================================== loop-free templates
def make(base, label: str, node_fn, self_fields=None, loops=None, arity=None, facts=None):
    """Template spec for interpreter spec class `base`, node built by node_fn()."""

    class T(TemplateMixin, base):  # type: ignore[misc, valid-type]
        def __init__(self):
            base.__init__(self)
            self.label = label
            self.target = label
            if loops is not None:
                self.loops = loops(self)

        def build(self):
            code, consts = emit.emit_expression(node_fn())
            return expr_template(code, consts)

        def mk_self(self, run):
            run.pre = getattr(run, "pre", None) or {}
            self._label = str(node_fn())
            if self_fields is not None:
                return run.heap.alloc(self.cls, self_fields(run), fresh=False)
            me = base.mk_self(self, run)
            if arity is not None:
                run.assume(ops.N == arity)
            return me

    if facts is not None:
        T.template_facts = facts  # type: ignore[method-assign]
    T.__name__ = "T_" + _re.sub(r"\W+", "_", label)
    return T()


def _gx():
    import types

    import pest.grammar as g0
    from pest.grammar.expressions import terminals

    gx = types.SimpleNamespace(**{k: getattr(g0, k) for k in dir(g0) if not k.startswith("_")})
    from pest.grammar.expressions import choice, group, postfix, prefix, sequence

    for mod in (terminals, choice, group, postfix, prefix, sequence):
        for k in dir(mod):
            v = getattr(mod, k)
            if isinstance(v, type) and v.__module__ == mod.__name__:
                setattr(gx, k, v)
    return gx


def terminal_templates():
    gx = _gx()
    from pest.grammar.rules.special import _EOI, _SOI, _Any

    out = []
    for v in ("", "a", "ab", "\n", "é"):
        out.append(make(ops.StringSpec, f"template:String({v!r})", lambda v=v: gx.String(v), lambda run, v=v: {"value": v, "tag": None}))
    for v in ("ab", "A", "a-b"):
        out.append(make(ops.CIStringSpec, f"template:CIString({v!r})", lambda v=v: gx.CIString(v), lambda run, v=v: {"value": v, "tag": None}))
    for a, b in (("a", "z"), ("0", "9"), ("A", "Z"), ("-", "-"), ("é", "ü")):
        out.append(make(ops.RangeSpec, f"template:Range({a!r},{b!r})", lambda a=a, b=b: gx.Range(a, b), lambda run, a=a, b=b: {"start": a, "stop": b, "tag": None}))
    out.append(make(ops.AnySpec, "template:_Any", lambda: _Any()))
    out.append(make(ops.SOISpec, "template:_SOI", lambda: _SOI()))
    out.append(make(ops.EOISpec, "template:_EOI", lambda: _EOI()))
    return out


def stack_templates():
    gx = _gx()
    out = [
        make(ops.PushLiteralSpec, "template:PushLiteral('ab')", lambda: gx.PushLiteral("ab"), lambda run: {"value": "ab", "tag": None}),
        make(ops.PushSpec, "template:Push", lambda: gx.Push(stub(0))),
        make(ops.PeekSpec, "template:Peek", lambda: gx.Peek()),
        make(ops.PopSpec, "template:Pop", lambda: gx.Pop()),
        make(ops.DropSpec, "template:Drop", lambda: gx.Drop()),
    ]
    return out


def combinator_templates(max_arity: int = 3):
    gx = _gx()
    out = [
        make(ops.OptionalSpec, "template:Optional", lambda: gx.Optional(stub(0))),
        make(ops.PosPredSpec, "template:PositivePredicate", lambda: gx.PositivePredicate(stub(0))),
        make(ops.NegPredSpec, "template:NegativePredicate", lambda: gx.NegativePredicate(stub(0))),
        make(ops.GroupSpec, "template:Group", lambda: gx.Group(stub(0))),
        make(ops.TaggedGroupSpec, "template:Group[tagged]", lambda: gx.Group(stub(0), "t"),
             lambda run: {"expression": ops.Child(0, "c"), "tag": "t"}),
    ]
    for k in range(0, max_arity + 1):
        out.append(make(ops.ChoiceSpec, f"template:Choice[{k}]", lambda k=k: gx.Choice(*[stub(i) for i in range(k)]), arity=k, facts=nary_facts(ops.ch_unfold)))
        out.append(make(ops.SequenceSpec, f"template:Sequence[{k}]", lambda k=k: gx.Sequence(*[stub(i) for i in range(k)]), arity=k, facts=nary_facts(ops.sq_unfold)))
    return out
