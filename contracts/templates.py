"""C01 - the code emitted by every Expression.generate() refines the SAME contract K as the class' parse().

The text verified is obtained on every run by calling the real generate() of the current tree
with stub children (pyvc/emit.py).  Differences from the interpreter harness:
  * `matched` is unassigned at entry (a template correct only inside a wrapper is refuted);
  * a failing child may leave junk in the list it was given (template_mode), so the template must
    clear or never commit its scratch list; on failure the template itself may leave junk: the
    clause is `P0 is a prefix of pairs` instead of `pairs == P0`;
  * n-ary templates are unrolled by the generator: arity is instantiated (0..MAX_ARITY).
"""
from __future__ import annotations

import ast
import re as _re
from typing import Any

import z3

from pyvc import emit
from pyvc.driver import FunctionSpec
from pyvc.engine import PyExc, Run
from pyvc.values import BoundMethod, ModuleV, Ref, Sym, wrap, z

from . import ops
from .ops import C, EMPTY_P, MatchV, R, RegexV, TV, ci_match, in_range
from .pstate import FIELDS, G, INP, PSTATE, W1, lget, mkpair, r_mod, r_name, wf, wf_state


_TRIVIA_HELPER: list[str] = []


def trivia_helper_name() -> str:
    """the module-level name of the implicit-trivia helper, read from what the real generate_parse_trivia emits"""
    if not _TRIVIA_HELPER:
        import re as _re

        from pest.grammar.codegen.generate import generate_parse_trivia

        m = _re.match(r"def (\w+)\(state", generate_parse_trivia({}))
        _TRIVIA_HELPER.append(m.group(1) if m else "parse_trivia")
    return _TRIVIA_HELPER[0]


class TplFn:
    def __init__(self, kind: str, arg: Any = None):
        self.kind = kind
        self.arg = arg


# ---------------------------------------------------------------- assumed regex semantics (DESIGN 3.5; details: C12)
def other_case(ch):
    """the other-case ASCII letter of a 1-char string, or the char itself"""
    code = z3.StrToCode(ch)
    return z3.If(z3.And(code >= 65, code <= 90), z3.StrFromCode(code + 32), z3.If(z3.And(code >= 97, code <= 122), z3.StrFromCode(code - 32), ch))


def regex_from_constant(expr_text: str) -> RegexV:
    """`re.compile(<pattern literal>, <flags>)` -> assumed semantics for the shapes the library builds."""
    tree = ast.parse(expr_text, mode="eval").body
    assert isinstance(tree, ast.Call)
    pattern = ast.literal_eval(tree.args[0])
    flags = ast.unparse(tree.args[1]) if len(tree.args) > 1 else ""
    ignore_case = "re.I" in flags.split("|") or flags.strip() == "re.I" or "re.I " in flags or flags.endswith("re.I")
    m = _re.fullmatch(r"\[(\\?.)-(\\?.)\]", pattern, _re.S)
    if m:
        a, b = m.group(1)[-1], m.group(2)[-1]
        A, B = z3.StringVal(a), z3.StringVal(b)  # noqa: N806

        def sem(inp, pos):
            ch = z3.SubString(inp, pos, 1)
            inside = z3.And(pos >= 0, pos < z3.Length(inp))
            hit = z3.And(A <= ch, ch <= B)
            if ignore_case:
                oc = other_case(ch)
                hit = z3.Or(hit, z3.And(A <= oc, oc <= B))
            return z3.And(inside, hit), pos + 1

        return RegexV(sem)
    # escaped literal (CIString): every char is either plain or backslash-escaped
    lit = _re.sub(r"\\(.)", r"\1", pattern, flags=_re.S)
    import regex

    if regex.escape(lit) == pattern:
        v = z3.StringVal(lit)
        if ignore_case:
            return RegexV(lambda inp, pos: (ci_match(v, inp, pos), pos + len(lit)))
        return RegexV(lambda inp, pos: (z3.And(pos <= z3.Length(inp), z3.SubString(inp, pos, len(lit)) == v), pos + len(lit)))
    # anything else: an opaque pattern (its meaning is C12's business); same symbol for same (pattern, flags)
    key = abs(hash((pattern, flags))) % (10**9)
    m_ok = z3.Function(f"rx{key}_ok", z3.StringSort(), z3.IntSort(), z3.BoolSort())
    m_end = z3.Function(f"rx{key}_end", z3.StringSort(), z3.IntSort(), z3.IntSort())
    return RegexV(lambda inp, pos: (m_ok(inp, pos), m_end(inp, pos)))


class TemplateMixin:
    template_mode = True
    template_names = True
    node_label = ""

    def build(self):
        """-> (code text, FunctionDef, constants)"""
        raise NotImplementedError

    def source(self, engine):
        src, fn, consts = self.build()
        self._consts = {name: expr for name, expr in consts}
        self._src = src
        return emit.funcinfo(self.label or self.target, src, fn)

    def setup(self, run: Run):
        _me, args, kw = super().setup(run)  # type: ignore[misc]
        if getattr(self, "_label", None) is not None:
            run.pre["label"] = self._label
        return None, args, kw

    # names the emitted code uses
    def resolve_name(self, run: Run, name: str):
        if name.startswith("__child_"):
            return TplFn("child", int(name[len("__child_"):]))
        if name == trivia_helper_name():
            return TplFn("tv")
        if name.startswith("parse_"):
            return TplFn("rule", name[len("parse_"):])
        if name == "Pair":
            return TplFn("Pair")
        if name == "rule_frame":
            return run.pre["me"]
        if name in getattr(self, "_consts", {}):
            ex = self._consts[name]
            if ex.startswith("re.compile("):
                return regex_from_constant(ex)
            return self.constant_value(run, name, ex)
        if name == "re":
            return ModuleV("regex")
        return NotImplemented

    def constant_value(self, run: Run, name: str, ex: str):
        return NotImplemented

    def call_value(self, run: Run, f: Any, args, kwargs, n):
        if isinstance(f, TplFn):
            if f.kind == "child":
                return self.oracle_call(run, C, f.arg, args[0], args[1])  # type: ignore[attr-defined]
            if f.kind == "tv":
                return self.oracle_call(run, TV, 0, args[0], args[1])  # type: ignore[attr-defined]
            if f.kind == "rule":
                return self.oracle_call(run, R, f.arg, args[0], args[1])  # type: ignore[attr-defined]
            if f.kind == "Pair":
                _inp, start, end, rule, ch, tag = args
                rt = run.obj(rule)["$term"]
                if isinstance(ch, Ref):
                    t, _ = run.as_seq(ch, None, "pair")
                else:
                    t, _ = run.as_seq(ch, None, "pair")
                return Sym(mkpair(r_name(rt), z(start, "int"), z(end, "int"), t, z(tag, "optstr")), "pair")
        return NotImplemented

    def post(self, run: Run, pre: Any, out: Any) -> None:
        L0, P0 = pre["L0"], pre["P0"]  # noqa: N806
        for f in self.template_facts(run):
            run.assume(f)
        ok, L1, prs = self.K(run, L0)  # type: ignore[attr-defined]  # noqa: N806
        Lc = self.cur(run)  # type: ignore[attr-defined]  # noqa: N806
        okc = z(out) if not isinstance(out, bool) else z3.BoolVal(out)
        w = {"pos0": lget(L0, "pos"), "pos1": lget(Lc, "pos"), "posK": lget(L1, "pos"), "okK": ok, "inp": INP,
             "stk0": lget(L0, "stk"), "stk1": lget(Lc, "stk"), "stkK": lget(L1, "stk")}
        run.oblige("K.ok", okc == ok, w)
        for f in FIELDS:
            cond = z3.BoolVal(True) if f in self.fail_care else ok  # type: ignore[attr-defined]
            run.oblige(f"K.st.{f}", z3.Implies(cond, lget(Lc, f) == lget(L1, f)), w)
        now = self.pairs_now(run)  # type: ignore[attr-defined]
        run.oblige("K.pairs", z3.If(ok, now == z3.Concat(P0, prs), z3.PrefixOf(P0, now)), w)
        run.oblige("frame.snaps", self.snaps_same(run), w)  # type: ignore[attr-defined]
        fr_ok, fr_why = self.frame_ok(run)  # type: ignore[attr-defined]
        run.oblige("frame.no_shared_writes", fr_ok, note=fr_why)
        for i, g in enumerate(G(L0, okc, Lc, prs)[:-1]):
            run.oblige(f"G.{i}", g, w)
        p0, p1 = lget(L0, "pos"), lget(L1, "pos")
        run.assume(W1(p0, p1))
        for h in self.wf_hints(run, L0, ok, L1, prs):  # type: ignore[attr-defined]
            run.assume(h)
        run.oblige("G.wf", z3.Implies(ok, wf(prs, p0, p1)), w)


    def template_facts(self, run: Run) -> list[z3.BoolRef]:
        """unfolding instances of recursive Spec symbols at the states this straight-line path visited"""
        return []


def nary_facts(unfold):
    def facts(self, run: Run):
        out = []
        for fam, i, L in run.ghost.get("oracle_calls", []):  # noqa: N806
            if fam[0].name() == "c_ok":
                out += unfold(i, L)
        out += unfold(ops.N, self.cur(run))
        # wf of the concatenation built along this path (instances of W2)
        from .pstate import W2

        p0 = lget(run.pre["L0"], "pos")
        acc = EMPTY_P
        out.append(W1(p0, p0))
        for fam, i, L in run.ghost.get("oracle_calls", []):  # noqa: N806
            P, L2 = fam[2](i, L), fam[1](i, L)  # noqa: N806
            out.append(W2(acc, P, p0, lget(L, "pos"), lget(L2, "pos")))
            acc = z3.Concat(acc, P)
        return out

    return facts


def stub(k: int):
    return emit.stub_class()(k)


def expr_template(code: str, consts):
    src, fn = emit.as_function(code, "__template")
    return src, fn, consts


# ================================================================== loop-free templates
def make(base, label: str, node_fn, self_fields=None, loops=None, arity=None, facts=None):
    """Template spec for interpreter spec class `base`, node built by node_fn()."""

    class T(TemplateMixin, base):  # type: ignore[misc, valid-type]
        def __init__(self):
            base.__init__(self)
            self.label = label
            self.target = label
            if loops is not None:
                self.loops = loops(self)

        def build(self):
            code, consts = emit.emit_expression(node_fn())
            return expr_template(code, consts)

        def mk_self(self, run):
            run.pre = getattr(run, "pre", None) or {}
            self._label = str(node_fn())
            if self_fields is not None:
                return run.heap.alloc(self.cls, self_fields(run), fresh=False)
            me = base.mk_self(self, run)
            if arity is not None:
                run.assume(ops.N == arity)
            return me

    if facts is not None:
        T.template_facts = facts  # type: ignore[method-assign]
    T.__name__ = "T_" + _re.sub(r"\W+", "_", label)
    return T()


def _gx():
    import types

    import pest.grammar as g0
    from pest.grammar.expressions import terminals

    gx = types.SimpleNamespace(**{k: getattr(g0, k) for k in dir(g0) if not k.startswith("_")})
    from pest.grammar.expressions import choice, group, postfix, prefix, sequence

    for mod in (terminals, choice, group, postfix, prefix, sequence):
        for k in dir(mod):
            v = getattr(mod, k)
            if isinstance(v, type) and v.__module__ == mod.__name__:
                setattr(gx, k, v)
    return gx


def terminal_templates():
    gx = _gx()
    from pest.grammar.rules.special import _EOI, _SOI, _Any

    out = []
    for v in ("", "a", "ab", "\n", "é"):
        out.append(make(ops.StringSpec, f"template:String({v!r})", lambda v=v: gx.String(v), lambda run, v=v: {"value": v, "tag": None}))
    for v in ("ab", "A", "a-b"):
        out.append(make(ops.CIStringSpec, f"template:CIString({v!r})", lambda v=v: gx.CIString(v), lambda run, v=v: {"value": v, "tag": None}))
    for a, b in (("a", "z"), ("0", "9"), ("A", "Z"), ("-", "-"), ("é", "ü")):
        out.append(make(ops.RangeSpec, f"template:Range({a!r},{b!r})", lambda a=a, b=b: gx.Range(a, b), lambda run, a=a, b=b: {"start": a, "stop": b, "tag": None}))
    out.append(make(ops.AnySpec, "template:_Any", lambda: _Any()))
    out.append(make(ops.SOISpec, "template:_SOI", lambda: _SOI()))
    out.append(make(ops.EOISpec, "template:_EOI", lambda: _EOI()))
    return out


def stack_templates():
    gx = _gx()
    out = [
        make(ops.PushLiteralSpec, "template:PushLiteral('ab')", lambda: gx.PushLiteral("ab"), lambda run: {"value": "ab", "tag": None}),
        make(ops.PushSpec, "template:Push", lambda: gx.Push(stub(0))),
        make(ops.PeekSpec, "template:Peek", lambda: gx.Peek()),
        make(ops.PopSpec, "template:Pop", lambda: gx.Pop()),
        make(ops.DropSpec, "template:Drop", lambda: gx.Drop()),
    ]
    return out


def combinator_templates(max_arity: int = 3):
    gx = _gx()
    out = [
        make(ops.OptionalSpec, "template:Optional", lambda: gx.Optional(stub(0))),
        make(ops.PosPredSpec, "template:PositivePredicate", lambda: gx.PositivePredicate(stub(0))),
        make(ops.NegPredSpec, "template:NegativePredicate", lambda: gx.NegativePredicate(stub(0))),
        make(ops.GroupSpec, "template:Group", lambda: gx.Group(stub(0))),
        make(ops.TaggedGroupSpec, "template:Group[tagged]", lambda: gx.Group(stub(0), "t"),
             lambda run: {"expression": ops.Child(0, "c"), "tag": "t"}),
    ]
    for k in range(0, max_arity + 1):
        out.append(make(ops.ChoiceSpec, f"template:Choice[{k}]", lambda k=k: gx.Choice(*[stub(i) for i in range(k)]), arity=k, facts=nary_facts(ops.ch_unfold)))
        out.append(make(ops.SequenceSpec, f"template:Sequence[{k}]", lambda k=k: gx.Sequence(*[stub(i) for i in range(k)]), arity=k, facts=nary_facts(ops.sq_unfold)))
    return out


# ================================================================== templates with loops
from .ops import G_inst, Loop, W2, more_prs, more_st, more_unfold, ocall, rep, restored  # noqa: E402


def _calls_since(run: Run, n0: int):
    return run.ghost.get("oracle_calls", [])[n0:]


def repeat_template_loop(spec):
    """`while True:` of the emitted e*: loop head = no checkpoint open, scratch list empty,
    state = La (after the last committed item; L0 the first time)."""

    def entry(run):
        return {"acc": Sym(EMPTY_P, "seq:pair")}

    def flag(run):
        env = run.frames[0].env
        name = next(k for k in env if k.startswith("first"))
        return z(env[name])

    def scratch(run):
        env = run.frames[0].env
        name = next(k for k in env if k.startswith("children"))
        t, _ = run.as_seq(env[name], None, "pair")
        return t

    def facts(run, g):
        Lc = spec.cur(run)  # noqa: N806
        if run.loop_phase == "head":
            run.ghost["calls_at_head"] = len(run.ghost.get("oracle_calls", []))
        first = flag(run) if run.loop_phase != "step" else z3.BoolVal(False)
        _, Lt, Pt = ocall(TV, 0, Lc)  # noqa: N806
        Lin = z3.If(first, Lc, Lt)  # noqa: N806
        _, L2, P2 = ocall(C, 0, Lin)  # noqa: N806
        acc = z(g["acc"])
        p0, pc, pt, p2 = lget(run.pre["L0"], "pos"), lget(Lc, "pos"), lget(Lt, "pos"), lget(L2, "pos")
        return [*more_unfold(Lc), G_inst(TV, 0, Lc), G_inst(C, 0, Lin), W1(p0, p0),
                W2(Pt, P2, pc, pt, p2), W2(acc, z3.Concat(Pt, P2), p0, pc, p2), W2(acc, P2, p0, pc, p2)]

    def inv(run, g):
        L0, P0 = run.pre["L0"], run.pre["P0"]  # noqa: N806
        Lc = spec.cur(run)  # noqa: N806
        acc = z(g["acc"])
        first = flag(run)
        st0, prs0 = rep(L0)
        return [
            ("snaps", spec.snaps_same(run)),
            ("pairs", spec.pairs_now(run) == z3.Concat(P0, acc)),
            ("scratch", z3.Length(scratch(run)) == 0),
            ("first", z3.Implies(first, z3.And(Lc == L0, z3.Length(acc) == 0))),
            ("rep", z3.Implies(z3.Not(first), z3.And(st0 == more_st(Lc), prs0 == z3.Concat(acc, more_prs(Lc))))),
            ("wf", z3.And(*wf_state(Lc), *G(L0, z3.BoolVal(True), Lc, EMPTY_P)[:6])),
            ("wf.acc", wf(acc, lget(L0, "pos"), lget(Lc, "pos"))),
        ]

    def back(run, g):
        acc = z(g["acc"])
        for fam, i, L in _calls_since(run, run.ghost["calls_at_head"]):  # noqa: N806
            acc = z3.Concat(acc, fam[2](i, L))
        return {"acc": Sym(acc, "seq:pair")}

    def modifies(run):
        env = run.frames[0].env
        cells = spec.state_cells(run)
        for k, v in env.items():
            if k.startswith("children") and isinstance(v, Ref):
                run.as_seq(v, None, "pair")
                cells.append((v, "seq"))
        return cells

    return Loop(inv, facts=facts, modifies=modifies, ghosts={"acc": "seq:pair"}, entry=entry, back=back)


def repeat_once_template_loop(spec):
    """emitted e+ : count = 0 -> nothing yet; 1 -> first item + kept trivia done (state Lt);
    >= 2 -> inside e* started at Lt, state La after the last committed item."""

    def entry(run):
        return {"acc": Sym(EMPTY_P, "seq:pair")}

    def var(run, prefix):
        env = run.frames[0].env
        return env[next(k for k in env if k.startswith(prefix))]

    def spec_terms(run):
        L0 = run.pre["L0"]  # noqa: N806
        ok, L1, P1 = ocall(C, 0, L0)  # noqa: N806
        _, Lt, Pt = ocall(TV, 0, L1)  # noqa: N806
        return ok, L1, P1, Lt, Pt

    def facts(run, g):
        Lc = spec.cur(run)  # noqa: N806
        if run.loop_phase == "head":
            run.ghost["calls_at_head"] = len(run.ghost.get("oracle_calls", []))
        L0 = run.pre["L0"]  # noqa: N806
        ok, L1, P1, Lt, Pt = spec_terms(run)  # noqa: N806
        _, Lct, Pct = ocall(TV, 0, Lc)  # noqa: N806
        acc = z(g["acc"])
        out = [*more_unfold(Lc), G_inst(TV, 0, Lc), G_inst(C, 0, Lc), G_inst(C, 0, Lct), G_inst(C, 0, L0), G_inst(TV, 0, L1), W1(lget(Lt, "pos"), lget(Lt, "pos"))]
        pt, pc = lget(Lt, "pos"), lget(Lc, "pos")
        for Lin, Pin in ((Lc, EMPTY_P), (Lct, Pct)):  # noqa: N806
            _, L2, P2 = ocall(C, 0, Lin)  # noqa: N806
            out += [W2(Pin, P2, pc, lget(Lin, "pos"), lget(L2, "pos")), W2(acc, z3.Concat(Pin, P2), pt, pc, lget(L2, "pos")), W2(acc, P2, pt, pc, lget(L2, "pos"))]
        return out

    def inv(run, g):
        L0, P0 = run.pre["L0"], run.pre["P0"]  # noqa: N806
        Lc = spec.cur(run)  # noqa: N806
        acc = z(g["acc"])
        count = z(var(run, "count"))
        ok, L1, P1, Lt, Pt = spec_terms(run)  # noqa: N806
        rst, rprs = rep(Lt)
        t, _ = run.as_seq(var(run, "item_children"), None, "pair")
        return [
            ("snaps", spec.snaps_same(run)),
            ("count", count >= 0),
            ("scratch", z3.Length(t) == 0),
            ("zero", z3.Implies(count == 0, z3.And(Lc == L0, spec.pairs_now(run) == P0))),
            ("some", z3.Implies(count >= 1, z3.And(ok, spec.pairs_now(run) == z3.Concat(P0, P1, Pt, acc)))),
            ("one", z3.Implies(count == 1, z3.And(Lc == Lt, z3.Length(acc) == 0))),
            ("more", z3.Implies(count >= 2, z3.And(rst == more_st(Lc), rprs == z3.Concat(acc, more_prs(Lc))))),
            ("wf", z3.And(*wf_state(Lc), *G(L0, z3.BoolVal(True), Lc, EMPTY_P)[:6], z3.Implies(count >= 1, lget(Lt, "pos") <= lget(Lc, "pos")))),
            ("wf.acc", z3.Implies(count >= 1, wf(acc, lget(Lt, "pos"), lget(Lc, "pos")))),
        ]

    def back(run, g):
        count_before = run.ghost.get("count_at_head")
        acc = z(g["acc"])
        calls = _calls_since(run, run.ghost["calls_at_head"])
        # the iteration that makes count 1 commits P1 and the kept trivia, which are not part of acc
        new = EMPTY_P
        for fam, i, L in calls:  # noqa: N806
            new = z3.Concat(new, fam[2](i, L))
        count = z(var(run, "count"))
        return {"acc": Sym(z3.If(count <= 1, EMPTY_P, z3.Concat(acc, new)), "seq:pair")}

    def modifies(run):
        env = run.frames[0].env
        cells = spec.state_cells(run)
        for k, v in env.items():
            if k.startswith("item_children") and isinstance(v, Ref):
                run.as_seq(v, None, "pair")
                cells.append((v, "seq"))
        return cells

    return Loop(inv, facts=facts, modifies=modifies, ghosts={"acc": "seq:pair"}, entry=entry, back=back)


def _ro_hints(self, run, L0, ok, L1, prs):  # noqa: N803
    return ops.RepeatOnceSpec.wf_hints(self, run, L0, ok, L1, prs)


def loop_templates():
    gx = _gx()
    out = [
        make(ops.RepeatSpec, "template:Repeat", lambda: gx.Repeat(stub(0)), loops=lambda s: {0: repeat_template_loop(s)}),
        make(ops.RepeatOnceSpec, "template:RepeatOnce", lambda: gx.RepeatOnce(stub(0)), loops=lambda s: {0: repeat_once_template_loop(s)}),
    ]
    return out


def _flag_true(self, run: Run):
    # the emitted loops keep their result flag True until the mismatch that breaks out
    return [("flag", z(run.frames[0].env["matched"]) == z3.BoolVal(True))]


def _set(obj, **kw):
    for k, v in kw.items():
        setattr(obj, k, v)
    type(obj).inv_extra = _flag_true
    return obj


def stack_loop_templates():
    gx = _gx()
    out = []
    for a, b in ((None, None), (0, 1), (1, None), (-1, None), (None, -1), (0, 0)):
        sa = None if a is None else str(a)
        sb = None if b is None else str(b)
        t = make(ops.PeekSliceSpec, f"template:PeekSlice[{a}..{b}]", lambda sa=sa, sb=sb: gx.PeekSlice(sa, sb),
                 lambda run, a=a, b=b: {"start": a, "stop": b, "tag": None})
        out.append(_set(t, pos_var="pos1"))
    out.append(_set(make(ops.PeekAllSpec, "template:PeekAll", lambda: gx.PeekAll()), pos_var=""))
    out.append(_set(make(ops.PopAllTemplateSpec, "template:PopAll", lambda: gx.PopAll()), pos_var="pos1"))
    return out


class PopAllTemplateSpec(ops.PeekAllSpec):
    """generated POP_ALL iterates the stack without popping and clears it at the end (same K as POP_ALL)."""

    cls = ops.PopAllSpec.cls

    def success(self, L):  # noqa: N803
        return ops.lset(L, stk=z3.Empty(ops.SeqStrSort))


ops.PopAllTemplateSpec = PopAllTemplateSpec  # type: ignore[attr-defined]


# ================================================================== Identifier / Rule / parse_trivia / entry point
def identifier_templates():
    gx = _gx()
    return [
        make(ops.IdentifierSpec, "template:Identifier", lambda: gx.Identifier("r"), lambda run: {"value": "r", "tag": None}),
        make(ops.TaggedIdentifierSpec, "template:Identifier[tagged]", lambda: gx.Identifier("r", "t"), lambda run: {"value": "r", "tag": "t"}),
    ]


class RuleTemplate(TemplateMixin, ops.RuleSpec):
    """Rule.generate's `def inner(state, pairs)` for one modifier / name instance.
    Strict on failure: a failing rule function leaves the caller's list exactly as it was."""

    def __init__(self, modifier: int, trivia_name: str | None = None, kids: str = "pest"):
        ops.RuleSpec.__init__(self, modifier, trivia_name, kids)
        self.label = f"template:Rule[mod={modifier}{',' + trivia_name if trivia_name else ''}{',impl' if kids == 'impl' else ''}]"
        self.target = self.label

    def build(self):
        from pest.grammar.rule import GrammarRule

        node = GrammarRule(self.trivia_name or "r", stub(0), self.modifier)
        code, consts = emit.emit_expression(node, {})
        src, fn = emit.inner_function(code)
        return src, fn, consts

    def mk_self(self, run):
        rid = run.fresh("self_rule", "rule")
        name = self.trivia_name or "r"
        run.assume(z3.And(r_name(rid.t) == z3.StringVal(name), r_mod(rid.t) == self.modifier))
        return run.heap.alloc("pest.state.RuleFrame", {"name": name, "modifier": self.modifier, "$term": rid.t}, fresh=False)

    def post(self, run: Run, pre: Any, out: Any) -> None:
        TemplateMixin.post(self, run, pre, out)
        ok, _, _ = self.K(run, pre["L0"])
        run.oblige("K.pairs.strict", z3.Implies(z3.Not(ok), self.pairs_now(run) == pre["P0"]))


def rule_templates(kids: str = "pest"):
    out = []
    for m in (0, 2, 4, 8, 16, 6, 10, 18):
        out.append(RuleTemplate(m, None, kids if m == 4 else "pest"))
    for nm in ("WHITESPACE", "COMMENT"):
        for m in (0, 2):
            out.append(RuleTemplate(m, nm))
    return out


class TriviaTemplate(TemplateMixin, ops.ParseTriviaSpec):
    """generate_parse_trivia(rules): same K as ParserState.parse_trivia for the configuration."""

    def __init__(self, skip: bool, ws: bool, cm: bool):
        ops.ParseTriviaSpec.__init__(self, skip, ws, cm)
        self.label = f"template:parse_trivia[skip={int(skip)},ws={int(ws)},cm={int(cm)}]"
        self.target = self.label
        self.loops = {0: self.tpl_loop()}

    fail_care = tuple(FIELDS)

    def build(self):
        from pest.grammar.codegen.generate import generate_parse_trivia

        d = self.defined
        rules = {k: object() for k in ("SKIP", "WHITESPACE", "COMMENT") if d[k]}
        code = generate_parse_trivia(rules)  # type: ignore[arg-type]
        tree = ast.parse(code)
        fn = tree.body[0]
        assert isinstance(fn, ast.FunctionDef)
        return code, fn, []

    def setup(self, run: Run):
        _st, args, kw = ops.ParseTriviaSpec.setup(self, run)
        return None, [run.pre["st"], *args], kw

    def post(self, run: Run, pre: Any, out: Any) -> None:
        ops.ParseTriviaSpec.post(self, run, pre, out)
        run.oblige("result.true", z(out) == z3.BoolVal(True) if not isinstance(out, bool) else out)

    def tpl_loop(self):
        base = ops.ParseTriviaSpec.mk_loops(self)[0]
        spec = self

        def inv(run, g):
            # the generated loop appends straight to `pairs`: no scratch list
            return [c for c in base.inv(run, g) if c[0] != "children"]

        def modifies(run):
            return spec.state_cells(run)

        lp = Loop(inv, facts=base.facts, modifies=modifies, ghosts=base.ghosts, entry=base.entry, back=base.back)
        return lp

    def lseq(self, run: Run, name: str):
        if name == "children":
            return EMPTY_P
        return ops.ParseTriviaSpec.lseq(self, run, name)


def trivia_templates():
    out = []
    for skip, ws, cm in ((0, 0, 0), (0, 1, 0), (0, 0, 1), (0, 1, 1), (1, 0, 0), (1, 1, 0), (1, 0, 1), (1, 1, 1)):
        out.append(TriviaTemplate(bool(skip), bool(ws), bool(cm)))
    return out


class EntryTemplate(ops.ParserParseSpec):
    """generate_parse_entry_point(): the emitted parse(start_rule, text, *, start_pos=0)."""

    template_names = True
    target = "template:parse"
    label = "template:parse"

    def source(self, engine):
        from pest.grammar.codegen.generate import generate_parse_entry_point

        code = generate_parse_entry_point()
        tree = ast.parse(code)
        fn = tree.body[0]
        assert isinstance(fn, ast.FunctionDef) and fn.name == "parse"
        src = ast.get_source_segment(code, fn) or code
        return emit.funcinfo(self.label, src, fn)

    def setup(self, run: Run):
        me, args, kw = ops.ParserParseSpec.setup(self, run)
        return None, args, kw

    def resolve_name(self, run: Run, name: str):
        from pyvc.values import ClassV

        if name == "ParserState":
            return ClassV(PSTATE)
        if name == "_RULE_MAP":
            return ("$rulemap",)
        if name == "Pairs":
            return ClassV("pest.pairs.Pairs")
        if name == "PestParsingError":
            return ClassV("pest.exceptions.PestParsingError")
        if name == "Pair":
            return ClassV("pest.pairs.Pair")
        return NotImplemented

    def getitem(self, run: Run, base: Any, idx: Any, n):
        if isinstance(base, tuple) and base and base[0] == "$rulemap":
            return TplFn("rule", idx)
        return ops.ParserParseSpec.getitem(self, run, base, idx, n)

    def call_value(self, run: Run, f: Any, args, kwargs, n):
        if isinstance(f, TplFn) and f.kind == "rule":
            return self.oracle_call(run, R, f.arg, args[0], args[1])
        return NotImplemented

    @property
    def constructors(self):
        base = ops.ParserParseSpec.constructors.fget(self)  # type: ignore[attr-defined]
        mk = base[PSTATE]

        def mk_state(run: Run, args, kwargs):
            # generated code: ParserState(text, start_pos) - no parser object
            st = mk(run, [args[0], args[1], run.pre["me"]], kwargs)
            return st

        return {PSTATE: mk_state}


def entry_templates():
    return [EntryTemplate()]


def all_templates(max_arity: int = 3, kids: str = "pest"):
    return [
        *terminal_templates(), *stack_templates(), *combinator_templates(max_arity), *loop_templates(),
        *stack_loop_templates(), *identifier_templates(), *rule_templates(kids), *trivia_templates(), *entry_templates(),
    ]


# ================================================================== optimizer-only nodes (C02)
def skipuntil_templates():
    gx = _gx()
    out = []
    for subs in (["a"], ["a", "b"], ["b", "ab"], ["\n", "\r\n"], [], ["ab", "b", "abc"]):
        def mk(subs=subs):
            class T(TemplateMixin, ops.SkipUntilSpec):  # type: ignore[misc]
                best_var = "idx3"

                def __init__(self):
                    ops.SkipUntilSpec.__init__(self)
                    self.label = f"template:SkipUntil({subs!r})"
                    self.target = self.label

                def build(self):
                    code, consts = emit.emit_expression(gx.SkipUntil(list(subs)))
                    return expr_template(code, consts)

                def mk_self(self, run):
                    seq = z3.Empty(ops.SeqStrSort)
                    for s0 in subs:
                        seq = z3.Concat(seq, z3.Unit(z3.StringVal(s0)))
                    run.assume(ops.SUBS == seq)
                    return ops.SkipUntilSpec.mk_self(self, run)

                def constant_value(self, run, name, ex):
                    val = ast.literal_eval(ex)
                    assert val == list(subs)
                    return run.obj(run.pre["me"])["subs"]

            return T()

        out.append(mk())
    return out


def regex_node_templates():
    from pest.grammar.expression import RegexExpression
    from pest.grammar.expressions.choice import ChoiceCase, ChoiceLiteral, ChoiceRange, OptimizedChoice

    out = []

    def mk(kind, node_fn, tag):
        class T(TemplateMixin, ops.RegexNodeSpec):  # type: ignore[misc]
            def __init__(self):
                ops.RegexNodeSpec.__init__(self, kind)
                self.label = f"template:{kind}[{tag}]"
                self.target = self.label

            def build(self):
                code, consts = emit.emit_expression(node_fn())
                return expr_template(code, consts)

            def resolve_name(self, run, name):
                if name in getattr(self, "_consts", {}):
                    # the emitted constant is the node's own pattern (text identity is checked in C12)
                    return run.obj(run.pre["me"])["regex"]
                return TemplateMixin.resolve_name(self, run, name)

        return T()

    out.append(mk("RegexExpression", lambda: RegexExpression(r"\p{L}"), "prop"))
    out.append(mk("OptimizedChoice", lambda: OptimizedChoice([ChoiceLiteral("ab", ChoiceCase.SENSITIVE), ChoiceRange("0", "9")]), "mixed"))
    return out


# ================================================================== what makes the stub-children templates representative
class StubsRepresentative(FunctionSpec):
    """The templates are obtained by running the real generate() with STUB children and symbolic numeric parameters, the
    interpreter proofs treat children as oracles: both are representative of every grammar only if parse() / generate() do
    not branch on the class, tag or attributes of a child expression.  Syntactic audit: the sites that do are exactly the
    known ones (Rule's atomic-children test - finding F8 -, NegativePredicate's label choice).  Round-7 seed C04d added
    `isinstance(self.expression, Identifier)` to Repeat.generate and every template proof stayed green."""

    target = "pest.grammar.expression.Expression.generate"
    label = "templates.stubs_representative"

    def source(self, engine):
        fi = engine.program.funcs.get(self.target)
        return fi if fi is not None else next(iter(engine.program.funcs.values()))

    def direct(self, run: Run) -> None:
        from .common import KNOWN_SHAPE_SITES, shape_inspection_sites

        sites = set(shape_inspection_sites())
        new = sorted(sites - KNOWN_SHAPE_SITES)
        if new:
            # not a violation in itself: the code may inspect its child harmlessly.  What it means is that the templates and
            # oracle-children proofs no longer cover this code - UNDECIDED; the concretisers then look for a failing input
            from pyvc.engine import OutOfDialect

            raise OutOfDialect(f"parse()/generate() inspect the shape of a child at a site the proofs do not cover: {new[:4]}")
        run.oblige("no_branch_on_child_shape", True)


class DelegatingGenerate(FunctionSpec):
    """e{n}, e{n,}, e{,n}, e{m,n}: generate() must be exactly `_unrolled(self).generate(gen, matched_var, pairs_var)` for
    ALL values of the numeric parameters - no emission of its own, one delegation with the arguments it was given (the twin
    of ops.DelegatingRepeatSpec for parse()).  The stub-children template of these classes is emitted with a symbolic count
    whose comparisons take one concrete branch, so a special case such as `if self.number < 2` (round-7 seed C01d: a counted
    loop for e{,n}, n >= 2) is invisible there; here the real generate() is executed with a symbolic n."""

    def __init__(self, cls_name: str):
        self.cls = f"pest.grammar.expressions.postfix.{cls_name}"
        self.target = f"{self.cls}.generate"
        self.label = f"{self.target}[delegation]"

    def setup(self, run: Run):
        from pyvc.values import Child

        n, m, mx = run.fresh("n", "int"), run.fresh("m", "int"), run.fresh("mx", "int")
        run.assume(z3.And(n.t >= 0, m.t >= 0, mx.t >= 0))
        me = run.heap.alloc(self.cls, {"expression": Child(0, "c"), "tag": None, "number": n, "min": m, "max": mx}, fresh=False)
        gen = run.heap.alloc("pest.grammar.codegen.builder.Builder", {}, fresh=False)
        mv, pv = run.fresh("matched_var", "str"), run.fresh("pairs_var", "str")
        run.pre = {"me": me, "gen": gen, "mv": mv, "pv": pv, "delegations": [], "emissions": []}
        return me, [gen, mv, pv], {}

    @property
    def summaries(self):
        from pyvc.values import Child

        def unrolled(run: Run, recv, args, kwargs):
            run.oblige("delegates.self", len(args) == 1 and isinstance(args[0], Ref) and args[0].oid == run.pre["me"].oid)
            return Child(0, "unrolled")

        return {"pest.grammar.expressions.postfix._unrolled": unrolled}

    def call_method(self, run: Run, recv: Any, name: str, args, kwargs, n):
        from pyvc.values import Child

        if isinstance(recv, Child) and recv.tag == "unrolled" and name == "generate":
            run.pre["delegations"].append((list(args), dict(kwargs)))
            return None
        if isinstance(recv, Child):
            run.pre["emissions"].append(f"child.{name}")
            return None
        if isinstance(recv, Ref) and recv.oid == run.pre["gen"].oid:
            run.pre["emissions"].append(f"gen.{name}")
            from pyvc.values import Opaque

            return Opaque(f"gen.{name}()")
        return NotImplemented

    def post(self, run: Run, pre: Any, out: Any) -> None:
        d = pre["delegations"]
        same = len(d) == 1 and not d[0][1] and len(d[0][0]) == 3 and isinstance(d[0][0][0], Ref) and d[0][0][0].oid == pre["gen"].oid \
            and d[0][0][1] is pre["mv"] and d[0][0][2] is pre["pv"]
        run.oblige("generate.delegates_once_with_its_arguments", same, note=f"{len(d)} delegation(s)")
        run.oblige("generate.emits_nothing_itself", not pre["emissions"], note=str(pre["emissions"][:4]))


def delegating_generate_specs():
    return [DelegatingGenerate(c) for c in ("RepeatExact", "RepeatMin", "RepeatMax", "RepeatMinMax")]
