"""C11, rendering side: str(PestGrammarError) always renders and shows the line:column _error_context returned.

Functions under contract (real bodies): PestGrammarError.__init__, .message (property, executed in place), .detailed_message
(4 instances: with / without a token x with / without a message argument), .__str__.  _error_context is used at the contract
c11.ErrorContext proves (a 5-tuple int, int, str, str, str for every index in 0..len(text), never raises).

Exception.__init__ stores its positional arguments in `args`; Exception.__str__ returns a str (CPython).  str(int), str * int
are total uninterpreted functions into str.  A token is a NamedTuple (kind, value, start, grammar) with value, grammar : str and
0 <= start <= len(grammar) - proved of every token the scanner creates (c11 ScannerMethod `token.start_in_text`).
"""
from __future__ import annotations

from typing import Any

import z3

from pyvc.driver import FunctionSpec
from pyvc.engine import Run
from pyvc.values import BoundMethod, Ref, Sym, z

from .c13_render import RenderModel, is_str, py_repeat, py_str_int

GERR = "pest.grammar.exceptions.PestGrammarError"
TOKEN = "pest.grammar.tokens.Token"


class GrammarErrModel(RenderModel):
    def call_method(self, run: Run, recv: Any, name: str, args, kwargs, n):
        if isinstance(recv, tuple) and recv and recv[0] == "$super" and name == "__str__" and not args:
            r = run.fresh("exception_str", "str")
            run.pre["super_str"] = r.t
            return r
        if isinstance(recv, tuple) and recv and recv[0] == "$super" and name == "__init__":
            flat: list[Any] = []
            for a in args:
                if isinstance(a, tuple) and len(a) == 2 and a[0] == "$star":
                    flat.extend(a[1] if isinstance(a[1], tuple) else [a[1]])
                else:
                    flat.append(a)
            run.setf(recv[1], "args", tuple(flat))
            return None
        return RenderModel.call_method(self, run, recv, name, args, kwargs, n)

    def call_builtin(self, run: Run, name: str, args, kwargs, n):
        if name == "str" and len(args) == 1 and args[0] is None:
            return "None"
        return RenderModel.call_builtin(self, run, name, args, kwargs, n)

    def mk_token(self, run: Run) -> Ref:
        g, v, st = run.fresh("grammar", "str"), run.fresh("value", "str"), run.fresh("start", "int")
        run.assume(z3.And(0 <= st.t, st.t <= z3.Length(g.t)))
        run.pre.update({"grammar": g.t, "start": st.t, "value": v.t})
        return run.heap.alloc(TOKEN, {"kind": run.fresh("kind", "int"), "value": v, "start": st, "grammar": g}, fresh=False)


class DetailedMessage(GrammarErrModel, FunctionSpec):
    target = f"{GERR}.detailed_message"

    def __init__(self, token: bool, msg: bool):
        self.token, self.msg = token, msg
        self.label = f"{self.target}[token={int(token)},message={int(msg)}]"

    @property
    def summaries(self):
        def ectx(run: Run, recv, args, kwargs):
            pre = run.pre
            run.oblige("call._error_context.text_is_token_grammar", z3.simplify(z(args[0], "str") == pre["grammar"]))
            run.oblige("call._error_context.index_is_token_start", z3.simplify(z(args[1], "int") == pre["start"]))
            ln, col = run.fresh("ctx_lineno", "int"), run.fresh("ctx_col", "int")
            prev, cur, nxt = run.fresh("ctx_prev", "str"), run.fresh("ctx_cur", "str"), run.fresh("ctx_next", "str")
            pre["ctx"] = (ln.t, col.t, cur.t)
            return (ln, col, prev, cur, nxt)

        return {f"{GERR}._error_context": ectx}

    def setup(self, run: Run):
        run.pre = {}
        tok = self.mk_token(run) if self.token else None
        args: tuple = ()
        if self.msg:
            m = run.fresh("msg", "str")
            run.pre["msg"] = m.t
            args = (m,)
        me = run.heap.alloc(GERR, {"token": tok, "args": args}, fresh=False)
        return me, [], {}

    def post(self, run: Run, pre: Any, out: Any) -> None:
        self.noraise_str(run, out)
        if not self.token:
            run.oblige("no_token.is_exception_str", "super_str" in pre and isinstance(out, Sym) and z3.eq(out.t, pre["super_str"]))
            return
        ctx = pre.get("ctx")
        run.oblige("calls._error_context", ctx is not None)
        if ctx is None or not (isinstance(out, Sym) and out.k == "str"):
            return
        ln, col, cur = ctx
        o = out.t
        run.oblige("shows.line_col", z3.Contains(o, z3.Concat(z3.StringVal(" -> "), py_str_int(ln), z3.StringVal(":"), py_str_int(col), z3.StringVal("\n"))))
        run.oblige("shows.source_line", z3.Contains(o, z3.Concat(z3.StringVal("\n"), py_str_int(ln), z3.StringVal(" | "), cur, z3.StringVal("\n"))))
        run.oblige("shows.pointer_at_col", z3.Contains(o, z3.Concat(z3.StringVal(" | "), py_repeat(z3.StringVal(" "), col))))
        if self.msg:
            run.oblige("shows.message", z3.PrefixOf(z3.Concat(pre["msg"], z3.StringVal("\n")), o))


class ErrStr(GrammarErrModel, FunctionSpec):
    target = f"{GERR}.__str__"

    @property
    def summaries(self):
        def dm(run: Run, recv, args, kwargs):
            r = run.fresh("detailed", "str")
            run.pre["dm"] = r.t
            return r

        return {f"{GERR}.detailed_message": dm}

    def setup(self, run: Run):
        run.pre = {}
        return run.heap.alloc(GERR, {}, fresh=False), [], {}

    def post(self, run: Run, pre: Any, out: Any) -> None:
        self.noraise_str(run, out)
        run.oblige("is_detailed_message", "dm" in pre and isinstance(out, Sym) and z3.eq(out.t, pre["dm"]))


class ErrInit(GrammarErrModel, FunctionSpec):
    target = f"{GERR}.__init__"

    def __init__(self, token: bool):
        self.token = token
        self.label = f"{self.target}[token={int(token)}]"

    def setup(self, run: Run):
        run.pre = {}
        tok = self.mk_token(run) if self.token else None
        m = run.fresh("msg", "str")
        me = run.heap.alloc(GERR, {}, fresh=False)
        run.pre.update({"me": me, "tok": tok, "msg": m.t})
        return me, [m], {"token": tok}

    def post(self, run: Run, pre: Any, out: Any) -> None:
        o = run.obj(pre["me"])
        t = o.get("token")
        run.oblige("token.kept", (t is None and pre["tok"] is None) or (isinstance(t, Ref) and pre["tok"] is not None and t.oid == pre["tok"].oid))
        a = o.get("args")
        run.oblige("args.kept", isinstance(a, tuple) and len(a) == 1 and isinstance(a[0], Sym) and z3.eq(a[0].t, pre["msg"]), note=f"args={a!r}")


def specs(tier):
    return [DetailedMessage(t, m) for t in (True, False) for m in (True, False)] + [ErrStr(), ErrInit(True), ErrInit(False)]
