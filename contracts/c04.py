"""C04 - implicit WHITESPACE/COMMENT and atomicity modifiers (interpreter side)."""
from . import groups as g
from . import ops, unroll_struct

PROPERTY = "C04"
EXPLANATION = (
    "Trivia placement and atomicity clauses of the Spec: Sequence applies implicit trivia after element i iff i < n-1, "
    "e* between iterations and gives it back after the last, e+ as e ~ e*; ParserState.parse_trivia refines "
    "(WHITESPACE | COMMENT)* (ordered, greedy, each attempt all-or-nothing, nothing when atomic_depth > 0) in its five "
    "configurations; Rule.parse sets/restores atomic depth per modifier on every exit and builds exactly one pair."
)
TRUSTED = g.COMMON_TRUSTED
ASSUMPTIONS = [*g.COMMON_ASSUMPTIONS, "the optimizer-built SKIP rule never fails (a * repetition)"]
BOUNDED = ["bounded repetitions e{n}, e{n,}, e{,n}, e{m,n}: the delegation to the unrolled sequence is proved for all n; that unroll() builds the named sequence is run concretely for parameters 0..5 (contracts/unroll_struct.py)"]


def specs(tier):
    from . import templates as t

    tpl = [*[x for x in t.combinator_templates(3 if tier == "quick" else 5) if "Sequence" in x.label], *t.loop_templates(), *t.rule_templates(), *t.trivia_templates()]
    from . import c02

    # the fused SKIP rule must be silent AND atomic, and the skip rewrite may only fire where no trivia can match
    return [ops.SequenceSpec(), ops.RepeatSpec(), ops.RepeatOnceSpec(), *ops.bounded_repeat_specs(), *g.rules(), *g.trivia(), *tpl, c02.SkipRuleArms(), c02.SkipArms(),
            t.StubsRepresentative(), *t.delegating_generate_specs()]

from .groups import concretise_ops
concretise = concretise_ops(PROPERTY)


def extra_checks(tier, seed):
    return [unroll_struct.check()]
