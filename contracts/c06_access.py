"""C06, the remaining Pair / Pairs / Stream accessors under contract (real bodies), each with `frame.pure` where it is one:

    Pair.text / __str__ / as_str     == input[start:end]                      (for a well-formed span: G.wf)
    Pair.inner / Pair.stream         a Pairs / Stream over exactly the pair's children list (same list object), stream at 0
    Pairs.stream                     a Stream over exactly the _pairs list, at 0
    Pairs.__len__ / __getitem__(i)   len(S) / S[i] for -len <= i < len, IndexError otherwise and nothing else
    Pairs.first                      S[0] for a non-empty sequence (IndexError for an empty one)
    Pairs.find_tagged(label)         the pairs of flatten() tagged `label`, in that order (filter checked for an arbitrary pair)
    Pairs.find_first_tagged(label)   the FIRST pair of flatten() whose tag is `label`, None iff there is none
                                     (flatten at its proved contract; loop invariant NT(i): no match among the first i)
    Stream.next / peek / backup      the obvious cursor semantics, 0 <= pos <= len kept, only `pos` written
"""
from __future__ import annotations

from typing import Any

import z3

from pyvc.driver import FunctionSpec
from pyvc.engine import PyExc, Run
from pyvc.sorts import OptStr
from pyvc.values import BoundMethod, Ref, SeqV, Sym, z

from .c06 import PAIR, PAIRS, accessor_post_exc, ff, pure
from .c06_dump import name_of, p_input, p_rule, p_tag, text_of, wf
from .ops import Loop
from .pstate import p_children, p_end, p_start

STREAM = "pest.pairs.Stream"
NT = z3.Function("no_tag_match_before", z3.IntSort(), z3.BoolSort())


class AccModel(FunctionSpec):
    inline = (f"{PAIRS}.__init__", f"{STREAM}.__init__", f"{PAIR}.__str__", f"{PAIRS}.__getitem__", f"{PAIRS}.stream")

    def mk_pair(self, run: Run) -> Ref:
        me = run.fresh("self_pair", "pair")
        p = me.t
        ch = run.new_list("pair", p_children(p), fresh=False)
        run.assume(wf(p))
        o = run.heap.alloc(PAIR, {"$term": p, "rule": Sym(p_rule(p), "rule"), "name": Sym(name_of(p), "str"), "input": Sym(p_input(p), "str"),
                                  "start": Sym(p_start(p), "int"), "end": Sym(p_end(p), "int"), "children": ch, "tag": Sym(p_tag(p), "optstr")}, fresh=False)
        run.pre = {"me": o, "p": p, "children": ch}
        return o

    def mk_pairs(self, run: Run) -> Ref:
        S = run.fresh_t("pairs", "seq:pair")  # noqa: N806
        lst = run.new_list("pair", S, fresh=False)
        me = run.heap.alloc(PAIRS, {"_pairs": lst}, fresh=False)
        run.pre = {"me": me, "S": S, "list": lst}
        return me

    def getattr(self, run: Run, base: Any, attr: str, n):
        if isinstance(base, Sym) and base.k == "pair" and attr == "tag":
            return Sym(p_tag(base.t), "optstr")
        return NotImplemented

    def post_exc(self, run: Run, pre: Any, exc) -> None:
        accessor_post_exc(self, run, pre, exc)

    def post(self, run: Run, pre: Any, out: Any) -> None:
        ok_, why_ = pure(run)
        run.oblige("frame.pure", ok_, note=why_)
        self.result(run, pre, out)

    def result(self, run: Run, pre: Any, out: Any) -> None:
        raise NotImplementedError


class PairText(AccModel):
    def __init__(self, method: str):
        self.target = f"{PAIR}.{method}"

    @property
    def summaries(self):
        if self.target.endswith(".as_str"):
            # str(self) inside as_str: Pair.__str__ at the contract PairText("__str__") proves
            return {f"{PAIR}.__str__": lambda run, recv, args, kwargs: Sym(text_of(run.pre["p"]), "str")}
        return {}

    def setup(self, run: Run):
        return self.mk_pair(run), [], {}

    def result(self, run, pre, out):
        ok = isinstance(out, (str, Sym)) and run._kind(out) == "str"
        run.oblige("result.is_str", ok)
        if ok:
            run.oblige("result.is_input_slice", z(out, "str") == text_of(pre["p"]))


class PairInner(AccModel):
    def __init__(self, method: str):
        self.method = method
        self.target = f"{PAIR}.{method}"

    def setup(self, run: Run):
        return self.mk_pair(run), [], {}

    def result(self, run, pre, out):
        want_cls, field = (PAIRS, "_pairs") if self.method == "inner" else (STREAM, "pairs")
        ok = isinstance(out, Ref) and not run.is_list(out) and run.cls_of(out) == want_cls
        run.oblige("result.class", ok, note=f"returned {out!r}")
        if not ok:
            return
        o = run.obj(out)
        lst = o.get(field)
        run.oblige("result.over_the_children_list", isinstance(lst, Ref) and lst.oid == pre["children"].oid)
        if self.method == "stream":
            run.oblige("result.at_start", o.get("pos") == 0)


class PairsStream(AccModel):
    target = f"{PAIRS}.stream"

    def setup(self, run: Run):
        return self.mk_pairs(run), [], {}

    def result(self, run, pre, out):
        ok = isinstance(out, Ref) and not run.is_list(out) and run.cls_of(out) == STREAM
        run.oblige("result.class", ok)
        if ok:
            o = run.obj(out)
            run.oblige("result.over_the_pairs_list", isinstance(o.get("pairs"), Ref) and o["pairs"].oid == pre["list"].oid)
            run.oblige("result.at_start", o.get("pos") == 0)


class PairsLen(AccModel):
    target = f"{PAIRS}.__len__"

    def setup(self, run: Run):
        return self.mk_pairs(run), [], {}

    def result(self, run, pre, out):
        run.oblige("result", run._kind(out) == "int" and z(out, "int") == z3.Length(pre["S"]))


class PairsGetItem(AccModel):
    target = f"{PAIRS}.__getitem__"
    raises = ("IndexError",)

    def setup(self, run: Run):
        me = self.mk_pairs(run)
        i = run.fresh("index", "int")
        run.pre["i"] = i.t
        return me, [i], {}

    def result(self, run, pre, out):
        n, i = z3.Length(pre["S"]), pre["i"]
        run.oblige("in_range", z3.And(-n <= i, i < n))
        run.oblige("result", isinstance(out, Sym) and out.k == "pair" and out.t == pre["S"][z3.If(i < 0, i + n, i)])

    def post_exc(self, run: Run, pre: Any, exc: PyExc) -> None:
        if exc.name == "IndexError":
            n, i = z3.Length(pre["S"]), pre["i"]
            run.oblige("IndexError.only_out_of_range", z3.Or(i < -n, i >= n))
            return
        accessor_post_exc(self, run, pre, exc)


class PairsFirst(AccModel):
    target = f"{PAIRS}.first"
    raises = ("IndexError",)

    def setup(self, run: Run):
        return self.mk_pairs(run), [], {}

    def result(self, run, pre, out):
        run.oblige("non_empty", z3.Length(pre["S"]) > 0)
        run.oblige("result", isinstance(out, Sym) and out.k == "pair" and out.t == pre["S"][0])

    def post_exc(self, run: Run, pre: Any, exc: PyExc) -> None:
        if exc.name == "IndexError":
            run.oblige("IndexError.only_when_empty", z3.Length(pre["S"]) == 0)
            return
        accessor_post_exc(self, run, pre, exc)


class FindFirstTagged(AccModel):
    target = f"{PAIRS}.find_first_tagged"

    @property
    def summaries(self):
        def flatten(run: Run, recv, args, kwargs):
            run.pre["flatten_called_on_self"] = isinstance(recv, Ref) and recv.oid == run.pre["me"].oid
            return SeqV(ff(run.pre["S"]), "pair")

        return {f"{PAIRS}.flatten": flatten}

    def setup(self, run: Run):
        me = self.mk_pairs(run)
        lab = run.fresh("label", "str")
        run.pre["label"] = lab.t
        return me, [lab], {}

    def nt_unfold(self, run: Run, i):
        F, lab = ff(run.pre["S"]), run.pre["label"]  # noqa: N806
        return [NT(0), z3.Implies(z3.And(0 <= i, i < z3.Length(F)), NT(i + 1) == z3.And(NT(i), p_tag(F[i]) != OptStr.some_s(lab)))]

    @property
    def loops(self):
        spec = self

        def facts(run, g):
            return spec.nt_unfold(run, z(run.loop_idx))

        def inv(run, g):
            return [("no_match_so_far", NT(z(run.loop_idx)))]

        return {0: Loop(inv, facts=facts, modifies=lambda run: [])}

    def result(self, run, pre, out):
        F, lab = ff(pre["S"]), pre["label"]  # noqa: N806
        run.oblige("searches_flatten_of_self", pre.get("flatten_called_on_self") is True)
        if out is None:
            run.oblige("none.only_when_no_pair_is_tagged", NT(z3.Length(F)))
            return
        ok = isinstance(out, Sym) and out.k == "pair"
        run.oblige("result.is_pair", ok)
        if ok:
            k = z3.Int("k_found")
            # the returned pair is F[idx] for the loop index at which the function returned: tagged `label`, none before it
            ex = getattr(run, "exit_loop_idx", None)
            idx = z(ex) if ex is not None else k
            run.oblige("result.tagged", p_tag(out.t) == OptStr.some_s(lab))
            run.oblige("result.is_first", z3.And(out.t == F[idx], NT(idx)))


class FilterOf:
    """(x for x in <seq> if <pred x>) with the predicate checked against the Spec's for an arbitrary x"""

    def __init__(self, seq):
        self.seq = seq


class FindTagged(FindFirstTagged):
    """Pairs.find_tagged(label) = the pairs of flatten() (in that order) whose tag is `label`: the generator expression
    yields its loop variable unchanged, iterates flatten() of self, and its filter holds for an ARBITRARY pair x exactly when
    tag(x) == label (campaign 7: `!=` for `==` survived while this accessor had no contract)."""

    target = f"{PAIRS}.find_tagged"
    loops: dict = {}

    def listcomp(self, run: Run, n):
        import ast as _ast

        if len(n.generators) != 1 or not isinstance(n.generators[0].target, _ast.Name):
            return NotImplemented
        g = n.generators[0]
        t, ek = run.as_seq(run.eval(g.iter), n, "pair")
        if ek != "pair":
            return NotImplemented
        x = run.fresh("any_pair", "pair")
        env = run.frame.env
        had, old = g.target.id in env, env.get(g.target.id)
        env[g.target.id] = x
        try:
            elt = run.eval(n.elt)
            conds = [run.truth(run.eval(c)) for c in g.ifs]
        finally:
            if had:
                env[g.target.id] = old
            else:
                del env[g.target.id]
        run.oblige("yields_the_pair_itself", isinstance(elt, Sym) and elt.k == "pair" and z3.eq(elt.t, x.t))
        cond = z3.And(*[c if not isinstance(c, bool) else z3.BoolVal(c) for c in conds]) if conds else z3.BoolVal(True)
        run.oblige("filter_is_tag_equals_label", cond == (p_tag(x.t) == OptStr.some_s(run.pre["label"])))
        return FilterOf(t)

    def result(self, run, pre, out):
        run.oblige("searches_flatten_of_self", pre.get("flatten_called_on_self") is True)
        run.oblige("result.is_filter_of_flatten", isinstance(out, FilterOf) and z3.is_true(z3.simplify(out.seq == ff(pre["S"]))))


class StreamOp(AccModel):
    def __init__(self, method: str):
        self.method = method
        self.target = f"{STREAM}.{method}"

    def setup(self, run: Run):
        S = run.fresh_t("pairs", "seq:pair")  # noqa: N806
        lst = run.new_list("pair", S, fresh=False)
        pos = run.fresh("pos", "int")
        run.assume(z3.And(0 <= pos.t, pos.t <= z3.Length(S)))
        me = run.heap.alloc(STREAM, {"pairs": lst, "pos": pos}, fresh=False)
        run.pre = {"me": me, "S": S, "pos": pos.t, "list": lst}
        return me, [], {}

    def post(self, run: Run, pre: Any, out: Any) -> None:
        # a Stream is a cursor: only its own `pos` may be written
        bad = [(oid, f) for oid, f in run.all_writes if not run.heap.objs[oid].get("$fresh") and not (oid == pre["me"].oid and f == "pos")]
        run.oblige("frame.only_pos", not bad, note=str(bad[:3]))
        S, p0 = pre["S"], pre["pos"]  # noqa: N806
        n = z3.Length(S)
        p1 = z(run.obj(pre["me"])["pos"], "int")
        run.oblige("pos.in_range", z3.And(0 <= p1, p1 <= n))
        at_end = p0 >= n
        if self.method in ("next", "peek"):
            if out is None:
                run.oblige("none.only_at_end", at_end)
                run.oblige("pos.unchanged_at_end", p1 == p0)
            else:
                ok = isinstance(out, Sym) and out.k == "pair"
                run.oblige("result.is_pair", ok)
                if ok:
                    run.oblige("result.is_current", z3.And(z3.Not(at_end), out.t == S[p0]))
                    run.oblige("pos.advanced" if self.method == "next" else "pos.unchanged", p1 == (p0 + 1 if self.method == "next" else p0))
        else:
            run.oblige("pos.back_one", p1 == z3.If(p0 > 0, p0 - 1, p0))
            run.oblige("result.none", out is None)


def specs(tier):
    return [PairText("text"), PairText("__str__"), PairText("as_str"), PairInner("inner"), PairInner("stream"), PairsStream(), PairsLen(), PairsGetItem(), PairsFirst(),
            FindFirstTagged(), FindTagged(), StreamOp("next"), StreamOp("peek"), StreamOp("backup")]
