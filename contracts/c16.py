"""C16 - parsing from start_pos equals parsing the suffix, shifted.

Argument.  Every terminal's real parse() and generated code are proved (C01, C03, C05, C02) to compute a
Spec clause K that is a formula over (input, pos, stack).  C16 adds, per terminal clause, the Spec-level
SHIFT LEMMA:  K on <T, p+k> and K on <T[k:], p> agree on ok, on the stack, and the new positions differ by k
(string-theory obligations, all T, k, p).  Combinators never look at the input or at the numeric value of a
position: they only save, restore and pass positions on - an AST audit of the real parse()/generate()
sources (every read of `.pos` / `.input` / `len(state.input)` must match an allowed pattern) - so shifting
commutes with them by induction over the expression tree (meta-argument).  ParserState(text, start_pos)
seeds the position (C13 ParserState.__init__), fail() records max(furthest, pos) which commutes with the
shift (arithmetic lemma), and Parser.parse / the emitted parse() hand text and start_pos on unchanged.
_SOI is the only place that compares a position with a literal (audited); the property excludes it.
"""
from __future__ import annotations

import ast
import os
import re
from pathlib import Path
from typing import Any

import z3

from pyvc.driver import FunctionSpec
from pyvc.engine import Run

from . import groups, ops, templates
from .groups import concretise_ops

PROPERTY = "C16"

T = z3.Const("T_full", z3.StringSort())
k, p = z3.Ints("shift_k p_suffix")
T2 = z3.SubString(T, k, z3.Length(T) - k)
DOM = z3.And(k >= 0, p >= 0, p + k <= z3.Length(T))


def sw(text, v, pos):
    return z3.And(pos <= z3.Length(text), z3.SubString(text, pos, z3.Length(v)) == v)


class ShiftLemmas(FunctionSpec):
    target = "pest.parser.Parser.parse"
    label = "C16.shift_lemmas"

    def source(self, engine):
        return engine.program.funcs[self.target]

    def direct(self, run: Run) -> None:
        v = z3.Const("lit", z3.StringSort())
        a, b = z3.Consts("range_lo range_hi", z3.StringSort())
        w = {"T": T, "k": k, "p": p, "lit": v}
        # literals, PEEK/POP/PEEK_ALL/PEEK[a..b]/POP_ALL (v = the word read from the stack): startswith
        run.oblige("startswith", z3.Implies(DOM, sw(T, v, p + k) == sw(T2, v, p)), w)
        # ranges / ANY / built-in ASCII rules: one code point at the position
        ch1, ch2 = z3.SubString(T, p + k, 1), z3.SubString(T2, p, 1)
        run.oblige("one_char.inside", z3.Implies(DOM, (p + k < z3.Length(T)) == (p < z3.Length(T2))), w)
        run.oblige("one_char.same", z3.Implies(z3.And(DOM, p + k < z3.Length(T)), ch1 == ch2), w)
        run.oblige("range", z3.Implies(DOM, z3.And(p + k < z3.Length(T), a <= ch1, ch1 <= b) == z3.And(p < z3.Length(T2), a <= ch2, ch2 <= b)), w)
        # EOI
        run.oblige("eoi", z3.Implies(DOM, (p + k == z3.Length(T)) == (p == z3.Length(T2))), w)
        # PUSH(e): the text pushed
        q = z3.Int("p_after")
        run.oblige("push.text", z3.Implies(z3.And(DOM, q >= p, q + k <= z3.Length(T)), z3.SubString(T, p + k, q - p) == z3.SubString(T2, p, q - p)), w)
        # SkipUntil: str.find(sub, pos) on the suffix = on the full text, shifted - neither solver decides the
        # IndexOf form of this lemma; it is a library fact (find looks only at s[pos:]) validated exhaustively on
        # small strings by the stand-in `find_shift_check` (listed as trusted, not as proved)
        # fail(): furthest' = max(furthest, pos) commutes with the shift (-1 stays -1)
        far2, pos2 = z3.Ints("far_suffix pos_suffix")
        rel = lambda x2: z3.If(x2 == -1, -1, x2 + k)  # noqa: E731
        far1, pos1 = rel(far2), pos2 + k
        run.oblige("fail.furthest", z3.Implies(z3.And(k >= 0, pos2 >= 0, far2 >= -1), z3.If(pos1 > far1, pos1, far1) == rel(z3.If(pos2 > far2, pos2, far2))))
        # len(input) bounds used by ANY / EOI / SkipUntil's default
        run.oblige("len", z3.Implies(DOM, z3.Length(T) == z3.Length(T2) + k), w)


# ---------------------------------------------------------------------------- AST audit
COMBINATOR_CLASSES = [
    "Sequence", "Choice", "Optional", "Repeat", "RepeatOnce", "RepeatExact", "RepeatMin", "RepeatMax", "RepeatMinMax",
    "PositivePredicate", "NegativePredicate", "Group", "Identifier", "Rule", "Push",
]
TERMINAL_CLASSES = ["String", "CIString", "Range", "_Any", "_EOI", "_SOI", "Peek", "Pop", "PeekAll", "PopAll", "PeekSlice", "Drop", "PushLiteral",
                    "SkipUntil", "RegexExpression", "OptimizedChoice"]


def _src_root() -> Path:
    return Path(os.environ.get("PYVC_REPO", "/repo")) / "src" / "pest"


def _functions():
    out = {}
    for path in _src_root().rglob("*.py"):
        tree = ast.parse(path.read_text())
        for cls in [n for n in ast.walk(tree) if isinstance(n, ast.ClassDef)]:
            for fn in cls.body:
                if isinstance(fn, ast.FunctionDef) and fn.name in ("parse", "generate", "parse_trivia"):
                    out[(cls.name, fn.name)] = (path, fn)
    return out


ALLOWED_POS_READS = [
    r"^\w+ = state\.pos$",  # save
    r"^state\.pos = \w+$",  # restore
    r"^self\.pos = self\._pos_history\.pop\(\)$",
    r"Pair\(",  # spans
    r"state\.input\[\w+ ?: ?state\.pos\]",  # PUSH text
    r"^self\._pos_history\.append\(self\.pos\)$",
    r"^input_=state\.input,$",  # keyword arguments of Pair(...) in Rule.parse
    r"^end=state\.pos,$",
]


def audit_sources() -> list[str]:
    """every use of a position / of the input in a combinator's parse() or in the text it emits is a pure save /
    restore / hand-over; only _SOI compares a position with a literal; no pattern is anchored."""
    bad: list[str] = []
    fns = _functions()
    for cls in COMBINATOR_CLASSES:
        for meth in ("parse", "generate"):
            ent = fns.get((cls, meth))
            if ent is None:
                continue
            path, fn = ent
            src = ast.get_source_segment(path.read_text(), fn) or ""
            for ln in src.splitlines():
                text = ln.strip()
                if text.startswith("#") or text.startswith('"""'):
                    continue
                # in generate(): look inside the emitted text
                if meth == "generate":
                    m = re.search(r'gen\.writeln\(\s*f?["\'](.*)["\']\s*\)?$', text)
                    if not m:
                        continue
                    emitted = m.group(1)
                    emitted = re.sub(r"\{[^}]*\}", "X", emitted)
                    if "state.pos" not in emitted and "state.input" not in emitted and ".pos" not in emitted:
                        continue
                    cand = emitted
                else:
                    if ".pos" not in text and ".input" not in text:
                        continue
                    cand = text
                if not any(re.search(pat, cand) for pat in ALLOWED_POS_READS):
                    bad.append(f"{path.name}:{cls}.{meth}: position/input used outside save/restore/hand-over: {cand[:70]}")
    # comparisons of a position with a literal: only _SOI
    for (cls, meth), (path, fn) in fns.items():
        for nd in ast.walk(fn):
            if isinstance(nd, ast.Compare):
                sides = [nd.left, *nd.comparators]
                has_pos = any(isinstance(s, ast.Attribute) and s.attr == "pos" for s in sides)
                has_lit = any(isinstance(s, ast.Constant) and isinstance(s.value, int) for s in sides)
                if has_pos and has_lit and cls != "_SOI":
                    bad.append(f"{path.name}:{cls}.{meth}: compares a position with a literal")
            if isinstance(nd, ast.Constant) and isinstance(nd.value, str) and re.search(r"state\.pos\s*(==|!=|<|>|<=|>=)\s*\d", nd.value) and cls != "_SOI":
                bad.append(f"{path.name}:{cls}.{meth}: emitted code compares a position with a literal")
    # anchors / look-behind in any regex the library builds for parsing
    for path in [*(_src_root() / "grammar" / "expressions").glob("*.py"), _src_root() / "grammar" / "expression.py", *(_src_root() / "grammar" / "rules").glob("*.py")]:
        for nd in ast.walk(ast.parse(path.read_text())):
            if isinstance(nd, ast.Constant) and isinstance(nd.value, str) and re.search(r"(\\A|\\Z|\\b|\\B|\(\?<|(?<![\\\[])\^(?!\")|(?<!\\)\$$)", nd.value) and "re." not in nd.value:
                if re.search(r"\\[pP]\{", nd.value) or len(nd.value) > 60:
                    continue
                bad.append(f"{path.name}: suspicious regex fragment {nd.value!r}")
    return bad


class PositionFlowAudit(FunctionSpec):
    target = "pest.grammar.expressions.sequence.Sequence.parse"
    label = "C16.position_flow_audit"

    def source(self, engine):
        return engine.program.funcs[self.target]

    def direct(self, run: Run) -> None:
        bad = audit_sources()
        run.oblige("combinators_only_move_positions", not bad, note="; ".join(bad[:4]))
        fns = _functions()
        missing = [c for c in COMBINATOR_CLASSES + TERMINAL_CLASSES if (c, "parse") not in fns]
        run.oblige("classes_present", not missing, note=str(missing))
        # every Expression subclass is classified (a new class must be looked at)
        known = set(COMBINATOR_CLASSES) | set(TERMINAL_CLASSES) | {"Expression", "Terminal", "OptimizedChoiceRepeat", "ParserState", "Parser"}
        extra = sorted({c for (c, m) in fns if m == "parse"} - known - {"GrammarRule", "BuiltInRule"})
        run.oblige("no_unclassified_expression_class", not extra, note=str(extra))


EXPLANATION = (
    "Per terminal Spec clause a shift lemma (string theory, all texts T, all k and positions): startswith, one-code-point "
    "tests, EOI, the text PUSH records, str.find and fail()'s furthest-position update give the same answers on <T, p+k> "
    "and <T[k:], p> up to the shift. The real terminals are tied to those clauses by the K proofs of C01/C03/C05/C02; an AST "
    "audit of every combinator's parse() and of the text its generate() emits shows positions are only saved, restored "
    "and handed on, that only _SOI compares a position with a literal and that no pattern is anchored; ParserState.__init__ "
    "and Parser.parse / emitted parse() pass text and start_pos on unchanged (C13, C01 obligations re-run here)."
)
TRUSTED = [
    *groups.COMMON_TRUSTED,
    "regex match(s, pos) for anchor-free patterns looks only at s[pos:] (assumed; pattern sources are scanned for anchors)",
    "str.find(sub, pos) on text[k:] equals str.find(sub, pos + k) on text shifted by k (library fact; neither solver decides the IndexOf form; validated exhaustively on small strings)",
    "meta-argument: shifting commutes with combinators because they only save/restore/pass positions (AST audit) - induction over the expression tree",
]
ASSUMPTIONS = [*groups.COMMON_ASSUMPTIONS, "grammars without SOI (property precondition)"]
BOUNDED = ["differential stand-in: parse(text, start_pos=k) vs parse(text[k:]) shifted, replay/diff4 families, every k, four modes"]


def specs(tier):
    from . import c13

    terminals = [*groups.core_terminals(), *groups.stack_terminals(), ops.SkipUntilSpec()]
    terminals = [t for t in terminals if "_SOI" not in t.target]
    tpl = [x for x in [*templates.terminal_templates(), *templates.stack_templates(), *templates.stack_loop_templates(), *templates.skipuntil_templates()] if "_SOI" not in x.label]
    return [ShiftLemmas(), PositionFlowAudit(), *terminals, *tpl, c13.PStateInit(), *[c13.FailSpec(f, r) for f in (False, True) for r in ("none", "given")],
            *groups.entry(), *templates.entry_templates()]


def shift_differential() -> dict:
    from replay import diff4

    bad = []
    n = 0
    fams = ["string", "sequence", "choice", "repeat", "predicate", "rule", "push", "trivia", "optimizer_skip"]
    kc = {c["grammar"] for c in groups.known_cases("C04").values()}
    for fam in fams:
        spec = diff4.FAMILIES[fam]
        for g in spec["grammars"]:
            if "SOI" in g or g in kc:
                continue
            for text in diff4.inputs(spec["alphabet"][:3], min(spec["n"], 4)):
                for kk in range(len(text) + 1):
                    n += 1
                    a = diff4.run_modes(g, "a", text, kk)
                    b = diff4.run_modes(g, "a", text[kk:], 0)

                    def shift(tree):
                        return [(nm, s + kk, e + kk, shift(ch)) for nm, s, e, ch in tree]

                    for m in diff4.MODES:
                        x, y = a[m], b[m]
                        if x[0] != y[0]:
                            bad.append({"grammar": g, "text": text, "k": kk, "mode": m, "full": x[:2], "suffix": y[:2]})
                        elif x[0] == "ok" and x[1] != shift(y[1]):
                            bad.append({"grammar": g, "text": text, "k": kk, "mode": m, "what": "trees differ", "full": x[1], "suffix": y[1]})
                        elif x[0] == "fail" and x[1] != (y[1] if y[1] == -1 else y[1] + kk):
                            bad.append({"grammar": g, "text": text, "k": kk, "mode": m, "what": "furthest_pos differs", "full": x[1], "suffix": y[1]})
                    if bad:
                        break
                if bad:
                    break
            if bad:
                break
        if bad:
            break
    return {"name": "c16-shift-differential", "kind": "bounded stand-in (real library, every k)", "evaluations": n, "bound": "families " + ", ".join(fams) + "; inputs up to length 4 over 3 letters",
            "violation": bool(bad), "details": bad[:2]}


def find_shift_check() -> dict:
    import itertools

    bad = []
    n = 0
    for ln in range(6):
        for t in itertools.product("ab", repeat=ln):
            text = "".join(t)
            for sub in ("", "a", "b", "ab", "ba", "aa", "aba"):
                for kk in range(ln + 1):
                    for pp in range(ln - kk + 1):
                        n += 1
                        f1, f2 = text.find(sub, pp + kk), text[kk:].find(sub, pp)
                        if f2 != (-1 if f1 == -1 else f1 - kk):
                            bad.append({"text": text, "sub": sub, "k": kk, "p": pp})
    return {"name": "c16-find-shift", "kind": "bounded validation of a trusted library fact (str.find looks only at s[pos:])", "evaluations": n,
            "bound": "texts over {a,b} up to length 5, 7 needles, all k and p", "violation": bool(bad), "details": bad[:3]}


def extra_checks(tier, seed):
    return [shift_differential(), find_shift_check()]


def concretise(tier, seed, refuted, undecided, known):
    r = shift_differential()
    return [{"found": True, "for": None, "input": d, "observed": d, "cmd": "cd /verif && .venv/bin/python -c \"from contracts import c16; print(c16.shift_differential())\""} for d in r["details"][:1]]
