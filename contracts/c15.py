"""C15 - parsers are isolated, reusable and re-entrant.

Frame (write-effect) contracts.
 (1) parse path: for every Expression.parse, ParserState.parse_trivia, Parser.parse and every emitted template
     the executor logs every heap write of the activation (including the writes performed by callee contracts);
     obligation `frame.no_shared_writes`: each write went to the per-parse ParserState (and its components),
     the caller's pairs list, or an object allocated by the activation - never to the expression object, the
     parser, the rule table or a module-level object.  A result that depends only on the arguments and on heap
     locations nobody writes after construction is history-independent, and concurrent calls that write only
     call-local objects cannot interfere (confinement; standard, stated not mechanised).
 (2) the one whitelisted shared write, OptimizedChoice._compiled (lazy cache): proved to be the only field its
     `pattern` property writes, with a value that is a function of `self.choices` alone; `choices` has no writer
     on the parse path (scan).
 (3) construction side (Parser.__init__/from_grammar, grammar.parse, Optimizer.optimize and every pass,
     generate_module): these use `match`, comprehensions and closures outside the executor's dialect, so the
     frame is checked DYNAMICALLY on schematic grammars: a deep fingerprint of every shared object (the
     Parser.BUILTIN rule objects and their expression trees, ASCII/UNICODE rule tables, DEFAULT_OPTIMIZER, module
     constants) is taken before and after each operation and must be unchanged; results of an observed parse
     must not depend on what was built or parsed before.  Labelled bounded.
"""
from __future__ import annotations

import ast
import os
from pathlib import Path
from typing import Any

import z3

from pyvc.driver import FunctionSpec
from pyvc.engine import Run
from pyvc.values import Ref, Sym

from . import groups, ops, templates

PROPERTY = "C15"
# only the frame clauses (and what the path exploration itself needs) belong to this property
DROP_CLAUSES = r"^(K\.|G\.|child\.requires|loop\d+\.(init|step)\.|lemma\.|noraise|startswith|pos\.not_none|delegates|result|error|state\.args|raises|wf)"


class OptimizedChoiceCache(FunctionSpec):
    """OptimizedChoice.pattern (property): writes nothing but self._compiled, and only when it is None; the value
    stored is compile(build_optimized_pattern(self.choices)) - a function of self.choices alone - so racing
    writers store equal values (idempotent cache)."""

    target = "pest.grammar.expressions.choice.OptimizedChoice.pattern"
    OC = "pest.grammar.expressions.choice.OptimizedChoice"

    def __init__(self, filled: bool):
        self.filled = filled
        self.label = f"{self.target}[cache {'filled' if filled else 'empty'}]"

    def setup(self, run: Run):
        me = run.heap.alloc(self.OC, {"choices": ("$choices",), "_compiled": ("$compiled", "old") if self.filled else None, "tag": None}, fresh=False)
        run.pre = {"me": me}
        return me, [], {}

    summaries = {"pest.grammar.expressions.choice.OptimizedChoice.build_optimized_pattern": lambda run, recv, args, kw: ("$pattern_of", run.obj(recv)["choices"])}

    def call_external(self, run: Run, name: str, args, kwargs, n):
        if name.endswith("regex.compile") or name.endswith("re.compile"):
            return ("$compiled", args[0])
        return NotImplemented

    def getattr(self, run: Run, base: Any, attr: str, n):
        from pyvc.values import ModuleV

        if isinstance(base, ModuleV) and attr in ("VERSION1", "compile"):
            return ModuleV(f"{base.name}.{attr}")
        return NotImplemented

    def truth(self, run: Run, v: Any):
        if isinstance(v, tuple) and v and isinstance(v[0], str) and v[0].startswith("$"):
            return True
        return NotImplemented

    def post(self, run: Run, pre: Any, out: Any) -> None:
        me = pre["me"]
        writes = {(oid, f) for oid, f in run.all_writes if not run.heap.objs[oid].get("$fresh")}
        run.oblige("frame.only_cache_field", writes <= {(me.oid, "_compiled")}, note=str(sorted(writes)))
        if self.filled:
            run.oblige("frame.filled_cache_not_rewritten", not writes)
            run.oblige("result.is_cached", out == ("$compiled", "old"))
        else:
            want = ("$compiled", ("$pattern_of", ("$choices",)))
            run.oblige("result.function_of_choices", out == want and run.obj(me)["_compiled"] == want, note=str(out))


def _src_root() -> Path:
    return Path(os.environ.get("PYVC_REPO", "/repo")) / "src" / "pest"


class ChoicesWriters(FunctionSpec):
    """`choices` (what the cached pattern is a function of) is written only by OptimizedChoice.__init__/update -
    construction-time methods - and no parse()/generate() body calls them."""

    target = "pest.grammar.expressions.choice.OptimizedChoice.update"
    label = "C15.OptimizedChoice.choices[writers]"

    def source(self, engine):
        return engine.program.funcs[self.target]

    def direct(self, run: Run) -> None:
        writers = []
        callers = []
        for path in _src_root().rglob("*.py"):
            tree = ast.parse(path.read_text())
            for cls in [n for n in ast.walk(tree) if isinstance(n, ast.ClassDef)]:
                for fn in [f for f in cls.body if isinstance(f, ast.FunctionDef)]:
                    for nd in ast.walk(fn):
                        tgt = None
                        if isinstance(nd, (ast.Assign, ast.AugAssign)):
                            tgts = nd.targets if isinstance(nd, ast.Assign) else [nd.target]
                            for t in tgts:
                                if isinstance(t, ast.Attribute) and t.attr in ("choices", "_compiled"):
                                    tgt = t.attr
                        if isinstance(nd, ast.Call) and isinstance(nd.func, ast.Attribute) and isinstance(nd.func.value, ast.Attribute) and nd.func.value.attr == "choices" and nd.func.attr in ("append", "extend", "clear", "insert", "pop", "remove", "sort"):
                            tgt = "choices"
                        if tgt:
                            writers.append(f"{cls.name}.{fn.name}:{tgt}")
                        if isinstance(nd, ast.Call) and isinstance(nd.func, ast.Attribute) and nd.func.attr in ("update", "copy") and fn.name in ("parse", "generate"):
                            callers.append(f"{cls.name}.{fn.name}")
        allowed = {"OptimizedChoice.__init__:choices", "OptimizedChoice.__init__:_compiled", "OptimizedChoice.update:choices", "OptimizedChoice.pattern:_compiled"}
        run.oblige("frame.choices_writers", set(writers) <= allowed, note=str(sorted(set(writers) - allowed)))
        run.oblige("frame.no_parse_path_caller", not callers, note=str(callers))


class ConstructionFrameAudit(FunctionSpec):
    """Syntactic frame (modifies) audit of the objects that outlive one call - the construction side is outside the
    executor's dialect, so its write effects are bounded from the source text:
      A1  methods other than __init__ of long-lived classes (Optimizer, pest.parser.Parser, every Expression / Rule class)
          assign no attribute of `self` (allow-list: Optimizer.log - a debug log -, the OptimizedChoice cache proved
          idempotent above, and `update`/construction helpers that run before the object is shared);
      A2  no `global` / `nonlocal` statement in src/pest;
      A3  no mutable default argument ([], {}, set(), list(), dict()) in src/pest;
      A4  no function mutates a module-level list / dict / set through its name (append, update, item store, ...);
      A5  no function writes or mutates an attribute of a class object (Cls.x, cls.x, type(self).x, self.__class__.x);
          A1 also covers item stores through an attribute of self (self.x[k] = v).
    An over-approximation of 'writes to shared state' for direct writes (aliases are not followed)."""

    target = "pest.grammar.optimizer.Optimizer.optimize"
    label = "C15.construction[frame audit]"
    ALLOW_SELF_WRITES = {("Optimizer", "log"), ("OptimizedChoice", "_compiled"), ("OptimizedChoice", "choices"), ("Expression", "_pure"), ("Identifier", "_pure")}
    PER_CALL_CLASSES = {"Builder", "Scanner", "ParserState", "Stack", "SnapshottingInt", "Stream", "Pairs", "Pair", "Position", "Span", "Token", "RuleFrame"}
    MUTATORS = {"append", "extend", "insert", "pop", "remove", "clear", "update", "setdefault", "add", "discard", "popitem", "sort", "reverse"}

    def source(self, engine):
        return engine.program.funcs[self.target]

    def direct(self, run: Run) -> None:  # noqa: C901, PLR0912
        self_writes, globals_, mutable_defaults, module_mutations = [], [], [], []
        class_writes: list[str] = []
        for path in sorted(_src_root().rglob("*.py")):
            rel = str(path.relative_to(_src_root()))
            tree = ast.parse(path.read_text())
            module_mutables = set()
            for st in tree.body:
                tgts = st.targets if isinstance(st, ast.Assign) else [st.target] if isinstance(st, ast.AnnAssign) and st.value is not None else []
                val = getattr(st, "value", None)
                if tgts and isinstance(val, (ast.List, ast.Dict, ast.Set, ast.ListComp, ast.DictComp, ast.SetComp)) or (
                    tgts and isinstance(val, ast.Call) and isinstance(val.func, ast.Name) and val.func.id in ("list", "dict", "set", "defaultdict")
                ):
                    module_mutables |= {t.id for t in tgts if isinstance(t, ast.Name)}
            for nd in ast.walk(tree):
                if isinstance(nd, (ast.Global, ast.Nonlocal)):
                    globals_.append(f"{rel}:{nd.lineno}")
                if isinstance(nd, (ast.FunctionDef, ast.AsyncFunctionDef, ast.Lambda)):
                    for d in [*nd.args.defaults, *[k for k in nd.args.kw_defaults if k is not None]]:
                        if isinstance(d, (ast.List, ast.Dict, ast.Set)) or (isinstance(d, ast.Call) and isinstance(d.func, ast.Name) and d.func.id in ("list", "dict", "set")):
                            mutable_defaults.append(f"{rel}:{d.lineno}")
                if isinstance(nd, ast.FunctionDef):
                    for sub in ast.walk(nd):
                        if isinstance(sub, ast.Call) and isinstance(sub.func, ast.Attribute) and isinstance(sub.func.value, ast.Name) and sub.func.value.id in module_mutables and sub.func.attr in self.MUTATORS:
                            module_mutations.append(f"{rel}:{sub.lineno} {sub.func.value.id}.{sub.func.attr}")
                        if isinstance(sub, (ast.Assign, ast.AugAssign)):
                            for t in sub.targets if isinstance(sub, ast.Assign) else [sub.target]:
                                if isinstance(t, ast.Subscript) and isinstance(t.value, ast.Name) and t.value.id in module_mutables:
                                    module_mutations.append(f"{rel}:{sub.lineno} {t.value.id}[..] =")
            for cls in [n for n in ast.walk(tree) if isinstance(n, ast.ClassDef)]:
                if cls.name in self.PER_CALL_CLASSES or rel in ("grammar/parser.py", "grammar/scanner.py", "grammar/codegen/builder.py"):
                    continue  # objects created per call (the grammar front end's Scanner / Parser, the code Builder)
                for fn in [f for f in cls.body if isinstance(f, ast.FunctionDef)]:
                    if fn.name in ("__init__", "__post_init__", "__new__"):
                        continue
                    for sub in ast.walk(fn):
                        tgts = []
                        if isinstance(sub, ast.Assign):
                            tgts = sub.targets
                        elif isinstance(sub, (ast.AugAssign, ast.AnnAssign)):
                            tgts = [sub.target]
                        elif isinstance(sub, ast.Delete):
                            tgts = sub.targets
                        for t in tgts:
                            for leaf in ast.walk(t):
                                if isinstance(leaf, ast.Attribute) and isinstance(leaf.value, ast.Name) and leaf.value.id == "self" and isinstance(leaf.ctx, (ast.Store, ast.Del)):
                                    if (cls.name, leaf.attr) not in self.ALLOW_SELF_WRITES:
                                        self_writes.append(f"{rel}:{sub.lineno} {cls.name}.{fn.name}: self.{leaf.attr}")
                        if isinstance(sub, ast.Call) and isinstance(sub.func, ast.Attribute) and sub.func.attr in self.MUTATORS:
                            v = sub.func.value
                            if isinstance(v, ast.Attribute) and isinstance(v.value, ast.Name) and v.value.id == "self" and (cls.name, v.attr) not in self.ALLOW_SELF_WRITES:
                                self_writes.append(f"{rel}:{sub.lineno} {cls.name}.{fn.name}: self.{v.attr}.{sub.func.attr}()")
                        # item stores / deletes through an attribute of self: self.x[k] = v, del self.x[k], self.x[k] += v
                        for t in tgts:
                            if isinstance(t, ast.Subscript):
                                v = t.value
                                while isinstance(v, ast.Subscript):
                                    v = v.value
                                if isinstance(v, ast.Attribute) and isinstance(v.value, ast.Name) and v.value.id == "self" and (cls.name, v.attr) not in self.ALLOW_SELF_WRITES:
                                    self_writes.append(f"{rel}:{sub.lineno} {cls.name}.{fn.name}: self.{v.attr}[..] =")
            # A5  state kept on a CLASS (shared by every instance and subclass): no method or function writes an attribute of a
            #     class object (Cls.x = .., cls.x = .., type(self).x = .., self.__class__.x = ..) or mutates one in place
            #     (Cls.x.append(..), Cls.x[k] = ..); class-level containers may only be read.
            class_names = {c.name for c in ast.walk(tree) if isinstance(c, ast.ClassDef)}

            def is_class_ref(e):
                if isinstance(e, ast.Name) and (e.id in class_names or e.id == "cls"):
                    return True
                if isinstance(e, ast.Call) and isinstance(e.func, ast.Name) and e.func.id == "type":
                    return True
                return isinstance(e, ast.Attribute) and e.attr == "__class__"

            for fn in [f for f in ast.walk(tree) if isinstance(f, ast.FunctionDef)]:
                for sub in ast.walk(fn):
                    tg = sub.targets if isinstance(sub, (ast.Assign, ast.Delete)) else [sub.target] if isinstance(sub, (ast.AugAssign, ast.AnnAssign)) else []
                    for t in tg:
                        v = t
                        while isinstance(v, ast.Subscript):
                            v = v.value
                        if isinstance(v, ast.Attribute) and is_class_ref(v.value) and (v is t and isinstance(t.ctx, (ast.Store, ast.Del)) or v is not t):
                            class_writes.append(f"{rel}:{sub.lineno} {fn.name}: {ast.unparse(t)} =")
                    if isinstance(sub, ast.Call) and isinstance(sub.func, ast.Attribute) and sub.func.attr in self.MUTATORS:
                        v = sub.func.value
                        while isinstance(v, ast.Subscript):
                            v = v.value
                        if isinstance(v, ast.Attribute) and is_class_ref(v.value):
                            class_writes.append(f"{rel}:{sub.lineno} {fn.name}: {ast.unparse(sub.func)}()")
                    if isinstance(sub, ast.Call) and isinstance(sub.func, ast.Name) and sub.func.id == "setattr" and sub.args and is_class_ref(sub.args[0]):
                        class_writes.append(f"{rel}:{sub.lineno} {fn.name}: setattr on a class")
        run.oblige("frame.audit.no_self_writes_outside_init", not self_writes, note=str(self_writes[:6]))
        run.oblige("frame.audit.no_global_statements", not globals_, note=str(globals_[:6]))
        run.oblige("frame.audit.no_mutable_defaults", not mutable_defaults, note=str(mutable_defaults[:6]))
        run.oblige("frame.audit.no_module_level_mutation", not module_mutations, note=str(module_mutations[:6]))
        run.oblige("frame.audit.no_class_level_writes", not class_writes, note=str(class_writes[:6]))


# ------------------------------------------------------------------ dynamic frame check of the construction side
def _fingerprint(obj: Any, seen: dict[int, int], depth: int = 0) -> Any:
    """deep structural fingerprint (identity-aware) of the shared objects reachable from obj"""
    import regex

    if obj is None or isinstance(obj, (bool, int, float, str, bytes)):
        return obj
    oid = id(obj)
    if oid in seen:
        return ("ref", seen[oid])
    seen[oid] = len(seen)
    if isinstance(obj, (list, tuple)):
        return (type(obj).__name__, [_fingerprint(x, seen, depth + 1) for x in obj])
    if isinstance(obj, dict):
        return ("dict", [(k if isinstance(k, (str, int)) else repr(k), _fingerprint(v, seen, depth + 1)) for k, v in obj.items()])
    if isinstance(obj, (set, frozenset)):
        return ("set", sorted(repr(x) for x in obj))
    if isinstance(obj, regex.Pattern):
        return ("regex", obj.pattern, obj.flags)
    if callable(obj) and not hasattr(obj, "__slots__") and not hasattr(obj, "__dict__"):
        return ("callable", getattr(obj, "__qualname__", repr(obj)))
    fields = []
    for cls in type(obj).__mro__:
        for name in getattr(cls, "__slots__", ()):
            if hasattr(obj, name):
                fields.append((name, _fingerprint(getattr(obj, name), seen, depth + 1)))
    if hasattr(obj, "__dict__"):
        for name, v in vars(obj).items():
            if callable(v) and not isinstance(v, type):
                fields.append((name, ("callable", getattr(v, "__qualname__", "?"))))
            else:
                fields.append((name, _fingerprint(v, seen, depth + 1)))
    return (type(obj).__name__, fields)


def _shared_state() -> Any:
    from pest import Parser
    from pest.grammar import optimizer as opt_mod
    from pest.grammar.codegen import generate as gen_mod
    from pest.grammar.rules import ascii as ascii_mod
    from pest.grammar.rules import unicode as uni_mod

    seen: dict[int, int] = {}
    return _fingerprint(
        {
            "BUILTIN": Parser.BUILTIN,
            "ASCII_RULES": ascii_mod.ASCII_RULES,
            "ASCII_RULE_MAP": ascii_mod.ASCII_RULE_MAP,
            "UNICODE_RULES": uni_mod.UNICODE_RULES,
            "DEFAULT_OPTIMIZER.passes": opt_mod.DEFAULT_OPTIMIZER.passes,
            # every attribute of the process-wide optimizer except its debug log (seeded/C15b kept a flag there)
            "DEFAULT_OPTIMIZER.state": {k: v for k, v in vars(opt_mod.DEFAULT_OPTIMIZER).items() if k != "log"},
            "DEFAULT_OPTIMIZER_PASSES": opt_mod.DEFAULT_OPTIMIZER_PASSES,
            "PRELUDE": gen_mod.PRELUDE,
        },
        seen,
    )


GRAMMARS = [
    'r = { ASCII_HEX_DIGIT ~ NEWLINE ~ (ASCII_ALPHA | "x" | "xy")* ~ ANY? ~ EOI }',
    'WHITESPACE = _{ " " | "\\t" | NEWLINE }\nCOMMENT = _{ "#" ~ (!NEWLINE ~ ANY)* }\nr = { (ASCII_DIGIT+ | ident)* }\nident = @{ ASCII_ALPHA ~ ASCII_ALPHANUMERIC* }',
    'COMMENT = _{ "/*" ~ (!"*/" ~ ANY)* ~ "*/" }\nr = ${ PUSH(LETTER+) ~ (!PEEK ~ ANY)* ~ POP }',
    's = _{ "a" | "b" }\nr = { s{2} ~ s{1,} ~ s{,2} ~ #tt=s }',
    'x = { ANY* }\nr = @{ (!("b" | "\\n") ~ ANY)* ~ "b" ~ x }',
]
INPUTS = ["", "x", "a\n", "12 ab #c\n7", "/*x*/ab", "abab", "aaaaab", "é"]


def _observe(parser_or_fn, rule: str, text: str) -> Any:
    from pest.exceptions import PestParsingError

    from replay.refpeg import tagged_tree_of

    f = parser_or_fn.parse if hasattr(parser_or_fn, "parse") else parser_or_fn
    try:
        return ("ok", tagged_tree_of(f(rule, text)))
    except PestParsingError as e:
        st = e.state
        return ("fail", st.furthest_pos, sorted((k, tuple(v)) for k, v in st.furthest_expected.items()), sorted((k, tuple(v)) for k, v in st.furthest_unexpected.items()))
    except Exception as e:  # noqa: BLE001
        return ("raised", type(e).__name__)


def dynamic_frame_check() -> dict:
    """shared objects keep their fingerprint across construction / optimization / generation / parsing, and an
    observed parse gives the same answer whatever was built or parsed before it (bounded, dynamic)."""
    import threading

    from pest import Parser

    bad: list[dict[str, Any]] = []
    n = 0
    base = _shared_state()

    def check(what: str) -> None:
        nonlocal n
        n += 1
        if _shared_state() != base:
            bad.append({"what": f"shared state changed by {what}"})

    observed: dict[tuple, Any] = {}

    def observe_all(tag: str, parsers) -> None:
        nonlocal n
        for gi, opt, kind, p in parsers:
            for text in INPUTS:
                n += 1
                key = (gi, opt, kind, text)
                got = _observe(p, "r", text)
                if key in observed and observed[key] != got:
                    bad.append({"what": f"result changed ({tag})", "grammar": GRAMMARS[gi], "optimized": opt, "mode": kind, "text": text, "before": str(observed[key])[:120], "after": str(got)[:120]})
                observed.setdefault(key, got)

    parsers = []
    # phase 1: unoptimized parsers first, observe; then build optimized ones; observe again (history independence)
    for gi, g in enumerate(GRAMMARS):
        p = Parser.from_grammar(g, optimizer=None)
        check(f"from_grammar(optimizer=None) #{gi}")
        parsers.append((gi, False, "interp", p))
    observe_all("first", parsers)
    check("parse() calls")
    for gi, g in enumerate(GRAMMARS):
        p = Parser.from_grammar(g)
        check(f"from_grammar(default optimizer) #{gi}")
        parsers.append((gi, True, "interp", p))
        src = p.generate()
        check(f"generate() #{gi}")
        ns: dict[str, Any] = {}
        exec(compile(src, "<g>", "exec"), ns)  # noqa: S102
        parsers.append((gi, True, "gen", ns["parse"]))
    observe_all("after optimized parsers were built", parsers)
    observe_all("after failed and successful parses", parsers)
    # a second instance of everything, built later, must answer the same
    later = []
    for gi, g in enumerate(GRAMMARS):
        later.append((gi, False, "interp", Parser.from_grammar(g, optimizer=None)))
        later.append((gi, True, "interp", Parser.from_grammar(g)))
    observe_all("fresh instances built later", later)
    check("everything")
    # what was optimized before must not matter: a grammar with both trivia rules and a skip pattern in a NON-atomic rule,
    # built on the shared DEFAULT_OPTIMIZER right after a trivia-free grammar, against the same grammar on a fresh Optimizer
    from pest.grammar.optimizer import DEFAULT_OPTIMIZER_PASSES, Optimizer

    g_free = 'r = { (!"z" ~ ANY)* ~ "z" }'
    g_both = 'WHITESPACE = _{ " " }\nCOMMENT = _{ "/*" ~ (!"*/" ~ ANY)* ~ "*/" }\nr = { (!";" ~ ANY)* ~ ";" }'
    texts = ["ab ;", "ab /* ; */", "a b  ;", "ab /* x; y */ cd ;", ";"]
    fresh = Parser.from_grammar(g_both, optimizer=Optimizer(list(DEFAULT_OPTIMIZER_PASSES)))
    Parser.from_grammar(g_free)
    after = Parser.from_grammar(g_both)
    for text in texts:
        n += 1
        a, b = _observe(fresh, "r", text), _observe(after, "r", text)
        if a != b:
            bad.append({"what": "a parser depends on which grammar the shared optimizer handled before", "grammar": g_both, "previous grammar": g_free, "text": text, "fresh optimizer": str(a)[:120], "after": str(b)[:120]})
    check("order of optimizer use")
    # the very same str object parsed from every start position and then again from 0 (a cache keyed on the identity of
    # the input, as in seeded/C15, only shows when one object is parsed twice from different positions)
    for gi, opt, kind, p in parsers:
        f = p.parse if hasattr(p, "parse") else p
        for text in INPUTS:
            for k in range(len(text), -1, -1):
                n += 1
                try:
                    f("r", text, start_pos=k)
                except Exception:  # noqa: BLE001, S110
                    pass
            got = _observe(p, "r", text)
            if got != observed[(gi, opt, kind, text)]:
                bad.append({"what": "result changed after the same input object was parsed from other start positions", "grammar": GRAMMARS[gi], "optimized": opt, "mode": kind, "text": text,
                            "before": str(observed[(gi, opt, kind, text)])[:120], "after": str(got)[:120]})
    check("same object from several positions")
    # concurrency stand-in: the same shared parsers from 8 threads
    errors: list[Any] = []

    def worker() -> None:
        for _ in range(3):
            for gi, opt, kind, p in parsers:
                for text in INPUTS:
                    if _observe(p, "r", text) != observed[(gi, opt, kind, text)]:
                        errors.append((gi, opt, kind, text))

    ts = [threading.Thread(target=worker) for _ in range(8)]
    for t in ts:
        t.start()
    for t in ts:
        t.join()
    n += 8 * 3 * len(parsers) * len(INPUTS)
    if errors:
        bad.append({"what": "result differs under concurrent parse() calls", "cases": str(errors[:3])})
    check("threads")
    return {"name": "c15-dynamic-frame", "kind": "bounded stand-in (dynamic write-effect check: fingerprints of shared objects, history and thread independence of observed parses)",
            "evaluations": n, "bound": f"{len(GRAMMARS)} schematic grammars x {len(INPUTS)} inputs x optimizer on/off x interpreter/generated; 8 threads",
            "violation": bool(bad), "details": bad[:4]}


EXPLANATION = (
    "Frame contracts on the real parse path: for every Expression.parse (all classes, including the optimizer-only ones), "
    "ParserState.parse_trivia, Parser.parse and every emitted template the executor's write log of each explored path is "
    "checked: all writes go to the per-parse ParserState and its components, the caller's pairs list, or objects the "
    "activation allocated itself. The lazy OptimizedChoice pattern cache is proved idempotent and `choices` to have no "
    "writer on the parse path. History- and schedule-independence then follow by confinement (stated). The construction "
    "side (Parser(), optimizer, passes, generate_module) is outside the dialect: dynamic fingerprint check (bounded)."
)
TRUSTED = [
    *groups.COMMON_TRUSTED,
    "confinement argument: a function of its arguments and of never-written heap locations is history-independent; calls writing only call-local objects do not interfere (GIL-level atomicity of attribute stores; regex pattern objects are thread-safe)",
    "the executor's write log covers writes made through callee contracts (Stack / SnapshottingInt / ParserState summaries write only to the state they are given)",
]
ASSUMPTIONS = groups.COMMON_ASSUMPTIONS
BOUNDED = ["construction side (Parser.__init__, from_grammar, Optimizer.optimize, passes, generate_module): dynamic fingerprint / history / 8-thread check on 4 schematic grammars x 8 inputs (stand-in, not proved)"]


def specs(tier):
    interp = [*groups.core_terminals(), *groups.stack_terminals(), *groups.structure(), *groups.backtracking(), *ops.bounded_repeat_specs(),
              *groups.rules(), *groups.trivia(), *groups.entry(), ops.SkipUntilSpec(), ops.RegexNodeSpec("RegexExpression"), ops.RegexNodeSpec("OptimizedChoice")]
    tpl = templates.all_templates(2 if tier == "quick" else 4)
    return [*interp, *tpl, *templates.skipuntil_templates()[:2], *templates.regex_node_templates(), OptimizedChoiceCache(False), OptimizedChoiceCache(True), ChoicesWriters(), ConstructionFrameAudit()]


def extra_checks(tier, seed):
    return [dynamic_frame_check()]


def concretise(tier, seed, refuted, undecided, known):
    r = dynamic_frame_check()
    return [{"found": True, "for": None, "input": d, "observed": d.get("what"), "cmd": "cd /verif && .venv/bin/python -c \"from contracts import c15; print(c15.dynamic_frame_check())\""} for d in r["details"][:1]]
