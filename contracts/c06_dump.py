"""C06, rendering side: Pair.dump / Pair.dumps / Pairs.dump / Pairs.dumps render without error and agree.

"Agree" is made precise by proving both against Spec functions of the SAME abstract tree
(name(p), tag(p), text(p) = input[start:end], children(p)):

    D(p)             = {rule: name(p), span: {str: text(p), start, end}, inner: [D(c) | c in children(p)],
                        node_tag: tag(p) - present iff tag(p) is not None}
    fmt(p, i, nl)    = head ++ ": " ++ json(text(p))                                 if p has no children
                     = head ++ " > " ++ fmt(c0, i, False)                            if p has one child
                     = head ++ "\\n" ++ join("\\n", [fmt(c, i+1, True) | c in children(p)])   otherwise
      head           = ("  " * i ++ "- " if nl else "") ++ (tag(p) ++ " " if tag(p) else "") ++ name(p)
    (pest's format_pair, which the property's "dumps() ... agree with dump()" refers to: the tag is shown iff dump()
     has a node_tag, the text shown for a leaf is the span's str, children appear in the same order and number)

Pair.dumps is recursive: its calls on children are taken at the function's own contract (induction on tree depth); the
list comprehension over the children is the pointwise map `mapfmt(children, i', nl')` (uninterpreted, with its length and
its first element unfolded - all the one-child case needs).  Tags are None or non-empty (TAG tokens are `#` + identifier:
C10's lexical layer), a pair's span lies inside its input (G.wf).

Total uninterpreted library functions (cannot raise for the argument types checked at the call): json.dumps(str),
str.join(list of str), str * int.
"""
from __future__ import annotations

import ast
from typing import Any

import z3

from pyvc.driver import FunctionSpec
from pyvc.engine import PyExc, Run
from pyvc.sorts import OptStr, PairS, RuleS
from pyvc.values import BoundMethod, Ref, SeqV, Sym, z

from .c13_render import is_str, py_join, py_repeat


def pure(run):
    from .c06 import pure as _pure

    return _pure(run)
from .pstate import SeqPair, p_children, p_end, p_start, r_name

PAIR = "pest.pairs.Pair"
PAIRS = "pest.pairs.Pairs"
S = z3.StringSort()
SS = z3.SeqSort(S)
p_rule = z3.Function("p_rule", PairS, RuleS)
p_tag = z3.Function("p_tag", PairS, OptStr)
p_input = z3.Function("p_input", PairS, S)
fmt = z3.Function("fmt_pair", PairS, z3.IntSort(), z3.BoolSort(), S)
mapfmt = z3.Function("map_fmt_pair", SeqPair, z3.IntSort(), z3.BoolSort(), SS)
py_json = z3.Function("py_json_dumps_str", S, S)


def text_of(p):
    return z3.SubString(p_input(p), p_start(p), p_end(p) - p_start(p))


def name_of(p):
    return r_name(p_rule(p))


def wf(p):
    return z3.And(0 <= p_start(p), p_start(p) <= p_end(p), p_end(p) <= z3.Length(p_input(p)),
                  z3.Or(OptStr.is_none_s(p_tag(p)), z3.Length(OptStr.sval(p_tag(p))) > 0))


def mapfmt_facts(seq, i, nl):
    m = mapfmt(seq, i, nl)
    return [z3.Length(m) == z3.Length(seq), z3.Implies(z3.Length(seq) > 0, m[0] == fmt(seq[0], i, nl))]


def fmt_unfold(p, i, nl):
    ch = p_children(p)
    n = z3.Length(ch)
    tagstr = z3.If(OptStr.is_some_s(p_tag(p)), z3.Concat(OptStr.sval(p_tag(p)), z3.StringVal(" ")), z3.StringVal(""))
    head = z3.Concat(z3.If(nl, py_repeat(z3.StringVal("  "), i), z3.StringVal("")), z3.If(nl, z3.StringVal("- "), z3.StringVal("")), tagstr, name_of(p))
    return fmt(p, i, nl) == z3.If(
        n == 0,
        z3.Concat(head, z3.StringVal(": "), py_json(text_of(p))),
        z3.If(n == 1, z3.Concat(head, z3.StringVal(" > "), fmt(ch[0], i, z3.BoolVal(False))),
              z3.Concat(head, z3.StringVal("\n"), py_join(z3.StringVal("\n"), mapfmt(ch, i + 1, z3.BoolVal(True))))),
    )


class MapDump:
    """[c.dump() for c in <seq of pairs>] - the pointwise map of the function's own contract."""

    def __init__(self, seq):
        self.seq = seq


class PyDict:
    def __init__(self, items: dict[str, Any]):
        self.items = items


class DumpModel(FunctionSpec):
    tagged = False

    def post_exc(self, run: Run, pre: Any, exc) -> None:
        from .c06 import accessor_post_exc

        accessor_post_exc(self, run, pre, exc)

    def mk_pair(self, run: Run) -> Ref:
        me = run.fresh("self_pair", "pair")
        p = me.t
        ch = run.new_list("pair", p_children(p), fresh=False)
        tag: Any = None
        if self.tagged:
            tag = run.fresh("tag", "str")
            run.assume(p_tag(p) == OptStr.some_s(tag.t))
        else:
            run.assume(p_tag(p) == OptStr.none_s)
        run.assume(wf(p))
        o = run.heap.alloc(PAIR, {"$term": p, "rule": Sym(p_rule(p), "rule"), "name": Sym(name_of(p), "str"), "input": Sym(p_input(p), "str"),
                                  "start": Sym(p_start(p), "int"), "end": Sym(p_end(p), "int"), "children": ch, "tag": tag}, fresh=False)
        run.pre = {"me": o, "p": p}
        return o

    # ---- executor hooks
    def binop(self, run: Run, op, a, b, n):
        if isinstance(op, ast.Mult) and is_str(a) and run._kind(b) == "int":
            if isinstance(a, str) and isinstance(b, int) and not isinstance(b, bool):
                return a * b
            return Sym(py_repeat(z(a, "str"), z(b, "int")), "str")
        if isinstance(op, ast.Add) and (a is None or b is None):
            raise PyExc("TypeError", "None in +")
        return NotImplemented

    def str_method(self, run: Run, s: Any, name: str, args, kwargs, n):
        if name == "join" and len(args) == 1 and not kwargs:
            t, ek = run.as_seq(args[0], n, "str")
            if ek != "str":
                raise PyExc("TypeError", f"join over a sequence of {ek}")
            return Sym(py_join(z(s, "str"), t), "str")
        return NotImplemented

    def call_external(self, run: Run, name: str, args, kwargs, n):
        if name == "json.dumps":
            if len(args) == 1 and is_str(args[0]) and not kwargs:
                return Sym(py_json(z(args[0], "str")), "str")
            if len(args) == 1 and isinstance(args[0], MapDump):
                run.pre["json_of"] = args[0]
                return run.fresh("json_text", "str")
        return NotImplemented

    def getattr(self, run: Run, base: Any, attr: str, n):
        if isinstance(base, Sym) and base.k == "pair":
            if attr in ("dumps", "dump"):
                return BoundMethod(base, attr)
        if isinstance(base, Sym) and base.k == "rule" and attr == "name":
            return Sym(r_name(base.t), "str")
        return NotImplemented

    def call_method(self, run: Run, recv: Any, name: str, args, kwargs, n):
        # a child's dumps(): the function's own contract (induction on tree depth)
        if isinstance(recv, Sym) and recv.k == "pair" and name == "dumps":
            ind = args[0] if args else kwargs.get("indent", 0)
            nl = kwargs.get("new_line", True)
            if len(args) > 1:
                raise PyExc("TypeError", "dumps() takes 1 positional argument")
            return Sym(fmt(recv.t, z(ind, "int"), z(nl, "bool")), "str")
        if isinstance(recv, Sym) and recv.k == "pair" and name == "dump" and not args and not kwargs:
            return ("$dump_of", recv.t)
        return NotImplemented

    def listcomp(self, run: Run, n):
        # [<elt over x> for x in <list of pairs>] where elt is x.dumps(..) or x.dump(): the pointwise map
        if len(n.generators) != 1 or n.generators[0].ifs or not isinstance(n.generators[0].target, ast.Name):
            return NotImplemented
        var = n.generators[0].target.id
        it = run.eval(n.generators[0].iter)
        t, ek = run.as_seq(it, n, "pair")
        if ek != "pair":
            return NotImplemented
        x = run.fresh("elt", "pair")
        env = run.frame.env
        had, old = var in env, env.get(var)
        env[var] = x
        try:
            v = run.eval(n.elt)
        finally:
            if had:
                env[var] = old
            else:
                del env[var]
        if isinstance(v, tuple) and len(v) == 2 and v[0] == "$dump_of" and z3.eq(v[1], x.t):
            return MapDump(t)
        if isinstance(v, Sym) and v.k == "str" and z3.is_app(v.t) and v.t.decl().name() == "fmt_pair" and z3.eq(v.t.arg(0), x.t):
            i, nl = v.t.arg(1), v.t.arg(2)
            for f in mapfmt_facts(t, i, nl):
                run.assume(f)
            return SeqV(mapfmt(t, i, nl), "str")
        return NotImplemented

    def dict_display(self, run: Run, items, n):
        d = {}
        for k, v in items:
            if not isinstance(k, str):
                return NotImplemented
            d[k] = v
        r = run.heap.alloc("pydict", {"$items": d})
        return r

    def setitem(self, run: Run, base: Any, idx: Any, v: Any, n):
        if isinstance(base, Ref) and not run.is_list(base) and run.cls_of(base) == "pydict" and isinstance(idx, str):
            run.obj(base)["$items"] = {**run.obj(base)["$items"], idx: v}
            return None
        return NotImplemented


class PairDumps(DumpModel):
    target = f"{PAIR}.dumps"
    inline = (f"{PAIR}.text",)

    def __init__(self, tagged: bool, new_line: bool):
        self.tagged, self.new_line = tagged, new_line
        self.label = f"{self.target}[tag={'str' if tagged else 'None'},new_line={new_line}]"

    def setup(self, run: Run):
        me = self.mk_pair(run)
        ind = run.fresh("indent", "int")
        run.assume(ind.t >= 0)
        run.pre["indent"] = ind.t
        return me, [ind], {"new_line": self.new_line}

    def post(self, run: Run, pre: Any, out: Any) -> None:
        ok_, why_ = pure(run)
        run.oblige("frame.pure", ok_, note=why_)
        p = pre["p"]
        run.oblige("result.is_str", is_str(out), note=f"returned {out!r}")
        if not is_str(out):
            return
        run.assume(fmt_unfold(p, pre["indent"], z3.BoolVal(self.new_line)))
        run.oblige("result.is_format_of_dump", z(out, "str") == fmt(p, pre["indent"], z3.BoolVal(self.new_line)))


class PairDump(DumpModel):
    target = f"{PAIR}.dump"

    def __init__(self, tagged: bool):
        self.tagged = tagged
        self.label = f"{self.target}[tag={'str' if tagged else 'None'}]"

    def setup(self, run: Run):
        return self.mk_pair(run), [], {}

    def post(self, run: Run, pre: Any, out: Any) -> None:
        ok_, why_ = pure(run)
        run.oblige("frame.pure", ok_, note=why_)
        p = pre["p"]
        ok = isinstance(out, Ref) and not run.is_list(out) and run.cls_of(out) == "pydict"
        run.oblige("result.is_dict", ok)
        if not ok:
            return
        it = run.obj(out)["$items"]
        want = {"rule", "span", "inner"} | ({"node_tag"} if self.tagged else set())
        run.oblige("result.keys", set(it) == want, note=f"keys {sorted(it)}")
        if set(it) != want:
            return
        run.oblige("result.rule", is_str(it["rule"]) and z(it["rule"], "str") == name_of(p))
        sp = it["span"]
        sp_ok = isinstance(sp, Ref) and not run.is_list(sp) and run.cls_of(sp) == "pydict" and set(run.obj(sp)["$items"]) == {"str", "start", "end"}
        run.oblige("result.span.keys", sp_ok)
        if sp_ok:
            si = run.obj(sp)["$items"]
            run.oblige("result.span.str", is_str(si["str"]) and z(si["str"], "str") == text_of(p))
            run.oblige("result.span.start", run._kind(si["start"]) == "int" and z(si["start"], "int") == p_start(p))
            run.oblige("result.span.end", run._kind(si["end"]) == "int" and z(si["end"], "int") == p_end(p))
        inner = it["inner"]
        run.oblige("result.inner.is_map_of_children", isinstance(inner, MapDump) and z3.is_true(z3.simplify(inner.seq == p_children(p))))
        if self.tagged:
            run.oblige("result.node_tag", is_str(it["node_tag"]) and z(it["node_tag"], "str") == OptStr.sval(p_tag(p)))


class PairsDumps(DumpModel):
    target = f"{PAIRS}.dumps"

    def __init__(self, compact: bool):
        self.compact = compact
        self.label = f"{self.target}[compact={compact}]"

    @property
    def summaries(self):
        def dump(run: Run, recv, args, kwargs):
            return MapDump(run.seq(run.obj(recv)["_pairs"]))

        return {f"{PAIRS}.dump": dump}

    def setup(self, run: Run):
        ps = run.fresh_t("pairs", "seq:pair")
        me = run.heap.alloc(PAIRS, {"_pairs": run.new_list("pair", ps, fresh=False)}, fresh=False)
        run.pre = {"S": ps}
        return me, [], {"compact": self.compact}

    def post(self, run: Run, pre: Any, out: Any) -> None:
        ok_, why_ = pure(run)
        run.oblige("frame.pure", ok_, note=why_)
        run.oblige("result.is_str", is_str(out), note=f"returned {out!r}")
        if not is_str(out):
            return
        if self.compact:
            run.oblige("result.is_join_of_formats", z(out, "str") == py_join(z3.StringVal("\n"), mapfmt(pre["S"], z3.IntVal(0), z3.BoolVal(True))))
        else:
            j = pre.get("json_of")
            run.oblige("result.is_json_of_dump", isinstance(j, MapDump) and z3.is_true(z3.simplify(j.seq == pre["S"])))


class PairsDump(DumpModel):
    target = f"{PAIRS}.dump"

    def setup(self, run: Run):
        ps = run.fresh_t("pairs", "seq:pair")
        me = run.heap.alloc(PAIRS, {"_pairs": run.new_list("pair", ps, fresh=False)}, fresh=False)
        run.pre = {"S": ps}
        return me, [], {}

    def post(self, run: Run, pre: Any, out: Any) -> None:
        ok_, why_ = pure(run)
        run.oblige("frame.pure", ok_, note=why_)
        run.oblige("result.is_map_of_pairs", isinstance(out, MapDump) and z3.is_true(z3.simplify(out.seq == pre["S"])))


def specs(tier):
    return [PairDumps(t, nl) for t in (False, True) for nl in (False, True)] + [PairDump(False), PairDump(True), PairsDumps(True), PairsDumps(False), PairsDump()]
