"""C09 — contracts for pest.stack.Stack, pest.checkpoint_int.SnapshottingInt and
ParserState.checkpoint/ok/restore.

Oracle (from the property text): a reference that stores *full copies*.
Abstract view of a Stack:  view = (items : Seq T,  snaps : list of Seq T, newest first).
    push x     -> (items ++ [x], snaps)
    pop        -> items = [] ? IndexError, state unchanged : (items[:-1], snaps), result items[-1]
    clear      -> ([], snaps)
    snapshot   -> (items, items :: snaps)
    restore    -> snaps = [] ? ([], []) : (head snaps, tail snaps)
    drop       -> snaps = [] ? (items, []) : (items, tail snaps)

Representation invariant Inv(items, popped, lengths, snaps) relates the delta encoding
(popped, lengths) to the list of full copies; it is an *opaque* recursive predicate that
is unfolded `depth` levels at the pre-state (hypothesis) and at the post-state (goal).
"""
from __future__ import annotations

from typing import Any

import z3

from pyvc.driver import FunctionSpec
from pyvc.engine import PyExc, Run
from pyvc.sorts import SL, IntPair, rev_fn, sort_of
from pyvc.values import Ref, Sym, SliceV, wrap, z

from . import common
from .common import SINT, SINT_INLINE, STACK_SUMMARIES, new_abstract_stack, new_sint, sl_len_facts, sl_len_fn, stack_view

EK = "elem"
SLT = SL(EK)
SeqE = z3.SeqSort(sort_of(EK))
SeqIP = z3.SeqSort(IntPair)
Inv = z3.Function("StackInv", SeqE, SeqE, SeqIP, SLT.sort, z3.BoolSort())
REV = rev_fn(EK)

STACK = "pest.stack.Stack"


def inv_body(I, P, L, S, inner) -> z3.BoolRef:  # noqa: N803, E741
    nL = z3.Length(L)  # noqa: N806
    last = L[nL - 1]
    c, r = IntPair.fst(last), IntPair.snd(last)
    n = c - r
    nP = z3.Length(P)  # noqa: N806
    s = SLT.hd(S)
    tail = z3.SubSeq(P, nP - n, n)
    return z3.Or(
        z3.And(nL == 0, S == SLT.nil, nP == 0),
        z3.And(
            nL > 0,
            SLT.is_cons(S),
            0 <= r,
            r <= c,
            r <= z3.Length(I),
            n <= nP,
            z3.Length(s) == c,
            s == z3.Concat(z3.SubSeq(I, 0, r), REV(tail)),
            inner(s, z3.SubSeq(P, 0, nP - n), z3.SubSeq(L, 0, nL - 1), SLT.tl(S)),
        ),
    )


def unfold(I, P, L, S, depth: int) -> z3.BoolRef:  # noqa: N803, E741
    """Inv unfolded `depth` levels; the innermost level is the opaque atom."""
    if depth == 0:
        return Inv(I, P, L, S)
    return inv_body(I, P, L, S, lambda a, b, c, d: unfold(a, b, c, d, depth - 1))


def rev_facts(terms: list[z3.ExprRef]) -> list[z3.BoolRef]:
    """Lemma instances about list reversal (each a Mathlib fact about List.reverse; trusted in quick tier).

    For every t in terms:  |rev t| = |t|;  t = [] -> rev t = [];
    for t syntactically X ++ [x]:  rev t = [x] ++ rev X  (handled by callers through snoc()).
    """
    out = []
    for t in terms:
        out.append(z3.Length(REV(t)) == z3.Length(t))
        out.append(z3.Implies(z3.Length(t) == 0, z3.Length(REV(t)) == 0))
    return out


def rev_snoc(X, x) -> z3.BoolRef:  # noqa: N803
    return REV(z3.Concat(X, z3.Unit(x))) == z3.Concat(z3.Unit(x), REV(X))


def rev_concat(A, B) -> z3.BoolRef:  # noqa: N803
    return REV(z3.Concat(A, B)) == z3.Concat(REV(B), REV(A))


def rev_unit(x) -> z3.BoolRef:
    return REV(z3.Unit(x)) == z3.Unit(x)


class StackSpec(FunctionSpec):
    """Common harness: symbolic Stack satisfying Inv, ghost `snaps`."""

    method = ""
    pre_depth = 1  # unfoldings of Inv assumed at the pre-state
    post_depth = 1  # unfoldings of Inv to be shown at the post-state
    raises: tuple[str, ...] = ()

    def __init__(self) -> None:
        self.target = f"{STACK}.{self.method}"
        self.revs: list[z3.ExprRef] = []

    # the executor asks us how to model reversed(xs) passed to extend()
    def reverse(self, run: Run, t: z3.ExprRef, ek: str) -> z3.ExprRef:
        run.ghost.setdefault("revs", []).append(t)
        return REV(t)

    def mk_stack(self, run: Run) -> Ref:
        I = run.fresh_t("I", "seq:elem")  # noqa: N806, E741
        P = run.fresh_t("P", "seq:elem")  # noqa: N806
        L = run.fresh_t("L", "seq:intpair")  # noqa: N806
        S = z3.Const("S0", SLT.sort)  # noqa: N806
        items = run.new_list("elem", I, fresh=False)
        popped = run.new_list("elem", P, fresh=False)
        lengths = run.new_list("intpair", L, fresh=False)
        st = run.heap.alloc(STACK, {"items": items, "popped": popped, "lengths": lengths}, fresh=False)
        run.assume(Inv(I, P, L, S))
        run.assume(unfold(I, P, L, S, self.pre_depth))
        # lemma instances for the pre-state tails the unfolding mentions
        nP, nL = z3.Length(P), z3.Length(L)  # noqa: N806
        last = L[nL - 1]
        n = IntPair.fst(last) - IntPair.snd(last)
        for f in rev_facts([z3.SubSeq(P, nP - n, n)]):
            run.assume(f, "rev-length lemma instance")
        run.pre = {"I": I, "P": P, "L": L, "S": S, "stack": st}
        return st

    def cur(self, run: Run) -> tuple[Any, Any, Any]:
        st = run.pre["stack"]
        o = run.obj(st)
        return run.seq(o["items"]), run.seq(o["popped"]), run.seq(o["lengths"])

    def args(self, run: Run) -> list[Any]:
        return []

    def setup(self, run: Run):
        st = self.mk_stack(run)
        return st, self.args(run), {}

    # reference operation on the view: returns (items', snaps', result or None)
    def ref(self, run: Run, I, S, args):  # noqa: N803, E741
        raise NotImplementedError

    def hints(self, run: Run) -> list[z3.BoolRef]:
        return []

    def post(self, run: Run, pre: Any, out: Any) -> None:
        I0, S0 = pre["I"], pre["S"]  # noqa: N806
        I1, P1, L1 = self.cur(run)  # noqa: N806
        Ir, Sr, res = self.ref(run, I0, S0, run.ghost.get("args", []))  # noqa: N806
        for f in rev_facts(run.ghost.get("revs", [])):
            run.assume(f, "rev-length lemma instance")
        for f in self.hints(run):
            run.assume(f, "rev lemma instance")
        w = {"I0": I0, "P0": pre["P"], "L0": pre["L"], "I1": I1, "P1": P1, "L1": L1}
        run.oblige("view.items", I1 == Ir, w)
        run.oblige("inv", unfold(I1, P1, L1, Sr, self.post_depth), w)
        if res is not None:
            run.oblige("result", z(out) == res, w)
        # the same three list objects are still the fields (no aliasing introduced)
        o = run.obj(pre["stack"])
        run.oblige("frame.fields", all(isinstance(o[f], Ref) for f in ("items", "popped", "lengths")))

    def post_exc(self, run: Run, pre: Any, exc: PyExc) -> None:
        if exc.name in self.raises:
            I1, P1, L1 = self.cur(run)  # noqa: N806
            ok, = self.exc_when(run, pre["I"], pre["S"])
            run.oblige(f"raises.{exc.name}.when", ok)
            run.oblige(
                f"raises.{exc.name}.unchanged", z3.And(I1 == pre["I"], P1 == pre["P"], L1 == pre["L"])
            )
            return
        super().post_exc(run, pre, exc)

    def exc_when(self, run: Run, I, S):  # noqa: N803, E741
        return (z3.BoolVal(False),)


class Push(StackSpec):
    method = "push"

    def args(self, run: Run) -> list[Any]:
        x = run.fresh("x", "elem")
        run.ghost["args"] = [x]
        return [x]

    def ref(self, run, I, S, args):  # noqa: N803, E741
        return (*common.ref_push(I, S, args[0].t), None)


class Pop(StackSpec):
    method = "pop"
    raises = ("IndexError",)

    def ref(self, run, I, S, args):  # noqa: N803, E741
        return common.ref_pop(I, S)

    def exc_when(self, run, I, S):  # noqa: N803, E741
        return (z3.Length(I) == 0,)

    def hints(self, run: Run) -> list[z3.BoolRef]:
        pre = run.pre
        P, L, I = pre["P"], pre["L"], pre["I"]  # noqa: N806, E741
        nP, nL = z3.Length(P), z3.Length(L)  # noqa: N806
        last = L[nL - 1]
        n = IntPair.fst(last) - IntPair.snd(last)
        X = z3.SubSeq(P, nP - n, n)  # noqa: N806
        x = I[z3.Length(I) - 1]
        return [rev_snoc(X, x), *rev_facts([z3.Concat(X, z3.Unit(x))])]


class Peek(StackSpec):
    method = "peek"
    raises = ("IndexError",)

    def ref(self, run, I, S, args):  # noqa: N803, E741
        return I, S, I[z3.Length(I) - 1]

    def exc_when(self, run, I, S):  # noqa: N803, E741
        return (z3.Length(I) == 0,)


class Empty(StackSpec):
    method = "empty"

    def ref(self, run, I, S, args):  # noqa: N803, E741
        return I, S, z3.Length(I) == 0


class Len(StackSpec):
    method = "__len__"

    def ref(self, run, I, S, args):  # noqa: N803, E741
        return I, S, z3.Length(I)


class Clear(StackSpec):
    method = "clear"

    def ref(self, run, I, S, args):  # noqa: N803, E741
        return (*common.ref_clear(I, S), None)

    def hints(self, run: Run) -> list[z3.BoolRef]:
        pre = run.pre
        P, L, I = pre["P"], pre["L"], pre["I"]  # noqa: N806, E741
        nP, nL = z3.Length(P), z3.Length(L)  # noqa: N806
        last = L[nL - 1]
        c, r = IntPair.fst(last), IntPair.snd(last)
        X = z3.SubSeq(P, nP - (c - r), c - r)  # noqa: N806
        out = []
        # rev(X ++ rev(Y)) = rev(rev Y) ++ rev X = Y ++ rev X   for Y any prefix of items the code reversed
        for Y in run.ghost.get("revs", []):  # noqa: N806
            out += [rev_concat(X, REV(Y)), REV(REV(Y)) == Y, *rev_facts([z3.Concat(X, REV(Y)), REV(Y)])]
        return out


class Snapshot(StackSpec):
    method = "snapshot"

    def ref(self, run, I, S, args):  # noqa: N803, E741
        return (*common.ref_snapshot(I, S, SLT), None)

    def hints(self, run: Run) -> list[z3.BoolRef]:
        e = z3.Empty(SeqE)
        return [REV(e) == e]


class Restore(StackSpec):
    method = "restore"
    pre_depth = 2

    def ref(self, run, I, S, args):  # noqa: N803, E741
        return (*common.ref_restore(I, S, SLT), None)


class DropSnapshot(StackSpec):
    method = "drop_snapshot"
    pre_depth = 2

    def ref(self, run, I, S, args):  # noqa: N803, E741
        return (*common.ref_drop(I, S, SLT), None)

    def mk_stack(self, run: Run) -> Ref:
        st = super().mk_stack(run)
        # second-level tail lemma instances
        pre = run.pre
        P, L = pre["P"], pre["L"]  # noqa: N806
        nP, nL = z3.Length(P), z3.Length(L)  # noqa: N806
        last = L[nL - 1]
        n = IntPair.fst(last) - IntPair.snd(last)
        P2 = z3.SubSeq(P, 0, nP - n)  # noqa: N806
        L2 = z3.SubSeq(L, 0, nL - 1)  # noqa: N806
        last2 = L2[z3.Length(L2) - 1]
        n2 = IntPair.fst(last2) - IntPair.snd(last2)
        for f in rev_facts([z3.SubSeq(P2, z3.Length(P2) - n2, n2)]):
            run.assume(f, "rev-length lemma instance")
        return st

    def hints(self, run: Run) -> list[z3.BoolRef]:
        # instances needed by a *correct* drop: popped tail of the inner snapshot splits as A ++ B,
        # rev(A ++ B) = rev B ++ rev A, and for the merged outer tail rev(T2 ++ B) = rev B ++ rev T2.
        pre = run.pre
        P, L = pre["P"], pre["L"]  # noqa: N806
        nP, nL = z3.Length(P), z3.Length(L)  # noqa: N806
        last = L[nL - 1]
        c, r = IntPair.fst(last), IntPair.snd(last)
        n = c - r
        L2 = z3.SubSeq(L, 0, nL - 1)  # noqa: N806
        last2 = L2[z3.Length(L2) - 1]
        c2, r2 = IntPair.fst(last2), IntPair.snd(last2)
        n2 = c2 - r2
        P2 = z3.SubSeq(P, 0, nP - n)  # noqa: N806
        T2 = z3.SubSeq(P2, z3.Length(P2) - n2, n2)  # noqa: N806
        k = r2 - r  # items the inner snapshot popped below the outer low-water mark
        A = z3.SubSeq(P, nP - n, n - k)  # noqa: N806
        B = z3.SubSeq(P, nP - k, k)  # noqa: N806
        return [
            z3.Implies(z3.And(k > 0, k <= n), rev_concat(A, B)),
            z3.Implies(z3.And(k > 0, k <= n), rev_concat(T2, B)),
            *rev_facts([A, B, T2, z3.Concat(T2, B), z3.Concat(A, B)]),
        ]




class GetItem(StackSpec):
    """__getitem__(int): items[i] with Python index rules (IndexError when out of range)."""

    method = "__getitem__"
    raises = ("IndexError",)

    def args(self, run: Run) -> list[Any]:
        i = run.fresh("i", "int")
        run.ghost["args"] = [i]
        return [i]

    def ref(self, run, I, S, args):  # noqa: N803, E741
        i = args[0].t
        return I, S, I[z3.If(i < 0, i + z3.Length(I), i)]

    def exc_when(self, run, I, S):  # noqa: N803, E741
        i = run.ghost["args"][0].t
        return (z3.Or(i < -z3.Length(I), i >= z3.Length(I)),)


class GetSlice(StackSpec):
    """__getitem__(slice): a copy of items[a:b]."""

    method = "__getitem__"
    label = f"{STACK}.__getitem__[slice]"

    def args(self, run: Run) -> list[Any]:
        a, b = run.fresh("a", "optint"), run.fresh("b", "optint")
        run.ghost["args"] = [a, b]
        return [SliceV(a, b)]

    def ref(self, run, I, S, args):  # noqa: N803, E741
        return I, S, None

    def post(self, run: Run, pre: Any, out: Any) -> None:
        super().post(run, pre, out)
        a, b = run.ghost["args"]
        t, _ = run.as_seq(out, None)
        run.oblige("result.slice", t == run.slice_seq(pre["I"], a, b))
        run.oblige("result.fresh", isinstance(out, Ref) and out != run.obj(pre["stack"])["items"])


class Iter(StackSpec):
    method = "__iter__"

    def ref(self, run, I, S, args):  # noqa: N803, E741
        return I, S, None

    def call_builtin(self, run, name, args, kwargs, n):
        return NotImplemented

    def post(self, run: Run, pre: Any, out: Any) -> None:
        super().post(run, pre, out)
        t, _ = run.as_seq(out, None)
        run.oblige("result.iterates_items", t == pre["I"])


class Init(FunctionSpec):
    target = f"{STACK}.__init__"

    def setup(self, run: Run):
        st = run.heap.alloc(STACK, {}, fresh=False)
        run.pre = {"stack": st}
        return st, [], {}

    def post(self, run: Run, pre: Any, out: Any) -> None:
        o = run.obj(pre["stack"])
        ok = all(isinstance(o.get(f), Ref) and run.is_list(o[f]) and run.seq(o[f]) is None for f in ("items", "popped", "lengths"))
        run.oblige("empty", ok)
        run.oblige("distinct", len({o[f].oid for f in ("items", "popped", "lengths")}) == 3 if ok else False)


# ======================================================================= SnapshottingInt
class SIntSpec(FunctionSpec):
    method = ""

    def __init__(self) -> None:
        self.target = f"{SINT}.{self.method}"

    def setup(self, run: Run):
        v = run.fresh("v", "int")
        C = run.fresh_t("C", "seq:int")  # noqa: N806
        o = new_sint(run, v, C)
        run.pre = {"o": o, "v": v.t, "C": C}
        return o, self.args(run), {}

    def args(self, run: Run) -> list[Any]:
        return []

    def cur(self, run: Run):
        o = run.obj(run.pre["o"])
        return z(o["_value"]), run.seq(o["_checkpoints"])

    def ref(self, run: Run, v, C, args):  # noqa: N803
        """(value', checkpoints', result) of the full-copy reference; result None = not checked,
        'self' = must return the object itself."""
        raise NotImplementedError

    def post(self, run: Run, pre: Any, out: Any) -> None:
        v1, C1 = self.cur(run)  # noqa: N806
        vr, Cr, res = self.ref(run, pre["v"], pre["C"], run.ghost.get("args", []))  # noqa: N806
        run.oblige("view.value", v1 == vr)
        run.oblige("view.checkpoints", C1 == Cr)
        if isinstance(res, str) and res == "self":
            run.oblige("result.self", out == pre["o"])
        elif res is not None:
            run.oblige("result", z(out) == res)


class SISnapshot(SIntSpec):
    method = "snapshot"

    def ref(self, run, v, C, args):  # noqa: N803
        return v, z3.Concat(C, z3.Unit(v)), None


class SIRestore(SIntSpec):
    method = "restore"

    def ref(self, run, v, C, args):  # noqa: N803
        n = z3.Length(C)
        return z3.If(n > 0, C[n - 1], 0), z3.If(n > 0, z3.SubSeq(C, 0, n - 1), C), "self"


class SIDrop(SIntSpec):
    method = "drop"

    def ref(self, run, v, C, args):  # noqa: N803
        n = z3.Length(C)
        return v, z3.If(n > 0, z3.SubSeq(C, 0, n - 1), C), None


class SIZero(SIntSpec):
    method = "zero"

    def ref(self, run, v, C, args):  # noqa: N803
        return z3.IntVal(0), C, None


class SIAdd(SIntSpec):
    method = "__add__"
    inline = (f"{SINT}.__int__",)

    def args(self, run: Run) -> list[Any]:
        k = run.fresh("k", "int")
        run.ghost["args"] = [k]
        return [k]

    def ref(self, run, v, C, args):  # noqa: N803
        return v + args[0].t, C, "self"


class SIInt(SIntSpec):
    method = "__int__"

    def ref(self, run, v, C, args):  # noqa: N803
        return v, C, v


class SIGt(SIntSpec):
    method = "__gt__"

    def args(self, run: Run) -> list[Any]:
        k = run.fresh("k", "int")
        run.ghost["args"] = [k]
        return [k]

    def ref(self, run, v, C, args):  # noqa: N803
        return v, C, v > args[0].t


class SIEq(SIGt):
    method = "__eq__"

    def ref(self, run, v, C, args):  # noqa: N803
        return v, C, v == args[0].t


class SIInit(FunctionSpec):
    target = f"{SINT}.__init__"

    def setup(self, run: Run):
        o = run.heap.alloc(SINT, {}, fresh=False)
        run.pre = {"o": o}
        return o, [], {}

    def post(self, run: Run, pre: Any, out: Any) -> None:
        o = run.obj(pre["o"])
        run.oblige("value0", o.get("_value") == 0 and isinstance(o.get("_value"), int))
        c = o.get("_checkpoints")
        run.oblige("nocheckpoints", isinstance(c, Ref) and run.seq(c) is None)


# ======================================================================= ParserState
PSTATE = "pest.state.ParserState"


class StackAware:
    """Executor hooks: an abstract Stack iterates / converts as its items."""

    def as_seq(self, run: Run, v: Any):
        if isinstance(v, Ref) and run.cls_of(v) == STACK:
            o = run.obj(v)
            return run.seq(o["items"]), o["$ek"]
        return NotImplemented

    def iter_guard(self, run: Run, it: Any):
        if isinstance(it, Ref) and run.cls_of(it) == STACK:
            return [run.obj(it)["items"].oid]
        return []


def mk_pstate(run: Run, wf: bool = True) -> Ref:
    """A symbolic ParserState: the four snapshotting components + pos, all else absent."""
    pos = run.fresh("pos", "int")
    us = new_abstract_stack(run, "str", run.fresh_t("stk", "seq:str"), z3.Const("us_snaps", SL("str").sort))
    rs = new_abstract_stack(run, "rule", run.fresh_t("rstk", "seq:rule"), z3.Const("rs_snaps", SL("rule").sort))
    ad = new_sint(run, run.fresh("atom", "int"), run.fresh_t("atom_cps", "seq:int"))
    ph = run.new_list("int", run.fresh_t("pos_hist", "seq:int"), fresh=False)
    st = run.heap.alloc(
        PSTATE,
        {"pos": pos, "user_stack": us, "rule_stack": rs, "atomic_depth": ad, "_pos_history": ph},
        fresh=False,
    )
    return st


def pstate_view(run: Run, st: Ref) -> dict[str, z3.ExprRef]:
    o = run.obj(st)
    ui, us = stack_view(run, o["user_stack"])
    ri, rs = stack_view(run, o["rule_stack"])
    ad = run.obj(o["atomic_depth"])
    return {
        "pos": z(o["pos"]),
        "stk": ui,
        "stk_snaps": us,
        "rstk": ri,
        "rstk_snaps": rs,
        "atom": z(ad["_value"]),
        "atom_cps": run.seq(ad["_checkpoints"]),
        "pos_hist": run.seq(o["_pos_history"]),
    }


def aligned(run: Run, v: dict[str, z3.ExprRef]) -> list[z3.BoolRef]:
    """wf: the four component snapshot lists have the same length (they are one list of 4-tuples)."""
    n = z3.Length(v["pos_hist"])
    return [
        *sl_len_facts("str", v["stk_snaps"]),
        *sl_len_facts("rule", v["rstk_snaps"]),
        sl_len_fn("str")(v["stk_snaps"]) == n,
        sl_len_fn("rule")(v["rstk_snaps"]) == n,
        z3.Length(v["atom_cps"]) == n,
    ]


class PSSpec(StackAware, FunctionSpec):
    method = ""
    summaries = STACK_SUMMARIES
    inline = SINT_INLINE

    def __init__(self) -> None:
        self.target = f"{PSTATE}.{self.method}"

    def setup(self, run: Run):
        st = mk_pstate(run)
        v = pstate_view(run, st)
        for f in aligned(run, v):
            run.assume(f)
        run.pre = {"st": st, "v": v}
        return st, [], {}

    def same_objects(self, run: Run, pre: Any) -> bool:
        o = run.obj(pre["st"])
        return all(isinstance(o[f], Ref) for f in ("user_stack", "rule_stack", "atomic_depth", "_pos_history"))


class PSCheckpoint(PSSpec):
    method = "checkpoint"

    def post(self, run: Run, pre: Any, out: Any) -> None:
        v0, v1 = pre["v"], pstate_view(run, pre["st"])
        s_str, s_rule = SL("str"), SL("rule")
        run.oblige("current.unchanged", z3.And(*[v1[k] == v0[k] for k in ("pos", "stk", "rstk", "atom")]))
        run.oblige(
            "snaps.pushed",
            z3.And(
                v1["stk_snaps"] == s_str.cons(v0["stk"], v0["stk_snaps"]),
                v1["rstk_snaps"] == s_rule.cons(v0["rstk"], v0["rstk_snaps"]),
                v1["atom_cps"] == z3.Concat(v0["atom_cps"], z3.Unit(v0["atom"])),
                v1["pos_hist"] == z3.Concat(v0["pos_hist"], z3.Unit(v0["pos"])),
            ),
        )
        for f in [*sl_len_facts("str", v1["stk_snaps"]), *sl_len_facts("rule", v1["rstk_snaps"])]:
            run.assume(f)
        run.oblige("aligned", z3.And(*aligned(run, v1)[-3:]))
        run.oblige("frame.objects", self.same_objects(run, pre))


class PSOk(PSSpec):
    method = "ok"
    raises = ("IndexError",)

    def post(self, run: Run, pre: Any, out: Any) -> None:
        v0, v1 = pre["v"], pstate_view(run, pre["st"])
        s_str, s_rule = SL("str"), SL("rule")
        n = z3.Length(v0["pos_hist"])
        run.oblige("requires.checkpoint", n > 0)
        run.oblige("current.unchanged", z3.And(*[v1[k] == v0[k] for k in ("pos", "stk", "rstk", "atom")]))
        run.oblige(
            "snaps.popped",
            z3.And(
                v1["stk_snaps"] == s_str.tl(v0["stk_snaps"]),
                v1["rstk_snaps"] == s_rule.tl(v0["rstk_snaps"]),
                v1["atom_cps"] == z3.SubSeq(v0["atom_cps"], 0, n - 1),
                v1["pos_hist"] == z3.SubSeq(v0["pos_hist"], 0, n - 1),
            ),
        )
        for f in [*sl_len_facts("str", v1["stk_snaps"]), *sl_len_facts("rule", v1["rstk_snaps"])]:
            run.assume(f)
        run.oblige("aligned", z3.And(*aligned(run, v1)[-3:]))
        run.oblige("frame.objects", self.same_objects(run, pre))

    def post_exc(self, run: Run, pre: Any, exc: PyExc) -> None:
        if exc.name == "IndexError":
            v0, v1 = pre["v"], pstate_view(run, pre["st"])
            run.oblige("raises.IndexError.when", z3.Length(v0["pos_hist"]) == 0)
            return
        super().post_exc(run, pre, exc)


class PSRestore(PSSpec):
    method = "restore"
    raises = ("IndexError",)

    def post(self, run: Run, pre: Any, out: Any) -> None:
        v0, v1 = pre["v"], pstate_view(run, pre["st"])
        s_str, s_rule = SL("str"), SL("rule")
        n = z3.Length(v0["pos_hist"])
        run.oblige("requires.checkpoint", n > 0)
        run.oblige(
            "current.restored",
            z3.And(
                v1["pos"] == v0["pos_hist"][n - 1],
                v1["stk"] == s_str.hd(v0["stk_snaps"]),
                v1["rstk"] == s_rule.hd(v0["rstk_snaps"]),
                v1["atom"] == v0["atom_cps"][n - 1],
            ),
        )
        run.oblige(
            "snaps.popped",
            z3.And(
                v1["stk_snaps"] == s_str.tl(v0["stk_snaps"]),
                v1["rstk_snaps"] == s_rule.tl(v0["rstk_snaps"]),
                v1["atom_cps"] == z3.SubSeq(v0["atom_cps"], 0, n - 1),
                v1["pos_hist"] == z3.SubSeq(v0["pos_hist"], 0, n - 1),
            ),
        )
        for f in [*sl_len_facts("str", v1["stk_snaps"]), *sl_len_facts("rule", v1["rstk_snaps"])]:
            run.assume(f)
        run.oblige("aligned", z3.And(*aligned(run, v1)[-3:]))
        run.oblige("frame.objects", self.same_objects(run, pre))

    def post_exc(self, run: Run, pre: Any, exc: PyExc) -> None:
        if exc.name == "IndexError":
            run.oblige("raises.IndexError.when", z3.Length(pre["v"]["pos_hist"]) == 0)
            return
        super().post_exc(run, pre, exc)


# ======================================================================= module interface
PROPERTY = "C09"
SPECS = [
    Init, Push, Pop, Peek, Empty, Len, Clear, Snapshot, Restore, DropSnapshot, GetItem, GetSlice, Iter,
    SIInit, SISnapshot, SIRestore, SIDrop, SIZero, SIAdd, SIInt, SIGt, SIEq,
    PSCheckpoint, PSOk, PSRestore,
]
EXPLANATION = (
    "Each method of the real Stack / SnapshottingInt and ParserState.checkpoint/ok/restore is executed "
    "symbolically path by path from the current source; per path the obligations are: the abstract view "
    "(items, list of full copies) after the call equals the reference operation on the view before it, the "
    "representation invariant Inv(items, popped, lengths, snaps) is re-established (opaque recursive predicate, "
    "unfolded 1-2 levels), the result equals the reference result, only documented exceptions escape and leave "
    "the state unchanged. Inductive over histories: no bound on history length, element values or nesting."
)
TRUSTED = [
    "pyvc executor's model of Python semantics for the dialect used (list append/pop/clear/extend/slicing/del, tuple unpacking, asserts, truthiness)",
    "z3 5.1.0 / cvc5 1.0.3 soundness (thorough tier: every unsat re-asked of the other solver)",
    "list-reversal lemma instances: |rev x| = |x|, rev(x ++ [a]) = [a] ++ rev x, rev(a ++ b) = rev b ++ rev a, rev(rev x) = x, rev [] = []",
    "A-alias: the three lists of a Stack are distinct objects (established by Stack.__init__, obligation `distinct`)",
]
ASSUMPTIONS = [
    "ParserState.ok/restore: contract requires an open checkpoint (callers are verified to provide one); with none they raise IndexError",
    "the four component snapshot lists of ParserState have equal length (established by checkpoint/ok/restore, obligation `aligned`)",
]
BOUNDED = ["replay search only: real operation histories <= 7 operations (never part of the proof)"]


def specs(tier: str):
    return [c() for c in SPECS]


def concretise(tier, seed, refuted, undecided, known):
    """Replay: shortest real operation history on which the real classes differ from full copies."""
    import subprocess
    import sys as _sys

    out = []
    r = subprocess.run(
        [_sys.executable, "-m", "replay.c09_history", "--json"], capture_output=True, text=True, cwd=str(common_root()), check=False
    )
    import json as _json

    try:
        res = _json.loads(r.stdout.strip().splitlines()[-1])
    except Exception:  # noqa: BLE001
        return [{"found": False, "for": None, "error": (r.stdout + r.stderr)[-500:]}]
    for item in res:
        out.append(
            {
                "found": True,
                "for": item["for"],
                "input": item["history"],
                "observed": item["observed"],
                "cmd": f"cd /verif && .venv/bin/python -m replay.c09_history --history {','.join(item['history'])} --target {item['target']}",
            }
        )
    return out


def common_root():
    from pathlib import Path

    return Path(__file__).resolve().parent.parent
