"""C13, rendering side: the message of a PestParsingError always renders, and shows the line:column / source line
that error_context returned (which c13.ErrorContext proves to be those of the furthest position).

Functions under contract (real bodies, re-read on every run):
    pest.exceptions.join_with_limit            2 instances (last_separator None / a string); nested def join_all inlined
    pest.exceptions.PestParsingError.expected
    pest.exceptions.PestParsingError.expected_labels
    pest.exceptions.PestParsingError.detailed_message   (expected_labels inlined; error_context / join_with_limit by contract)
    pest.exceptions.PestParsingError.__init__
    pest.exceptions.PestParsingError.__str__

Abstractions (stated in TRUSTED of c13): dict[str, list[str]] as (key sequence, flattened label sequence) - the model of
c13.DictModel; `list(d)` = keys, `list(chain(*d.values()))` = labels; str.join, str(int) and str * int are total
uninterpreted functions into str (CPython: they cannot raise for str / int arguments; MemoryError is not modelled).
"""
from __future__ import annotations

import ast
from typing import Any

import z3

from pyvc.driver import FunctionSpec
from pyvc.engine import OutOfDialect, PyExc, Run
from pyvc.values import BoundMethod, ModuleV, Opaque, Ref, SeqV, Sym, kind_of, wrap, z

from .c13 import DictModel
from .ops import Loop
from .pstate import PSTATE, r_name

ERR = "pest.exceptions.PestParsingError"
S = z3.StringSort()
SS = z3.SeqSort(S)
py_join = z3.Function("py_join", S, SS, S)
py_str_int = z3.Function("py_str_int", z3.IntSort(), S)
py_repeat = z3.Function("py_repeat", S, z3.IntSort(), S)


def is_str(v: Any) -> bool:
    return isinstance(v, str) or (isinstance(v, Sym) and v.k == "str")


class RenderModel(DictModel):
    """Executor hooks shared by the rendering specs."""

    def truth(self, run: Run, v: Any):
        return NotImplemented

    def str_method(self, run: Run, s: Any, name: str, args, kwargs, n):
        if name == "join" and len(args) == 1 and not kwargs:
            v = args[0]
            if isinstance(v, Ref) and run.is_list(v) and run.seq(v) is None:
                return ""
            t, ek = run.as_seq(v, n, "str")
            if ek != "str":
                # str.join raises TypeError for a non-str item
                raise PyExc("TypeError", f"join over a sequence of {ek}")
            return Sym(py_join(z(s, "str"), t), "str")
        return NotImplemented

    def binop(self, run: Run, op, a, b, n):
        if isinstance(op, ast.Mult) and is_str(a) and run._kind(b) == "int":
            if isinstance(a, str) and isinstance(b, int):
                return a * b
            return Sym(py_repeat(z(a, "str"), z(b, "int")), "str")
        if isinstance(op, ast.Add) and (a is None or b is None):
            raise PyExc("TypeError", "None in +")
        if isinstance(op, ast.Add) and is_str(a) != is_str(b) and (run._kind(a) == "int" or run._kind(b) == "int"):
            raise PyExc("TypeError", "str + int")
        return NotImplemented

    def call_builtin(self, run: Run, name: str, args, kwargs, n):
        if name == "str" and len(args) == 1 and run._kind(args[0]) == "int" and not isinstance(args[0], (int, bool)):
            return Sym(py_str_int(z(args[0], "int")), "str")
        if name == "list" and len(args) == 1:
            v = args[0]
            if isinstance(v, Ref) and not run.is_list(v) and run.cls_of(v) == "dict":
                return run.new_list("str", run.obj(v)["keys"])
            if isinstance(v, tuple) and v and v[0] == "$chain":
                return run.new_list("str", run.obj(v[1])["labels"])
        if name == "super" and not args:
            return ("$super", run.frame.env.get("self"))
        return NotImplemented

    def call_method(self, run: Run, recv: Any, name: str, args, kwargs, n):
        if isinstance(recv, Ref) and not run.is_list(recv) and run.cls_of(recv) == "dict" and name == "values" and not args:
            return ("$dictvalues", recv)
        if isinstance(recv, tuple) and recv and recv[0] == "$super" and name == "__init__":
            # Exception.__init__(self, *args): stores the arguments
            run.setf(recv[1], "args", tuple(args))
            return None
        return DictModel.call_method(self, run, recv, name, args, kwargs, n)

    def getattr(self, run: Run, base: Any, attr: str, n):
        if isinstance(base, tuple) and base and base[0] == "$super":
            return BoundMethod(base, attr)
        if isinstance(base, Ref) and not run.is_list(base) and run.cls_of(base) == "dict":
            return BoundMethod(base, attr)
        return DictModel.getattr(self, run, base, attr, n)

    def call_external(self, run: Run, name: str, args, kwargs, n):
        if name.endswith("chain") and len(args) == 1 and isinstance(args[0], tuple) and args[0][0] == "$star":
            inner = args[0][1]
            if isinstance(inner, tuple) and inner and inner[0] == "$dictvalues":
                return ("$chain", inner[1])
        return NotImplemented

    def listcomp(self, run: Run, n):
        # (f.name for f in <list of rule frames>): the names, one per frame
        if len(n.generators) == 1 and not n.generators[0].ifs and isinstance(n.elt, ast.Attribute) and n.elt.attr == "name" \
                and isinstance(n.elt.value, ast.Name) and isinstance(n.generators[0].target, ast.Name) and n.elt.value.id == n.generators[0].target.id:
            it = run.eval(n.generators[0].iter)
            t, ek = run.as_seq(it, n, "rule")
            if ek == "rule":
                out = run.fresh_t("frame_names", "seq:str")
                run.assume(z3.Length(out) == z3.Length(t))
                return SeqV(out, "str")
        return NotImplemented

    def mk_dict(self, run: Run, nm: str) -> Ref:
        return run.heap.alloc("dict", {"keys": run.fresh_t(nm + "_keys", "seq:str"), "labels": run.fresh_t(nm + "_labels", "seq:str")}, fresh=False)

    def noraise_str(self, run: Run, out: Any, allow_none: bool = False) -> None:
        ok = is_str(out) or (allow_none and out is None)
        run.oblige("result.is_str", ok, note=f"returned {out!r}")


class JoinWithLimit(RenderModel, FunctionSpec):
    target = "pest.exceptions.join_with_limit"

    def __init__(self, last: str):
        self.last = last
        self.label = f"{self.target}[last_separator={last}]"

    def setup(self, run: Run):
        items = run.new_list("str", run.fresh_t("items", "seq:str"), fresh=False)
        sep = run.fresh("separator", "str")
        limit = run.fresh("limit", "int")
        last: Any = None
        if self.last == "str":
            last = run.fresh("last_separator", "str")
        run.pre = {"items": run.seq(items), "limit": limit.t}
        return None, [items, sep, last, limit], {}

    @property
    def loops(self):
        def inv(run, g):
            env = run.frames[0].env
            t, _ = run.as_seq(env["result_parts"], None, "str")
            return [("parts.le_idx", z3.Length(t) <= z(run.loop_idx))]

        def modifies(run):
            rp = run.frames[0].env["result_parts"]
            run.as_seq(rp, None, "str")  # `result_parts: list[str] = []`: the element kind of the empty literal
            return [(rp, "seq")]

        return {0: Loop(inv, modifies=modifies)}

    def post(self, run: Run, pre: Any, out: Any) -> None:
        self.noraise_str(run, out)
        if is_str(out):
            # the documented corner cases the callers rely on: nothing to join / no room -> ""
            run.oblige("result.empty_when_no_items", z3.Implies(z3.Length(pre["items"]) == 0, z(out, "str") == z3.StringVal("")))


class ExpectedBase(RenderModel, FunctionSpec):
    method = ""
    allow_none = False

    def __init__(self):
        self.target = f"{ERR}.{self.method}"

    @property
    def summaries(self):
        def jwl(run: Run, recv, args, kwargs):
            t, ek = run.as_seq(args[0], None, "str")
            run.oblige("call.join_with_limit.items_are_str", ek == "str")
            for a in (args[1] if len(args) > 1 else kwargs.get("separator", ", "),):
                run.oblige("call.join_with_limit.separator_is_str", is_str(a))
            ls = kwargs.get("last_separator")
            run.oblige("call.join_with_limit.last_separator_ok", ls is None or is_str(ls))
            lim = kwargs.get("limit", 80)
            run.oblige("call.join_with_limit.limit_is_int", run._kind(lim) == "int")
            r = run.fresh("joined", "str")
            run.pre.setdefault("joins", []).append((t, r.t))
            return r

        return {"pest.exceptions.join_with_limit": jwl}

    def setup(self, run: Run):
        me = run.heap.alloc(ERR, {}, fresh=False)
        exp, unexp = self.mk_dict(run, "exp"), self.mk_dict(run, "unexp")
        run.pre = {"exp": dict(run.obj(exp)), "unexp": dict(run.obj(unexp))}
        return me, [exp, unexp], {}

    def post(self, run: Run, pre: Any, out: Any) -> None:
        self.noraise_str(run, out, self.allow_none)


def _says(run: Run, pre: Any, out: Any, word_exp: str, word_unexp: str, field: str) -> None:
    """the names / labels recorded as expected are listed after `word_exp`, those recorded as unexpected after `word_unexp`
    (C13: 'the rule names it lists as expected or unexpected'): the text is  [<word_unexp> J(unexpected)[; ]][<word_exp> J(expected)]
    where J(x) is join_with_limit applied to exactly the recorded sequence (campaign 7: negated / flipped conditions in
    expected() survived while the contract only said 'a non-empty str')."""
    e, u = pre["exp"], pre["unexp"]
    has_e, has_u = z3.Length(e["keys"]) > 0, z3.Length(u["keys"]) > 0
    if not (isinstance(out, Sym) and out.k == "str"):
        run.oblige("lists.nothing_recorded_iff_constant", z3.And(z3.Not(has_e), z3.Not(has_u)))
        return
    o = out.t
    joins = pre.get("joins", [])
    j_of = {}
    for items, joined in joins:
        for nm, d in (("e", e), ("u", u)):
            if z3.is_true(z3.simplify(items == d[field])):
                j_of[nm] = joined
    we, wu = z3.StringVal(word_exp), z3.StringVal(word_unexp)
    if len(joins) == 0:
        run.oblige("lists.nothing_recorded_iff_constant", z3.And(z3.Not(has_e), z3.Not(has_u)))
    elif len(joins) == 1 and "e" in j_of and "u" not in j_of:
        run.oblige("lists.expected_only", z3.And(has_e, z3.Not(has_u), o == z3.Concat(we, j_of["e"])))
    elif len(joins) == 1 and "u" in j_of and "e" not in j_of:
        run.oblige("lists.unexpected_only", z3.And(has_u, z3.Not(has_e), o == z3.Concat(wu, j_of["u"])))
    elif len(joins) == 2 and "e" in j_of and "u" in j_of:
        # either order of the two parts is a faithful listing (the property does not fix it)
        sep = z3.StringVal("; ")
        run.oblige("lists.both", z3.And(has_e, has_u, z3.Or(o == z3.Concat(wu, j_of["u"], sep, we, j_of["e"]), o == z3.Concat(we, j_of["e"], sep, wu, j_of["u"]))))
    else:
        run.oblige("lists.joins_are_over_the_recorded_sequences", False, note=f"{len(joins)} join(s), recognised {sorted(j_of)}")


class Expected(ExpectedBase):
    method = "expected"

    def post(self, run: Run, pre: Any, out: Any) -> None:
        ExpectedBase.post(self, run, pre, out)
        if is_str(out):
            run.oblige("result.non_empty", z3.Length(z(out, "str")) > 0)
        if isinstance(out, str):
            run.oblige("lists.nothing_recorded_iff_constant", z3.And(z3.Length(pre["exp"]["keys"]) == 0, z3.Length(pre["unexp"]["keys"]) == 0))
        else:
            _says(run, pre, out, "expected ", "unexpected ", "keys")


class ExpectedLabels(ExpectedBase):
    method = "expected_labels"
    allow_none = True

    def post(self, run: Run, pre: Any, out: Any) -> None:
        ExpectedBase.post(self, run, pre, out)
        both_empty = z3.And(z3.Length(pre["exp"]["keys"]) == 0, z3.Length(pre["unexp"]["keys"]) == 0)
        run.oblige("result.none_iff_nothing_recorded", z3.BoolVal(out is None) == both_empty)
        if out is not None and not isinstance(out, str):
            _says(run, pre, out, "", "not ", "labels")


class DetailedMessage(ExpectedBase):
    method = "detailed_message"
    inline = (f"{ERR}.expected_labels",)

    @property
    def summaries(self):
        d = dict(ExpectedBase.summaries.fget(self))

        def ectx(run: Run, recv, args, kwargs):
            # contract proved by c13.ErrorContext / ErrorContextSentinel: a (str, int, int) triple, never raises for
            # index in -1..len(text)
            pre = run.pre
            run.oblige("call.error_context.text_is_input", z3.simplify(z(args[0], "str") == pre["inp"]))
            run.oblige("call.error_context.index_is_furthest_pos", z3.simplify(z(args[1], "int") == pre["far"]))
            line, ln, col = run.fresh("ctx_line", "str"), run.fresh("ctx_lineno", "int"), run.fresh("ctx_col", "int")
            pre["ctx"] = (line.t, ln.t, col.t)
            return (line, ln, col)

        d["pest.exceptions.error_context"] = ectx
        return d

    def setup(self, run: Run):
        exp, unexp = self.mk_dict(run, "exp"), self.mk_dict(run, "unexp")
        fstack = run.new_list("rule", run.fresh_t("fstack", "seq:rule"), fresh=False)
        inp, far = run.fresh("inp", "str"), run.fresh("far", "int")
        st = run.heap.alloc(PSTATE, {"input": inp, "furthest_pos": far, "furthest_expected": exp, "furthest_unexpected": unexp, "furthest_stack": fstack}, fresh=False)
        msg = run.fresh("msg", "str")
        me = run.heap.alloc(ERR, {"state": st, "args": (msg,)}, fresh=False)
        run.assume(z3.And(far.t >= -1, far.t <= z3.Length(inp.t)))
        run.pre = {"inp": inp.t, "far": far.t, "msg": msg.t, "exp": dict(run.obj(exp)), "unexp": dict(run.obj(unexp))}
        return me, [], {}

    def post(self, run: Run, pre: Any, out: Any) -> None:
        self.noraise_str(run, out)
        ctx = pre.get("ctx")
        run.oblige("calls.error_context", ctx is not None)
        if ctx is None or not (isinstance(out, Sym) and out.k == "str"):
            return
        line, ln, col = ctx
        o = out.t
        run.oblige("shows.line_col", z3.Contains(o, z3.Concat(py_str_int(ln), z3.StringVal(":"), py_str_int(col), z3.StringVal("\n"))))
        run.oblige("shows.source_line", z3.Contains(o, z3.Concat(z3.StringVal("\n"), py_str_int(ln), z3.StringVal(" | "), line, z3.StringVal("\n"))))
        run.oblige("shows.message", z3.PrefixOf(z3.Concat(pre["msg"], z3.StringVal("\n")), o))
        # the caret sits under column `col` (1-based): col - 1 blanks after the gutter (campaign 7: `col + 1`, `col - 0`, `col - 2`
        # survived - the property says "the line:column ... shown are those of p", the caret is how the column is shown)
        run.oblige("shows.caret_under_col", z3.Contains(o, z3.Concat(z3.StringVal(" | "), py_repeat(z3.StringVal(" "), col - 1), z3.StringVal("^ "))))


class ErrInit(ExpectedBase):
    method = "__init__"
    inline = (f"{ERR}.expected",)

    def setup(self, run: Run):
        exp, unexp = self.mk_dict(run, "exp"), self.mk_dict(run, "unexp")
        st = run.heap.alloc(PSTATE, {"furthest_expected": exp, "furthest_unexpected": unexp}, fresh=False)
        me = run.heap.alloc(ERR, {}, fresh=False)
        run.pre = {"me": me, "st": st}
        return me, [st], {}

    def post(self, run: Run, pre: Any, out: Any) -> None:
        o = run.obj(pre["me"])
        run.oblige("state.kept", o.get("state") is pre["st"] or (isinstance(o.get("state"), Ref) and o["state"].oid == pre["st"].oid))
        a = o.get("args")
        run.oblige("args.one_str", isinstance(a, tuple) and len(a) == 1 and is_str(a[0]), note=f"args={a!r}")
        if isinstance(a, tuple) and len(a) == 1 and isinstance(a[0], Sym) and a[0].k == "str":
            run.oblige("args.non_empty", z3.Length(a[0].t) > 0)


class ErrStr(ExpectedBase):
    method = "__str__"

    @property
    def summaries(self):
        def dm(run: Run, recv, args, kwargs):
            r = run.fresh("detailed", "str")
            run.pre["dm"] = r.t
            return r

        return {f"{ERR}.detailed_message": dm}

    def setup(self, run: Run):
        me = run.heap.alloc(ERR, {}, fresh=False)
        run.pre = {}
        return me, [], {}

    def post(self, run: Run, pre: Any, out: Any) -> None:
        self.noraise_str(run, out)
        run.oblige("is_detailed_message", "dm" in pre and isinstance(out, Sym) and z3.eq(out.t, pre["dm"]))


def specs(tier):
    return [JoinWithLimit("none"), JoinWithLimit("str"), Expected(), ExpectedLabels(), DetailedMessage(), ErrInit(), ErrStr()]
