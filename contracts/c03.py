"""C03 - core PEG operators follow pest's matching semantics (interpreter side; templates: C01)."""
from . import groups as g
from . import ops, unroll_struct

PROPERTY = "C03"
EXPLANATION = (
    "Each core operator's real parse() is proved to refine its Spec clause K (DESIGN Appendix A: pest's PEG semantics "
    "written from the property text) for all inputs, all parser states and all child behaviours (children are oracles "
    "under the generic contract G); n-ary operators with symbolic arity via loop invariants over recursive Spec symbols."
)
TRUSTED = g.COMMON_TRUSTED
ASSUMPTIONS = g.COMMON_ASSUMPTIONS
BOUNDED = ["bounded repetitions e{n}, e{n,}, e{,n}, e{m,n}: the delegation to the unrolled sequence is proved for all n; that unroll() builds the named sequence is run concretely for parameters 0..5 (contracts/unroll_struct.py)"]


def specs(tier):
    # C03 is stated over normal and silent rules; the atomicity modifiers are C04's
    rules = [r for r in g.rules() if r.modifier in (0, 2) and not r.trivia_name]
    from . import templates as t

    tpl = [*t.terminal_templates(), *t.combinator_templates(3 if tier == "quick" else 5), *t.loop_templates(), *t.identifier_templates(),
           *[r for r in t.rule_templates() if r.modifier in (0, 2) and not r.trivia_name], *t.entry_templates()]
    # the optimized execution modes run core operators through the optimizer-only nodes
    opt_nodes = [ops.SkipUntilSpec(), ops.RegexNodeSpec("RegexExpression"), ops.RegexNodeSpec("OptimizedChoice"), *t.skipuntil_templates(), *t.regex_node_templates()]
    return [*g.core_terminals(), *g.structure(), *g.backtracking(), *ops.bounded_repeat_specs(), *rules, *g.entry(), *tpl, *opt_nodes]

from .groups import concretise_ops
concretise = concretise_ops(PROPERTY)


def extra_checks(tier, seed):
    return [unroll_struct.check()]
