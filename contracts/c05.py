"""C05 - stack operations match their specification and are undone on backtracking (interpreter side)."""
from . import groups as g

PROPERTY = "C05"
EXPLANATION = (
    "The eight stack terminals' real parse() are proved against the clauses of the property (PUSH pushes the matched "
    "text, PEEK/POP match the top, DROP fails on empty, PEEK_ALL/POP_ALL top to bottom, PEEK[a..b] bottom to top over "
    "the Python slice; failure leaves position and stack unchanged; nothing raises), and every backtracking construct "
    "is proved to hand back <pos, stack, rule stack, atomic depth> exactly as at entry when the attempt fails (or, for "
    "predicates, also when it succeeds) - for arbitrary children, hence for any nesting depth."
)
TRUSTED = [*g.COMMON_TRUSTED, "lemma.join_prefix: induction principle (its step is a discharged obligation)"]
ASSUMPTIONS = g.COMMON_ASSUMPTIONS
BOUNDED: list[str] = []


def specs(tier):
    from . import templates as t

    tpl = [*t.stack_templates(), *t.stack_loop_templates(), *[x for x in t.combinator_templates(3) if "Sequence" not in x.label and "Group" not in x.label], *t.loop_templates()]
    from . import c09

    # the undo guarantee rests on the snapshotting stack / parser-state contracts: proved here too
    return [*g.stack_terminals(), *g.backtracking(), *tpl, *[c() for c in c09.SPECS]]

from .groups import concretise_ops
concretise = concretise_ops(PROPERTY)
