"""C10 - the grammar front end accepts exactly pest v2 syntax (tests/grammars/meta.pest) with the denoted structure.

Three layers (see DESIGN.md, "C10 as built"):

 (1) lexical layer, PROOF for all strings (contracts/c10_lex.py): every token regex of the scanner - the constant of the
     imported module, i.e. the one that runs - denotes the language of its meta-grammar production, and matches at a
     position exactly when the production does; the stack keywords match exactly when the identifier production consumes
     that word.  Both sides are translated mechanically into the solvers' regular-expression theory.
 (2) token layer, PROOF for all token sequences (contracts/c10_parser.py): the grammar Parser's recursive descent /
     precedence climbing is executed symbolically from the current source and proved to build, for every token sequence
     the scanner can emit, the tree that the flat token grammar (choice of sequences of terms; term = tag? prefix* node
     postfix*) denotes: precedence and grouping, prefix and postfix chains, repetition bounds, tags, PEEK slices, ranges.
 (3) the scanner's recursive descent over the text (trivia placement, commitment points) is NOT proved: it is covered by a
     bounded differential stand-in against an executable Spec that is independent of the front end: the meta-grammar as
     read by a 150-line reader (replay/metaspec.py) and interpreted by the reference PEG interpreter, with the denotation
     of the parse tree as rule structure.  Obligation `meta.loaded_as_read` ties that reader to the front end: the repo's
     own loading of meta.pest must give the same 65 rules.
"""
from __future__ import annotations

import itertools
import random
import re
from typing import Any

import z3

from pyvc.driver import FunctionSpec
from pyvc.engine import OutOfDialect, Run

from . import c10_lex

PROPERTY = "C10"


class MetaLoaded(FunctionSpec):
    """the front end under test loads meta.pest itself with exactly the structure the independent reader gives"""

    target = "pest.grammar.parser.Parser.parse_rules"
    label = "C10.meta[loaded_as_read]"

    def source(self, engine):
        return engine.program.funcs[self.target]

    def direct(self, run: Run) -> None:
        from replay import metaspec as ms

        text = (ms.repo_root() / "tests" / "grammars" / "meta.pest").read_text()
        want = {n: r for n, r in ms.meta_rules().items() if type(r).__name__ == "GrammarRule"}
        got = ms.observe(text)
        run.oblige("meta.accepted", got[0] == "ok", note=str(got[1])[:200])
        if got[0] != "ok":
            return
        grules = {n: (m, e) for n, m, _d, e in got[1]["rules"]}
        run.oblige("meta.same_rule_names", set(grules) == set(want), note=str(sorted(set(grules) ^ set(want))))
        for name, r in sorted(want.items()):
            g = grules.get(name)
            ok = g is not None and g[0] == r.modifier and ms.strip_groups(g[1]) == ms.strip_groups(ms.canon_of_mini(r.expression))
            run.oblige(f"meta.loaded_as_read[{name}]", ok, note=f"want {ms.canon_of_mini(r.expression)!s:.150} got {g!s:.150}")
        run.oblige("meta.valid_by_itself", ms.valid(text) is True)


class Lexical(FunctionSpec):
    target = "pest.grammar.scanner.Scanner.scan"
    label = "C10.lex"

    def source(self, engine):
        return engine.program.funcs[self.target]

    def direct(self, run: Run) -> None:
        for clause, goal, watch, note in c10_lex.lexical_obligations():
            if goal is None:
                raise OutOfDialect(f"{clause}: {note}")
            run.oblige(clause, goal, watch, note=note)


# ------------------------------------------------------------------ bounded differential stand-in
TOK = ['"\\""', '"\\\\"', '"a\\"b"', "'\\\\'", 'b', 'PUSH', 'PEEK', 'POP', 'POPx', 'PUSH_LITERAL', 'PEEK_ALL', 'DROP', 'PUSHx', 'EOI', 'ANY', '"s"', '"\\n"', '"\\x4"', '"\\u{41}"', '"\\u{110000}"', '"\\q"', '""',
       "'a'", "'z'", "'\\n'", "'\\x41'", "'\\u{41}'", "'\\''", "'''", "'\\'", '..', '(', ')', '{', '}', '~', '|', '*', '?', '+', '!', '&', '#t', '#t2', '=', ',',
       '1', '-1', '-0', '0', '007', ' ', '[', ']', '^', '_', '//c\n', '/*c*/', '\n', '\r\n', '\r', '\t', '///d\n', '//!d\n', 'é', '"', "'", '\\', '.', '@', '$', '/', '99999999999']
GRAM = ['a={b}', 'a = _{ b }', 'c=@{"x"}', '///d\n', '/// d', '///\td', '//!d\n', '//! d', ' ', '\n', '\r\n', '//c\n', '/*c*/', 'a', '=', '{', '}', '_', '@', '$', '!', 'b', 'PUSH',
        'POPx={b}', 'PUSHx={b}', '/**/', '/*/**/*/', '/*/*', '*/', '////x\n', '//', '/', '\r']
_LEX = re.compile(r"\"(?:\\.|[^\"\\])*\"|'(?:\\.|[^'\\])*'|//[^\n]*|/\*.*?\*/|[A-Za-z_][A-Za-z_0-9]*|[0-9]+|\.\.|\s+|.", re.S)


def _random_expr(rnd: random.Random, depth: int) -> Any:
    """a random canonical expression (what a text should denote)"""
    if depth <= 0 or rnd.random() < 0.3:
        k = rnd.choice(["str", "istr", "range", "id", "id", "pushlit", "peekslice", "kw"])
        if k == "str":
            return ("str", rnd.choice(["a", "", "x y", "\n", "\"", "\\", "é", "\x41", "'"]))
        if k == "istr":
            return ("istr", rnd.choice(["a", "SELECT", "", "\"", "\\", "x\"y", "'", "\n"]))
        if k == "range":
            a, b = sorted([rnd.choice("aAz09\n'\\é"), rnd.choice("aAz09\n'\\é")])
            return ("range", a, b)
        if k == "id":
            return ("id", rnd.choice(["b", "c_1", "_x", "POPx", "PEEKER", "DROP_", "ANY", "ASCII_DIGIT", "EOI", "SOI", "Pushed"]))
        if k == "pushlit":
            return ("pushlit", rnd.choice(["a", "", "\t"]))
        if k == "peekslice":
            return ("peekslice", rnd.choice([None, 0, 1, -1, -12, 7]), rnd.choice([None, 0, 2, -3]))
        return ("id", rnd.choice(["PEEK", "PEEK_ALL", "POP", "POP_ALL", "DROP"]))
    k = rnd.choice(["seq", "choice", "group", "opt", "rep", "rep1", "exact", "min", "max", "minmax", "pos", "neg", "push", "tag"])
    if k in ("seq", "choice"):
        n = rnd.randint(2, 4)
        items = [_random_expr(rnd, depth - 1) for _ in range(n)]
        # a choice directly inside a sequence (and nested same-kind nodes) needs parentheses
        fixed = []
        for x in items:
            if x[0] == k or (k == "seq" and x[0] == "choice") or x[0] == "tag" and k == "never":
                x = ("group", x)  # noqa: PLW2901
            fixed.append(x)
        return (k, fixed)
    sub = _random_expr(rnd, depth - 1)
    if k == "group":
        return ("group", sub)
    if k == "push":
        return ("push", sub)
    if k == "tag":
        if sub[0] in ("seq", "choice", "tag", "opt", "rep", "rep1", "exact", "min", "max", "minmax"):
            sub = ("group", sub)
        return ("tag", rnd.choice(["t", "tag_2", "_"]), sub)
    if sub[0] in ("seq", "choice", "tag"):
        sub = ("group", sub)
    if k in ("pos", "neg"):
        return (k, sub)
    if sub[0] in ("pos", "neg"):
        sub = ("group", sub)
    if k in ("opt", "rep", "rep1"):
        return (k, sub)
    if k == "minmax":
        a = rnd.randint(0, 3)
        return ("minmax", sub, a, a + rnd.randint(0, 3))
    return (k, sub, rnd.randint(0, 12))


def _esc(v: str, quote: str) -> str:
    out = []
    for ch in v:
        if ch == "\\":
            out.append("\\\\")
        elif ch == quote:
            out.append("\\" + quote)
        elif ch == "\n":
            out.append("\\n")
        elif ch == "\t":
            out.append("\\t")
        elif ch == "é":
            out.append("\\u{e9}")
        else:
            out.append(ch)
    return "".join(out)


def _print_expr(e: Any, rnd: random.Random) -> str:  # noqa: C901, PLR0911, PLR0912
    def sp() -> str:
        return rnd.choice(["", "", " ", " ", "\n", " /*c*/ ", " // c\n", "\t"])

    k = e[0]
    if k == "str":
        return '"' + _esc(e[1], '"') + '"'
    if k == "istr":
        return "^" + sp() + '"' + _esc(e[1], '"') + '"'
    if k == "range":
        return "'" + _esc(e[1], "'") + "'" + sp() + ".." + sp() + "'" + _esc(e[2], "'") + "'"
    if k == "id":
        return e[1]
    if k == "pushlit":
        return "PUSH_LITERAL" + sp() + "(" + sp() + '"' + _esc(e[1], '"') + '"' + sp() + ")"
    if k == "peekslice":
        return "PEEK" + sp() + "[" + sp() + ("" if e[1] is None else str(e[1])) + sp() + ".." + sp() + ("" if e[2] is None else str(e[2])) + sp() + "]"
    if k == "seq":
        return (sp() + "~" + sp()).join(_print_expr(x, rnd) for x in e[1])
    if k == "choice":
        return (sp() + "|" + sp()).join(_print_expr(x, rnd) for x in e[1])
    if k == "group":
        return "(" + sp() + rnd.choice(["", "", "| "]) + _print_expr(e[1], rnd) + sp() + ")"
    if k == "push":
        return "PUSH" + sp() + "(" + sp() + _print_expr(e[1], rnd) + sp() + ")"
    if k == "tag":
        return "#" + e[1] + sp() + "=" + sp() + _print_expr(e[2], rnd)
    if k == "pos":
        return "&" + sp() + _print_expr(e[1], rnd)
    if k == "neg":
        return "!" + sp() + _print_expr(e[1], rnd)
    if k == "opt":
        return _print_expr(e[1], rnd) + sp() + "?"
    if k == "rep":
        return _print_expr(e[1], rnd) + sp() + "*"
    if k == "rep1":
        return _print_expr(e[1], rnd) + sp() + "+"
    if k == "exact":
        return _print_expr(e[1], rnd) + sp() + "{" + sp() + str(e[2]) + sp() + "}"
    if k == "min":
        return _print_expr(e[1], rnd) + sp() + "{" + sp() + str(e[2]) + sp() + "," + sp() + "}"
    if k == "max":
        return _print_expr(e[1], rnd) + sp() + "{" + sp() + "," + sp() + str(e[2]) + sp() + "}"
    if k == "minmax":
        return _print_expr(e[1], rnd) + sp() + "{" + sp() + str(e[2]) + sp() + "," + sp() + str(e[3]) + sp() + "}"
    raise AssertionError(k)


def _norm_printed(e: Any) -> Any:
    """what the printed text denotes: flatten nested sequences/choices that were printed without parentheses; a tag
    printed in front of a postfix chain belongs to the primary (the printer only tags primaries, groups and prefixes)"""
    from replay.metaspec import _flat

    k = e[0]
    if k in ("seq", "choice"):
        return _flat(k, [_norm_printed(x) for x in e[1]])
    if k in ("group", "push", "opt", "rep", "rep1", "pos", "neg"):
        return (k, _norm_printed(e[1]))
    if k == "tag":
        return ("tag", e[1], _norm_printed(e[2]))
    if k in ("exact", "min", "max", "minmax"):
        return (k, _norm_printed(e[1]), *e[2:])
    if k == "peekslice":
        return e
    return e


def differential(tier: str, seed: int) -> dict:  # noqa: C901, PLR0912, PLR0915
    from pest import Parser

    from replay import metaspec as ms

    rnd = random.Random(seed + 10)
    bad: list[dict[str, Any]] = []
    n = 0
    kinds: dict[str, int] = {}

    def run(text: str, kind: str) -> None:
        nonlocal n
        n += 1
        kinds[kind] = kinds.get(kind, 0) + 1
        d = ms.compare(text)
        if d is not None and len(bad) < 40:
            d["generator"] = kind
            bad.append(d)

    quick = tier == "quick"
    # (a) every token string up to length 2 (3 in thorough) as a rule body, random longer ones
    for ln in range(0, 3 if quick else 4):
        if ln == 3:
            for body in itertools.product(TOK[:40], repeat=3):
                run("a={" + "".join(body) + "}", "tokens<=3")
        else:
            for body in itertools.product(TOK, repeat=ln):
                run("a={" + "".join(body) + "}", "tokens<=2")
    for _ in range(30000 if quick else 400000):
        run("a={" + "".join(rnd.choice(TOK) for _ in range(rnd.randint(3, 8))) + "}", "token soup")
    # (b) grammar level: every sequence of up to 3 (4) pieces
    for ln in range(0, 4 if quick else 5):
        pieces = GRAM if ln < 4 else GRAM[:16]
        for body in itertools.product(pieces, repeat=ln):
            run("".join(body), "grammar pieces")
    # (c) printed random ASTs: valid by construction, the structure is known independently of the meta-grammar reader
    b = set(Parser.BUILTIN)
    for _ in range(1500 if quick else 20000):
        rules = []
        for i in range(rnd.randint(1, 3)):
            e = _random_expr(rnd, rnd.randint(0, 4))
            rules.append((f"r{i}", rnd.choice(["", "_", "@", "$", "!"]), e))
        text = rnd.choice(["", "//! top\n", "/* c */\n"]) + "\n".join(
            rnd.choice(["", "/// doc\n", "///doc\n///\n"]) + f"{nm}{rnd.choice(['', ' '])}={rnd.choice(['', ' '])}{md}{{{rnd.choice(['', ' ', ' | '])}{_print_expr(e, rnd)}{rnd.choice(['', ' ', chr(10)])}}}" for nm, md, e in rules
        )
        n += 1
        kinds["printed AST"] = kinds.get("printed AST", 0) + 1
        got = ms.observe(text)
        if got[0] != "ok":
            if len(bad) < 40:
                bad.append({"text": text, "what": "a printed grammar AST was not accepted", "got": got[1], "generator": "printed AST"})
            continue
        grules = {nm: (m, ms.drop_unobservable_tags(e, b)) for nm, m, _d, e in got[1]["rules"]}
        for nm, md, e in rules:
            want = (ms.MODS.get(md, 0), ms.drop_unobservable_tags(_norm_printed(e), b))
            if grules.get(nm) != want and len(bad) < 40:
                bad.append({"text": text, "what": f"rule {nm} of a printed AST differs", "want": str(want)[:300], "got": str(grules.get(nm))[:300], "generator": "printed AST"})
        run(text, "printed AST vs meta reader")
    # (c') systematic trivia placement: each kind of trivia at every token boundary of compact texts covering every production
    compact = [
        'a={b}', 'a=_{b}', 'a=@{"s"}', 'a=${^"s"}', 'a=!{b~c|d}', "a={'a'..'z'}", 'a={#t=b}', 'a={#t=!(b)*}', 'a={!&b}', 'a={b*?+}', 'a={b{1}}', 'a={b{1,}}', 'a={b{,2}}',
        'a={b{1,2}}', 'a={(b|c)~d}', 'a={|b|c}', 'a={PUSH(b)}', 'a={PUSH_LITERAL("s")}', 'a={PEEK[1..2]}', 'a={PEEK[..]}', 'a={PEEK[-1..]}', 'a={PEEK~POP~DROP~PEEK_ALL~POP_ALL}',
        '//!d\na={b}', '///d\na={b}', 'a={b}\n///d', 'a={b}c={d}', 'a={"\\n\\x41\\u{41}"}', "a={'\\n'..'\\u{7A}'}", 'a={ANY~EOI~SOI}', 'a={b}//c', 'a={b}/*c*/',
    ]
    trivia = [" ", "\n", "\r\n", "\t", "/*c*/", "//c\n", "/**/", "\r"]
    for text in compact:
        toks = _LEX.findall(text)
        for i in range(len(toks) + 1):
            for tv in trivia:
                run("".join(toks[:i]) + tv + "".join(toks[i:]), "trivia placement")
        # and inside multi-character tokens (must split them)
        for i, t in enumerate(toks):
            if len(t) > 1 and not t.isspace():
                for cut in range(1, len(t)):
                    run("".join(toks[:i]) + t[:cut] + " " + t[cut:] + "".join(toks[i + 1 :]), "trivia inside a token")
    # (d) the bundled grammars and single-token mutations of them
    root = ms.repo_root()
    files = sorted(list((root / "tests" / "grammars").glob("*.pest")) + list((root / "examples").glob("*/*.pest")))
    for f in files:
        text = f.read_text()
        run(text, "bundled")
        toks = _LEX.findall(text)
        for _ in range(25 if quick else 400):
            i = rnd.randrange(len(toks))
            op = rnd.choice(["del", "dup", "swap", "repl", "ins"])
            t2 = list(toks)
            if op == "del":
                del t2[i]
            elif op == "dup":
                t2.insert(i, t2[i])
            elif op == "swap" and i + 1 < len(t2):
                t2[i], t2[i + 1] = t2[i + 1], t2[i]
            elif op == "repl":
                t2[i] = rnd.choice(TOK)
            else:
                t2.insert(i, rnd.choice(TOK))
            run("".join(t2), "bundled mutation")
        for _ in range(10 if quick else 100):
            run(text[: rnd.randrange(len(text))], "bundled truncation")
    return {
        "name": "c10-differential",
        "kind": "bounded stand-in (Parser.from_grammar vs the meta-grammar interpreted by the reference PEG interpreter, and vs printed random ASTs)",
        "evaluations": n,
        "by_generator": kinds,
        "bound": "token strings <= 2 (3) tokens exhaustively over a 67-token alphabet, random 3..8; grammar pieces <= 3 (4); printed random ASTs of depth <= 4; 8 kinds of trivia at every token boundary (and a blank inside every token) of 31 compact texts covering every production; the bundled grammars with single-token mutations and truncations",
        "violation": bool(bad),
        "details": bad[:5],
    }


def block_comment_check(tier: str) -> dict:
    """RE_BLOCK_COMMENT (recursive pattern, outside the regular-expression theory) against the block_comment production:
    every string over {/, *, a, newline} up to length 8 (10 in thorough), match end compared."""
    import importlib

    from replay import metaspec as ms
    from replay.refpeg import RefPeg, St

    sc = importlib.import_module("pest.grammar.scanner")
    rules = ms.meta_rules()
    bad = []
    n = 0
    for ln in range(0, 9 if tier == "quick" else 11):
        for tup in itertools.product("/*a\n", repeat=ln):
            t = "".join(tup)
            n += 1
            m = sc.RE_BLOCK_COMMENT.match(t)
            got = m.end() if m else None
            ok, s, _ = RefPeg(rules, t).rule(rules["block_comment"], St(0, (), "A"))
            want = s.pos if ok else None
            if got != want and len(bad) < 5:
                bad.append({"text": t, "regex_end": got, "production_end": want})
    return {"name": "c10-block-comment", "kind": "bounded stand-in (recursive regex vs recursive production, exhaustive small strings)", "evaluations": n,
            "bound": "all strings over {/,*,a,\\n} up to length 8 (quick) / 10 (thorough)", "violation": bool(bad), "details": bad}


def match_end_check(tier: str) -> dict:
    """the assumption of the lexical proofs: when a token regex matches at a position it ends where the production ends
    (maximal munch). Exhaustive over strings of class representatives."""
    import importlib

    from replay import metaspec as ms
    from replay.refpeg import RefPeg, St

    sc = importlib.import_module("pest.grammar.scanner")
    rules = ms.meta_rules()
    reps = ["a", "Z", "_", "0", "7", "-", "P", "U", "S", "H", "#", "'", "\\", "x", "u", "{", "}", "f", ".", " ", "\n", "\r", "\t", "\"", "é", "r", "/", "!", "@", "$"]
    pairs = [(lab, const, prod) for lab, const, prod in c10_lex.PAIRS if hasattr(sc, const)]  # a vanished constant is reported by C10.lex
    bad = []
    n = 0
    maxlen = 3 if tier == "quick" else 4
    for ln in range(0, maxlen + 1):
        for tup in itertools.product(reps, repeat=ln):
            t = "".join(tup)
            for lab, const, prod in pairs:
                n += 1
                m = getattr(sc, const).match(t)
                got = m.end() if m else None
                rp = RefPeg(rules, t)
                ok, s, _ = rp.ex(prod, St(0, (), "A"))
                want = s.pos if ok else None
                if got != want and len(bad) < 5:
                    bad.append({"text": t, "token": lab, "regex_end": got, "production_end": want})
    # longer, targeted strings for the unbounded shapes
    for t in ["PUSHx", "PUS", "abc_9 ", "#tag_1=", "-0012", "-000", "0012", "'\\u{10FFFF}'x", "'\\u{1}'", "'\\x4g'", " \t\r\n\r", "\r\n\r\n ", "POP_ALL", "POP_ALLx", "PEEK_AL"]:
        for lab, const, prod in pairs:
            n += 1
            m = getattr(sc, const).match(t)
            got = m.end() if m else None
            ok, s, _ = RefPeg(rules, t).ex(prod, St(0, (), "A"))
            want = s.pos if ok else None
            if got != want and len(bad) < 5:
                bad.append({"text": t, "token": lab, "regex_end": got, "production_end": want})
    return {"name": "c10-match-end", "kind": "bounded validation of the maximal-munch assumption (regex end = production end)", "evaluations": n,
            "bound": f"all strings over 30 class representatives up to length {maxlen}, plus targeted longer strings", "violation": bool(bad), "details": bad}


EXPLANATION = (
    "Lexical layer: for every token regex of the scanner (the compiled constant of the imported module) and its meta-grammar "
    "production, language equality and match-at-a-position equivalence for ALL strings, by a mechanical translation of both "
    "sides (exact PEG semantics of the non-recursive production; look-aheads of the regex in continuation style) into the "
    "regular-expression theory of z3/cvc5. Token layer: the grammar Parser's real recursive descent proved against the flat "
    "token grammar's denotation for all token sequences. The front end's own loading of meta.pest equals an independent "
    "reader's (65 obligations). The scanner's recursive descent over the text is covered by the bounded differential only."
)
TRUSTED = [
    "pyvc's encoding of the Python subset; z3/cvc5 (sequence and regular-expression theories; every `sat` model is re-checked)",
    "the regex engine implements the textbook semantics of the shapes used by the token constants (classes, literals, alternation, greedy repeats, look-ahead)",
    "replay/metaspec.py's reader of meta.pest and its denotation function are the executable reading of the property statement (independent of the front end; cross-checked against it on meta.pest itself)",
    "the three facts about scanner output that the parser proof uses (no CHOICE_OP directly after an infix or prefix operator, no TAG directly after a prefix operator, a MODIFIER token's value is what RE_MODIFIER matched) are proved of the scanner's real state functions with a ghost for the kind of the last emitted token (clauses adj.*); that regex.match returns a member of the pattern's language is the regex oracle",
    "the token-layer contract pins the representation the code builds (n-ary flattened Sequence/Choice, tag on the primary or outermost prefix node, PEEK slice bounds as the token texts); dict semantics of the rule table (a later rule of the same name replaces the earlier) is Python's",
    "unescape_string is used through C12's contract (decoded value or PestGrammarSyntaxError); int() of a NUMBER token is str.to_int (digits only, by lex.number.language)",
]
ASSUMPTIONS = [
    "maximal munch: when a token regex matches at a position it ends where the production ends (validated exhaustively on strings of class representatives, bounded)",
    "pest's semantic validator (undefined or duplicate rules, left recursion, non-progressing repetitions) is not part of meta.pest and not part of this property",
    "texts that are syntactically valid but denote nothing (escape outside Unicode, reversed range, repetition count beyond u32) are excluded from the comparison; pest rejects them in its validator, python-pest with a syntax error",
    "a tag on a node that can produce no pair (string literal, built-in rule) is not compared",
    "partial correctness (termination of the scanner loop and recursion depth on nested parentheses not decided)",
]
BOUNDED = [
    "the scanner's recursive descent (trivia placement, commitment to alternatives, string bodies, doc comments): differential against the executable meta-grammar Spec - see c10-differential for the exact generators and counts",
    "RE_BLOCK_COMMENT (recursive): exhaustive over {/,*,a,newline}^<=8 (10)",
    "match-end (maximal munch) assumption: exhaustive over 30 class representatives up to length 3 (4)",
]


def specs(tier):
    out: list[Any] = [MetaLoaded(), Lexical()]
    from . import c10_parser, c11

    out += c10_parser.specs(tier)
    # what the token-layer proof assumes of scanner output, proved of the scanner's real state functions (ghost: kind of
    # the last emitted token): no CHOICE_OP directly after an infix/prefix operator, no TAG directly after a prefix
    # operator, a MODIFIER token's value comes from RE_MODIFIER
    out += [c11.ScannerAdjacency(m) for m in c11.SCANNER_METHODS if m not in ("emit", "next", "peek", "error")]
    return out


def extra_checks(tier, seed):
    return [differential(tier, seed), block_comment_check(tier), match_end_check(tier)]


def concretise(tier, seed, refuted, undecided, known):
    """a refuted lexical obligation carries the witness string: replay it on the real regex and the reference PEG"""
    import importlib

    from replay import metaspec as ms
    from replay.refpeg import RefPeg, St

    out = []
    sc = importlib.import_module("pest.grammar.scanner")
    rules = ms.meta_rules()
    by_label = {lab: (const, prod) for lab, const, prod in c10_lex.PAIRS}
    for v in refuted:
        m = re.match(r"lex\.(.+)\.(language|matches_at)$", v.clause)
        if not m or "w" not in v.model:
            continue
        lab, what = m.group(1), m.group(2)
        if lab not in by_label:
            continue
        try:
            w = eval(v.model["w"].replace("\\u{", "\\u{")) if v.model["w"].startswith('"') else v.model["w"]  # noqa: S307
            w = re.sub(r"\\u\{([0-9a-fA-F]+)\}", lambda mm: chr(int(mm.group(1), 16)), w)
        except Exception:  # noqa: BLE001
            continue
        const, prod = by_label[lab]
        rx = getattr(sc, const)
        ok, s, _ = RefPeg(rules, w).ex(prod, St(0, (), "A"))
        if what == "language":
            got, want = rx.fullmatch(w) is not None, bool(ok and s.pos == len(w))
        else:
            got, want = rx.match(w) is not None, bool(ok)
        if got != want:
            out.append({"found": True, "for": v.name, "input": {"string": w, "constant": const, "production": lab},
                        "observed": f"{const}.{'fullmatch' if what == 'language' else 'match'}({w!r}) -> {got}; production {lab} -> {want}",
                        "cmd": f"cd /verif && .venv/bin/python -c \"import pest.grammar.scanner as s; print(s.{const}.{'fullmatch' if what == 'language' else 'match'}({w!r}))\""})
    d = differential("quick", seed)
    for x in d["details"][:2]:
        out.append({"found": True, "for": None, "input": {"grammar": x.get("text")}, "observed": x.get("what") + ": " + str(x.get("got"))[:160],
                    "cmd": "cd /verif && .venv/bin/python -c \"import json, os, sys; from replay import metaspec as m; d = json.load(open(os.environ['REPLAY_FILE'])); g = (d.get('failing_input') or d.get('input'))['grammar']; r = m.compare(g); print(r); sys.exit(1 if r else 0)\""})
    return out
