"""C13 - parse failures carry a valid position and a message that always renders.

(1) ParserState.fail (real body) against the call-site contract used by every operator proof
    (pstate.StateModel.s_fail): quiet when suppressed / inside a negative predicate (unless forced);
    otherwise furthest_pos' = max(furthest_pos, pos); nothing else of the parser state changes; the only
    key it can insert into the expected/unexpected maps is the rule name it was given or the name of the
    rule on top of the rule stack; never raises when that rule stack is non-empty.
(2) ParserState.__init__ establishes the initial state (furthest_pos = -1, empty stacks, ...).
(3) furthest_pos stays in {-1} + [start_pos, len(input)]: the G.4/G.5 clauses of every operator proof
    (C01/C03-C05) plus (1), (2): -1 initially, only fail() writes it, with pos in [start_pos, len].
(4) error_context(text, p) returns the line/column of p (C14's Spec) and that line's text.
(5) rendering (detailed_message, expected, expected_labels, join_with_limit): bounded stand-in - these
    functions use nested closures, str.join and itertools.chain, outside the executor's dialect.
"""
from __future__ import annotations

from typing import Any

import z3

from pyvc.driver import FunctionSpec
from pyvc.engine import PyExc, Run
from pyvc.sorts import SL, RuleS
from pyvc.values import BoundMethod, Ref, SeqV, Sym, wrap, z

from . import c14
from .c14 import LNS, N, NL, T, bridge_at_end, bridge_in_line, cnt, cnt_unfold, lastnl, off, split_facts
from .common import SINT_INLINE, STACK_SUMMARIES, new_abstract_stack, new_sint, stack_view
from .ops import Loop
from .pstate import PSTATE, r_name

PROPERTY = "C13"


class DictModel:
    """dict[str, list[str]] abstracted as (keys : Seq<str>, labels : Seq<str> - all values flattened)."""

    def dict_display(self, run: Run, items, n):
        keys = z3.Empty(z3.SeqSort(z3.StringSort()))
        labels = z3.Empty(z3.SeqSort(z3.StringSort()))
        for k, v in items:
            keys = z3.Concat(keys, z3.Unit(z(k, "str")))
            t, _ = run.as_seq(v, None, "str")
            labels = z3.Concat(labels, t)
        return run.heap.alloc("dict", {"keys": keys, "labels": labels})

    def contains(self, run: Run, container: Any, item: Any, n):
        if isinstance(container, Ref) and run.cls_of(container) == "dict":
            return wrap(z3.Contains(run.obj(container)["keys"], z3.Unit(z(item, "str"))), "bool")
        return NotImplemented

    def getitem(self, run: Run, base: Any, idx: Any, n):
        if isinstance(base, Ref) and run.cls_of(base) == "dict":
            has = z3.Contains(run.obj(base)["keys"], z3.Unit(z(idx, "str")))
            if not run.branch(has, "dict.has"):
                raise PyExc("KeyError", "dict lookup")
            return ("$dictval", base)
        return NotImplemented

    def setitem(self, run: Run, base: Any, idx: Any, v: Any, n):
        if isinstance(base, Ref) and run.cls_of(base) == "dict":
            o = run.obj(base)
            k = z3.Unit(z(idx, "str"))
            run.setf(base, "keys", z3.If(z3.Contains(o["keys"], k), o["keys"], z3.Concat(o["keys"], k)))
            t, _ = run.as_seq(v, None, "str")
            run.setf(base, "labels", z3.Concat(o["labels"], t))
            return None
        return NotImplemented

    def getattr(self, run: Run, base: Any, attr: str, n):
        if isinstance(base, tuple) and base and base[0] == "$dictval":
            return BoundMethod(base, attr)
        if isinstance(base, Sym) and base.k == "rule" and attr == "name":
            return Sym(r_name(base.t), "str")
        return NotImplemented

    def call_method(self, run: Run, recv: Any, name: str, args, kwargs, n):
        if isinstance(recv, tuple) and recv and recv[0] == "$dictval" and name == "append":
            d = recv[1]
            run.setf(d, "labels", z3.Concat(run.obj(d)["labels"], z3.Unit(z(args[0], "str"))))
            return None
        return NotImplemented

    def as_seq(self, run: Run, v: Any):
        if isinstance(v, Ref) and run.cls_of(v) == "pest.stack.Stack":
            o = run.obj(v)
            return run.seq(o["items"]), o["$ek"]
        return NotImplemented


class FailSpec(DictModel, FunctionSpec):
    target = f"{PSTATE}.fail"
    summaries = dict(STACK_SUMMARIES)
    inline = SINT_INLINE
    INPUT = z3.Const("inp", z3.StringSort())

    def __init__(self, force: bool, rule_name: str):
        self.force = force
        self.rn_kind = rule_name  # "none" | "empty" | "given"
        self.label = f"{PSTATE}.fail[force={int(force)},rule_name={rule_name}]"

    def setup(self, run: Run):
        f = run.fresh
        us = new_abstract_stack(run, "str", run.fresh_t("stk", "seq:str"), z3.Const("us_snaps", SL("str").sort))
        rs = new_abstract_stack(run, "rule", run.fresh_t("rstk", "seq:rule"), z3.Const("rs_snaps", SL("rule").sort))
        mk = lambda nm: run.heap.alloc("dict", {"keys": run.fresh_t(nm + "_keys", "seq:str"), "labels": run.fresh_t(nm + "_labels", "seq:str")}, fresh=False)  # noqa: E731
        exp, unexp = mk("exp"), mk("unexp")
        fstack = run.new_list("rule", run.fresh_t("fstack", "seq:rule"), fresh=False)
        st = run.heap.alloc(
            PSTATE,
            {
                "input": Sym(self.INPUT, "str"), "pos": f("pos", "int"), "neg_pred_depth": f("neg", "int"),
                "furthest_pos": f("far", "int"), "furthest_expected": exp, "furthest_unexpected": unexp, "furthest_stack": fstack,
                "_suppress_failures": f("sup", "bool"), "rule_stack": rs, "user_stack": us,
                "atomic_depth": new_sint(run, f("atom", "int"), run.fresh_t("atom_cps", "seq:int")),
            },
            fresh=False,
        )
        o = run.obj(st)
        n = z3.Length(self.INPUT)
        start = z3.Int("start_pos")
        # wf_state (the precondition every caller is proved to establish)
        run.assume(z3.And(0 <= start, start <= z(o["pos"]), z(o["pos"]) <= n, z(o["neg_pred_depth"]) >= 0, z(o["furthest_pos"]) >= -1, z(o["furthest_pos"]) <= n))
        run.assume(z3.Or(z(o["furthest_pos"]) == -1, z(o["furthest_pos"]) >= start))
        label = f("label", "str")
        kw: dict[str, Any] = {"force": self.force}
        rn = None
        if self.rn_kind == "given":
            rn = f("rule_name", "str")
            run.assume(z3.Length(rn.t) > 0)
            kw["rule_name"] = rn
        elif self.rn_kind == "empty":
            kw["rule_name"] = ""
        if self.rn_kind != "given":
            run.assume(z3.Length(stack_view(run, rs)[0]) > 0)  # callers establish a non-empty rule stack
        snap = {k: (z(v) if not isinstance(v, Ref) else None) for k, v in o.items() if not k.startswith("$")}
        run.pre = {"st": st, "o0": dict(o), "label": label.t, "rn": rn.t if rn is not None else None, "start": start,
                   "exp0": dict(run.obj(exp)), "unexp0": dict(run.obj(unexp)), "rstk": stack_view(run, rs)[0], "stk": stack_view(run, us)[0],
                   "far0": z(o["furthest_pos"]), "pos0": z(o["pos"]), "neg0": z(o["neg_pred_depth"]), "sup0": z(o["_suppress_failures"]), "fstack0": run.seq(fstack)}
        return st, [label], kw

    def post(self, run: Run, pre: Any, out: Any) -> None:
        o = run.obj(pre["st"])
        far0, pos0, neg0, sup0 = pre["far0"], pre["pos0"], pre["neg0"], pre["sup0"]
        quiet = z3.Or(z3.And(neg0 > 0, z3.Not(z3.BoolVal(self.force))), sup0)
        far1 = z(o["furthest_pos"])
        n = z3.Length(self.INPUT)
        run.oblige("far", far1 == z3.If(quiet, far0, z3.If(pos0 > far0, pos0, far0)))
        run.oblige("far.range", z3.And(far1 >= -1, far1 <= n, z3.Or(far1 == -1, far1 >= pre["start"])))
        # frame: position, depth counters, stacks untouched
        run.oblige("frame.scalars", z3.And(z(o["pos"]) == pos0, z(o["neg_pred_depth"]) == neg0, z(o["_suppress_failures"]) == sup0))
        run.oblige("frame.stacks", z3.And(stack_view(run, o["rule_stack"])[0] == pre["rstk"], stack_view(run, o["user_stack"])[0] == pre["stk"]))
        rstk = pre["rstk"]
        rn = pre["rn"] if pre["rn"] is not None else r_name(rstk[z3.Length(rstk) - 1])
        # keys / labels: only <rn> / <label> can be added; a new furthest position resets both maps
        e1, u1 = run.obj(o["furthest_expected"]), run.obj(o["furthest_unexpected"])
        e0, u0 = pre["exp0"], pre["unexp0"]
        k = z3.Unit(rn)
        neg_ctx = neg0 % 2 == 1
        empty = z3.Empty(z3.SeqSort(z3.StringSort()))
        lab = z3.Unit(pre["label"])
        further, equal = pos0 > far0, pos0 == far0

        def same(d1, d0):
            return z3.And(d1["keys"] == d0["keys"], d1["labels"] == d0["labels"])

        def added(d1, d0):
            return z3.And(d1["keys"] == z3.If(z3.Contains(d0["keys"], k), d0["keys"], z3.Concat(d0["keys"], k)), d1["labels"] == z3.Concat(d0["labels"], lab))

        def fresh_one(d1):
            return z3.And(d1["keys"] == k, d1["labels"] == lab)

        def is_empty(d1):
            return z3.And(d1["keys"] == empty, d1["labels"] == empty)

        want = z3.If(
            quiet,
            z3.And(same(e1, e0), same(u1, u0)),
            z3.If(
                further,
                z3.If(neg_ctx, z3.And(fresh_one(u1), is_empty(e1)), z3.And(fresh_one(e1), is_empty(u1))),
                z3.If(equal, z3.If(neg_ctx, z3.And(added(u1, u0), same(e1, e0)), z3.And(added(e1, e0), same(u1, u0))), z3.And(same(e1, e0), same(u1, u0))),
            ),
        )
        run.oblige("maps", want)
        fs = run.seq(o["furthest_stack"])
        run.oblige("furthest_stack", fs == z3.If(z3.And(z3.Not(quiet), further), rstk, pre["fstack0"]))


class PStateInit(DictModel, FunctionSpec):
    target = f"{PSTATE}.__init__"

    def setup(self, run: Run):
        st = run.heap.alloc(PSTATE, {}, fresh=False)
        text, start = run.fresh("text", "str"), run.fresh("start", "int")
        run.pre = {"st": st, "text": text.t, "start": start.t}
        return st, [text, start], {}

    @property
    def constructors(self):
        def mk_stack(run: Run, args, kwargs):
            return new_abstract_stack(run, "any", z3.Empty(z3.SeqSort(z3.IntSort())), None, fresh=True)

        def mk_sint(run: Run, args, kwargs):
            return new_sint(run, 0, z3.Empty(z3.SeqSort(z3.IntSort())), fresh=True)

        return {"pest.stack.Stack": mk_stack, "pest.checkpoint_int.SnapshottingInt": mk_sint}

    def dict_display(self, run: Run, items, n):
        if not items:
            return run.heap.alloc("dict", {"keys": z3.Empty(z3.SeqSort(z3.StringSort())), "labels": z3.Empty(z3.SeqSort(z3.StringSort()))})
        return NotImplemented

    def post(self, run: Run, pre: Any, out: Any) -> None:
        o = run.obj(pre["st"])
        run.oblige("input", z(o["input"]) == pre["text"])
        run.oblige("pos", z(o["pos"]) == pre["start"])
        run.oblige("far", o["furthest_pos"] == -1)
        run.oblige("neg", o["neg_pred_depth"] == 0)
        run.oblige("sup", o["_suppress_failures"] is False)
        run.oblige("parser.none", o["parser"] is None)
        for f in ("furthest_expected", "furthest_unexpected"):
            d = o[f]
            run.oblige(f"{f}.empty", isinstance(d, Ref) and run.cls_of(d) == "dict" and z3.is_true(z3.simplify(z3.Length(run.obj(d)["keys"]) == 0)))
        for f in ("_pos_history", "tag_stack", "furthest_stack"):
            v = o[f]
            run.oblige(f"{f}.empty", isinstance(v, Ref) and run.is_list(v) and run.seq(v) is None)
        for f in ("user_stack", "rule_stack"):
            v = o[f]
            run.oblige(f"{f}.fresh", isinstance(v, Ref) and run.cls_of(v) == "pest.stack.Stack" and run.heap.objs[v.oid]["$fresh"])
        ad = o["atomic_depth"]
        run.oblige("atomic_depth.zero", isinstance(ad, Ref) and run.obj(ad)["_value"] == 0)
        objs = [o[f].oid for f in ("user_stack", "rule_stack", "atomic_depth", "_pos_history", "tag_stack", "furthest_stack", "furthest_expected", "furthest_unexpected")]
        run.oblige("distinct", len(set(objs)) == len(objs))


rstrip = z3.Function("py_rstrip", z3.StringSort(), z3.StringSort())


class ErrorContext(c14.TextSpec):
    """error_context(text, index) for 0 <= index <= len(text): (rstrip(line containing index), 1 + cnt, index - lastnl)."""

    target = "pest.exceptions.error_context"

    def setup(self, run: Run):
        p = run.fresh("index", "int")
        run.assume(z3.And(0 <= p.t, p.t <= z3.Length(T)))
        run.pre = {"p": p.t}
        return None, [Sym(T, "str"), p], {}

    def str_method(self, run: Run, s: Any, name: str, args, kwargs, n):
        if name == "rstrip" and not args:
            return Sym(rstrip(z(s, "str")), "str")
        return c14.TextSpec.str_method(self, run, s, name, args, kwargs, n)

    @property
    def loops(self):
        def facts(run, g):
            i = z(run.loop_idx)
            return [*split_facts(i), bridge_in_line(i, run.pre["p"])]

        def inv(run, g):
            env = run.frames[0].env
            i = z(run.loop_idx)
            return [
                ("cum", z(env["cumulative_length"]) == off(i)),
                ("default", z(env["target_line_index"]) == N - 1),
                ("before", off(i) <= run.pre["p"]),
            ]

        return {0: Loop(inv, facts=facts, modifies=lambda run: [])}

    def post(self, run: Run, pre: Any, out: Any) -> None:
        p = pre["p"]
        i = cnt(p)
        for f in [*split_facts(N - 1), *split_facts(i), bridge_at_end(p), bridge_in_line(i, p), *cnt_unfold(p)]:
            run.assume(f)
        run.assume(z3.Implies(p < z3.Length(T), z3.And(0 <= i, i < N, off(i) <= p, p < off(i + 1))), "BRIDGE: p < |T| lies in line cnt(p)")
        ok = isinstance(out, tuple) and len(out) == 3
        run.oblige("result.is_triple", ok)
        if not ok:
            return
        w = {"T": T, "p": p, "line": out[1], "col": out[2], "lines": LNS}
        run.oblige("result.line", z(out[1]) == 1 + cnt(p), w)
        run.oblige("result.col", z(out[2]) == p - lastnl(p), w)
        term = z3.Or(N == 0, z3.SuffixOf(NL, T))
        at_new_line = z3.And(p == z3.Length(T), term)
        run.oblige("result.text", z(out[0], "str") == z3.If(at_new_line, z3.StringVal(""), rstrip(LNS[i])), w)


class ErrorContextSentinel(ErrorContext):
    """index = -1 (no expectation recorded): nothing is demanded beyond returning normally."""

    label = "pest.exceptions.error_context[index=-1]"

    def setup(self, run: Run):
        run.pre = {"p": z3.IntVal(-1)}
        return None, [Sym(T, "str"), -1], {}

    @property
    def loops(self):
        def facts(run, g):
            return split_facts(z(run.loop_idx))

        def inv(run, g):
            env = run.frames[0].env
            return [("cum", z(env["cumulative_length"]) == off(z(run.loop_idx))), ("default", z(env["target_line_index"]) == N - 1), ("first", z(run.loop_idx) == 0)]

        return {0: Loop(inv, facts=facts, modifies=lambda run: [])}

    def post(self, run: Run, pre: Any, out: Any) -> None:
        run.oblige("result.is_triple", isinstance(out, tuple) and len(out) == 3)


EXPLANATION = (
    "ParserState.fail's real body is proved (6 instances of force / rule_name) to keep furthest_pos = max(furthest_pos, pos) "
    "inside {-1} + [start_pos, len], to be silent when suppressed or inside a negative predicate, to touch nothing else "
    "of the parser state, and to add only the given rule name (or the name of the rule on top of the rule stack) and the "
    "given label to the expected/unexpected maps; ParserState.__init__ is proved to establish the initial state; "
    "error_context is proved to return the line/column of the failure position (C14's declarative Spec) and that line. "
    "Together with the furthest-position clauses of every operator proof this gives the position claim for all inputs. "
    "Rendering (contracts/c13_render.py): join_with_limit, PestParsingError.expected / expected_labels / detailed_message / "
    "__init__ / __str__ are executed symbolically for arbitrary label lists, separators, limits and furthest positions and "
    "proved never to raise, to return a str and to show error_context's line:column, line and caret. The optimizer's "
    "synthetic SKIP rule is proved to be tried with failure recording suppressed (interpreter and emitted code)."
)
TRUSTED = [
    "pyvc executor's model of the Python subset used; dict[str, list[str]] abstracted as (key sequence, flattened label sequence)",
    "z3 5.1.0 / cvc5 1.0.3",
    "C14's splitlines BRIDGE; str.rstrip() as an opaque function",
    "rendering: str.join, str(int), str * int are total uninterpreted functions into str; list(d) / chain(*d.values()) are the key / label sequences of the dict abstraction; Exception.__init__ stores its arguments in args; MemoryError not modelled",
    "the rule names pushed on the rule stack are rules of the grammar (Rule.parse pushes itself; generated code pushes its RuleFrame) - frame argument over the proved Rule contracts",
]
ASSUMPTIONS = ["no caller passes fail(pos=...) (syntactic scan of the call sites, extra check)", "labels are str (every call site passes str(self) / a stack entry / a literal: scanned)"]
BOUNDED = ["rendering on real states (kept beside the proof): all combinations of small texts (empty, multi-line, trailing newline, non-ASCII) x every furthest_pos in -1..len x expected/unexpected shapes (0-3 rules, 0-3 labels, long labels) - stand-in"]


def specs(tier):
    out = []
    for force in (False, True):
        for rn in ("none", "empty", "given"):
            out.append(FailSpec(force, rn))
    from . import c12, ops

    # the position range rests on every terminal staying inside the input; the one terminal that advances by a length
    # it does not read back from the match is ^"v": its contract and the regex assumptions behind it are re-proved here
    from . import c13_render, templates

    # "the names it lists are rules of the grammar or built-ins": the optimizer's synthetic SKIP rule is tried with failure
    # recording suppressed, in the interpreter and in emitted code (the clause is generated by the C04 contracts of
    # parse_trivia; kept here alone) - refuted on the pinned tree, repaired in /repo dbe98c8
    skip_specs = [ops.ParseTriviaSpec(True, False, False), *[t for t in templates.trivia_templates() if "skip=1,ws=0,cm=0" in t.label]]
    for sp in skip_specs:
        sp.keep_clauses = r"^trivia\.synthetic_rule"
        sp.label = f"{sp.label or sp.target}[names]"
    out = [*out, *skip_specs]

    return [*out, PStateInit(), ErrorContext(), ErrorContextSentinel(), ops.CIStringSpec(), c12.CIStrings(), *c13_render.specs(tier)]


def rendering_check() -> dict:
    import itertools

    from pest.exceptions import PestParsingError, join_with_limit
    from pest.state import ParserState, RuleFrame

    texts = ["", "x", "x\n", "x\ny", "\n\n", "é\nü", "a" * 100 + "\n" + "b" * 3]
    label_sets = [{}, {"r": ["'x'"]}, {"r": ["'x'", "'y'"], "s": ["z" * 60]}, {f"rule{i}": [f"label{i}" * 5] for i in range(12)}]
    bad = []
    n = 0
    for text in texts:
        for far in range(-1, len(text) + 1):
            for exp, unexp in itertools.product(label_sets, label_sets[:3]):
                n += 1
                st = ParserState(text, 0)
                st.furthest_pos = far
                st.furthest_expected = {k: list(v) for k, v in exp.items()}
                st.furthest_unexpected = {k: list(v) for k, v in unexp.items()}
                st.furthest_stack = [RuleFrame("r", 0), RuleFrame("s", 2)]
                try:
                    e = PestParsingError(st)
                    msg = str(e)
                    _ = e.detailed_message()
                    if not isinstance(msg, str):
                        bad.append({"text": text, "far": far, "what": "str(e) not a str"})
                    if far >= 0:
                        before = text[:far]
                        want = f"{1 + before.count(chr(10))}:{far - before.rfind(chr(10))}"
                        if want not in msg:
                            bad.append({"text": text, "far": far, "what": f"line:col {want} not in message"})
                except Exception as ex:  # noqa: BLE001
                    bad.append({"text": text, "far": far, "what": f"raised {type(ex).__name__}: {ex}"[:120]})
                if len(bad) > 3:
                    break
    for items in ([], ["a"], ["a" * 100], ["a", "b"], ["a" * 50, "b" * 50, "c"], [str(i) for i in range(40)]):
        for limit in (0, 1, 5, 9, 10, 40, 80):
            for last in (None, " or "):
                n += 1
                try:
                    r = join_with_limit(items, ", ", last_separator=last, limit=limit)
                    if not isinstance(r, str):
                        bad.append({"what": "join_with_limit returned non-str"})
                except Exception as ex:  # noqa: BLE001
                    bad.append({"what": f"join_with_limit raised {type(ex).__name__}", "items": items[:3], "limit": limit})
    return {"name": "c13-rendering-totality", "kind": "bounded stand-in (run-time check of the real rendering functions)", "evaluations": n,
            "bound": "7 texts x all furthest_pos x 12 expected/unexpected shapes; join_with_limit 6 x 7 x 2", "violation": bool(bad), "details": bad[:5]}


def callsite_scan() -> dict:
    """no caller passes fail(pos=...); every label argument is a str-typed expression"""
    import ast
    import os
    from pathlib import Path

    root = Path(os.environ.get("PYVC_REPO", "/repo")) / "src" / "pest"
    bad = []
    n = 0
    for p in root.rglob("*.py"):
        tree = ast.parse(p.read_text())
        for nd in ast.walk(tree):
            if isinstance(nd, ast.Call) and isinstance(nd.func, ast.Attribute) and nd.func.attr == "fail" and isinstance(nd.func.value, ast.Name) and nd.func.value.id == "state":
                n += 1
                if any(k.arg == "pos" for k in nd.keywords):
                    bad.append(f"{p.name}:{nd.lineno}: fail(pos=...)")
        for nd in ast.walk(tree):
            if isinstance(nd, ast.Constant) and isinstance(nd.value, str) and "state.fail(" in nd.value and "pos=" in nd.value:
                bad.append(f"{p.name}:{nd.lineno}: emitted fail(pos=...)")
    return {"name": "c13-fail-callsites", "kind": "syntactic scan", "evaluations": n, "violation": bool(bad), "details": bad[:5]}


def extra_checks(tier, seed):
    return [rendering_check(), callsite_scan()]


def concretise(tier, seed, refuted, undecided, known):
    r = rendering_check()
    return [{"found": True, "for": None, "input": d, "observed": d.get("what"), "cmd": "cd /verif && .venv/bin/python -c \"from contracts import c13; print(c13.rendering_check())\""} for d in r["details"][:1]]
