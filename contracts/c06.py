"""C06 - every returned parse tree is well-formed.

(1) Well-formedness of produced pairs is clause G.wf of the generic contract: every operator's real parse() and every
    emitted template is proved to deliver pairs P with wf(P, pos, pos') - inside [pos, pos'], in input order, pairwise
    non-overlapping, children recursively inside their parent's span - given the same of its children (induction over the
    expression tree: meta-argument).  Rule.parse / Rule.generate build exactly one pair <name, entry pos, exit pos, body
    pairs, tag> for a non-silent rule (K.pairs), only after the body matched (K.pairs.strict for templates); a silent
    rule passes its body's pairs on.  Parser.parse returns exactly the start rule's pairs.
(2) Accessors: Pair.tokens / Pairs.tokens / Pairs.flatten are proved against their functional Specs
       tokens(p) = [Start p] ++ concat(tokens(c) for c in children(p)) ++ [End p]        flatten = pre-order
    (generators are modelled as the list of yielded values; recursion against the function's own contract);
    Pair.text / __str__ / span by C14.
(3) Derived facts - balanced token stream with non-decreasing positions, flatten = the Start subsequence of tokens,
    dump()/dumps() render and agree, names are non-silent rules (or EOI), tags are tags of the grammar, one root at
    start_pos - are checked on real trees (bounded stand-in).
"""
from __future__ import annotations

import ast
from typing import Any

import z3

from pyvc import emit
from pyvc.driver import FunctionSpec
from pyvc.engine import Run
from pyvc.sorts import PairS, RuleS, register_kind
from pyvc.values import Ref, SeqV, Sym, wrap, z

from . import groups, ops, templates
from .groups import concretise_ops
from .ops import Loop
from .pstate import SeqPair, p_children, p_end, p_start

PROPERTY = "C06"
DROP_CLAUSES = r"^(K\.st\.|K\.ok|G\.[0-5]$|noraise|child\.requires|frame\.snaps|frame\.no_shared|startswith|pos\.not_none)"

PAIR = "pest.pairs.Pair"
PAIRS = "pest.pairs.Pairs"

_tk = z3.Datatype("Token")
_tk.declare("mk_token", ("t_is_start", z3.BoolSort()), ("t_rule", RuleS), ("t_pos", z3.IntSort()))
Token = _tk.create()
register_kind("token", Token)
SeqTok = z3.SeqSort(Token)
p_rule = z3.Function("p_rule", PairS, RuleS)
toks = z3.Function("tokens_of", PairS, SeqTok)
ft = z3.Function("tokens_of_all", SeqPair, SeqTok)  # concatenation of tokens_of over a sequence of pairs
flat = z3.Function("flatten_of", PairS, SeqPair)
ff = z3.Function("flatten_of_all", SeqPair, SeqPair)


def start_tok(p):
    return Token.mk_token(True, p_rule(p), p_start(p))


def end_tok(p):
    return Token.mk_token(False, p_rule(p), p_end(p))


def toks_unfold(p) -> list[z3.BoolRef]:
    return [toks(p) == z3.Concat(z3.Unit(start_tok(p)), ft(p_children(p)), z3.Unit(end_tok(p)))]


def fold_unfold(F, one, S, i) -> list[z3.BoolRef]:  # noqa: N803
    """F(S[:0]) = [] ;  F(S[:i+1]) = F(S[:i]) ++ one(S[i])"""
    empty = z3.Empty(F.range())
    return [
        F(z3.SubSeq(S, 0, 0)) == empty,
        z3.Implies(z3.And(0 <= i, i < z3.Length(S)), F(z3.SubSeq(S, 0, i + 1)) == z3.Concat(F(z3.SubSeq(S, 0, i)), one(S[i]))),
        F(z3.SubSeq(S, 0, z3.Length(S))) == F(S),
    ]


def pure(run: Run) -> tuple[bool, str]:
    """the accessor wrote to no object that existed before the call (the Pair / Pairs it was called on, their children, the
    rule objects): what a second call - or another accessor - sees does not depend on this one (round-6 seed C06d cached a
    half-finished traversal on the Pairs object)"""
    for oid, f in run.all_writes:
        o = run.heap.objs.get(oid)
        if o is None or o.get("$fresh"):
            continue
        return False, f"write to pre-existing object #{oid} ({o.get('$cls')}).{f}"
    return True, ""


def accessor_post_exc(spec, run: Run, pre: Any, exc) -> None:
    """C06 drops the operators' `noraise.*` clauses (they are C07's); an accessor that raises is C06's own business
    ("render without error", accessors usable on every returned tree): clause family `total.noraise.*`, never dropped."""
    if exc.name in spec.raises:
        return
    run.oblige(f"total.noraise.{exc.name}", False, note=exc.detail)


class PairModel(FunctionSpec):
    yield_kind = "token"

    def post_exc(self, run: Run, pre: Any, exc) -> None:
        accessor_post_exc(self, run, pre, exc)

    def mk_pair(self, run: Run) -> Ref:
        me = run.fresh("self_pair", "pair")
        ch = run.new_list("pair", p_children(me.t), fresh=False)
        o = run.heap.alloc(PAIR, {"$term": me.t, "rule": Sym(p_rule(me.t), "rule"), "start": Sym(p_start(me.t), "int"), "end": Sym(p_end(me.t), "int"), "children": ch}, fresh=False)
        run.pre = {"me": o, "p": me.t}
        return o

    @property
    def constructors(self):
        def mk(is_start):
            def f(run: Run, args, kwargs):
                return Sym(Token.mk_token(is_start, z(args[0]), z(args[1], "int")), "token")

            return f

        return {"pest.pairs.Start": mk(True), "pest.pairs.End": mk(False)}

    def call_method(self, run: Run, recv: Any, name: str, args, kwargs, n):
        # a child pair's tokens(): the function's own contract (induction on tree depth)
        if isinstance(recv, Sym) and recv.k == "pair" and name == "tokens":
            for f in toks_unfold(recv.t):
                run.assume(f)
            return SeqV(toks(recv.t), "token")
        return NotImplemented

    def getattr(self, run: Run, base: Any, attr: str, n):
        if isinstance(base, Sym) and base.k == "pair":
            if attr == "children":
                return SeqV(p_children(base.t), "pair")
            if attr in ("tokens",):
                from pyvc.values import BoundMethod

                return BoundMethod(base, attr)
        return NotImplemented


class PairTokens(PairModel):
    target = f"{PAIR}.tokens"

    def setup(self, run: Run):
        return self.mk_pair(run), [], {}

    @property
    def loops(self):
        def facts(run, g):
            S = p_children(run.pre["p"])  # noqa: N806
            return fold_unfold(ft, toks, S, z(run.loop_idx))

        def inv(run, g):
            p = run.pre["p"]
            S = p_children(p)  # noqa: N806
            acc, _ = run.as_seq(run.frames[0].env["$yield"], None, "token")
            return [("yielded", acc == z3.Concat(z3.Unit(start_tok(p)), ft(z3.SubSeq(S, 0, z(run.loop_idx)))))]

        def modifies(run):
            acc = run.frames[0].env["$yield"]
            run.as_seq(acc, None, "token")
            return [(acc, "seq")]

        return {0: Loop(inv, facts=facts, modifies=modifies)}

    def post(self, run: Run, pre: Any, out: Any) -> None:
        ok_, why_ = pure(run)
        run.oblige("frame.pure", ok_, note=why_)
        for f in toks_unfold(pre["p"]):
            run.assume(f)
        t, _ = run.as_seq(out, None, "token")
        run.oblige("result", t == toks(pre["p"]))


class PairsTokens(PairModel):
    target = f"{PAIRS}.tokens"

    def setup(self, run: Run):
        S = run.fresh_t("pairs", "seq:pair")  # noqa: N806
        lst = run.new_list("pair", S, fresh=False)
        me = run.heap.alloc(PAIRS, {"_pairs": lst}, fresh=False)
        run.pre = {"S": S}
        return me, [], {}

    @property
    def loops(self):
        def facts(run, g):
            return fold_unfold(ft, toks, run.pre["S"], z(run.loop_idx))

        def inv(run, g):
            acc, _ = run.as_seq(run.frames[0].env["$yield"], None, "token")
            return [("yielded", acc == ft(z3.SubSeq(run.pre["S"], 0, z(run.loop_idx))))]

        def modifies(run):
            acc = run.frames[0].env["$yield"]
            run.as_seq(acc, None, "token")
            return [(acc, "seq")]

        return {0: Loop(inv, facts=facts, modifies=modifies)}

    def post(self, run: Run, pre: Any, out: Any) -> None:
        ok_, why_ = pure(run)
        run.oblige("frame.pure", ok_, note=why_)
        t, _ = run.as_seq(out, None, "token")
        run.oblige("result", t == ft(pre["S"]))


def _inner_flatten(engine):
    fi = engine.program.funcs[f"{PAIRS}.flatten"]
    for nd in fi.node.body:
        if isinstance(nd, ast.FunctionDef) and nd.name == "_flatten":
            return emit.funcinfo(f"{PAIRS}.flatten.<locals>._flatten", ast.get_source_segment(engine.program.modules[fi.module].source, nd) or "", nd, fi.module)
    raise KeyError("_flatten")


class FlattenInner(PairModel):
    """the nested generator _flatten(pair): [pair] ++ concat(_flatten(c) for c in pair.children)"""

    target = f"{PAIRS}.flatten"
    label = f"{PAIRS}.flatten.<locals>._flatten"
    yield_kind = "pair"

    def source(self, engine):
        return _inner_flatten(engine)

    def setup(self, run: Run):
        p = run.fresh("pair", "pair")
        run.pre = {"p": p.t}
        return None, [p], {}

    def resolve_name(self, run: Run, name: str):
        if name == "_flatten":
            return ("$flatten",)
        return NotImplemented

    def call_value(self, run: Run, f: Any, args, kwargs, n):
        if isinstance(f, tuple) and f and f[0] == "$flatten":
            c = z(args[0])
            run.assume(flat(c) == z3.Concat(z3.Unit(c), ff(p_children(c))))
            return SeqV(flat(c), "pair")
        return NotImplemented

    @property
    def loops(self):
        def facts(run, g):
            return fold_unfold(ff, flat, p_children(run.pre["p"]), z(run.loop_idx))

        def inv(run, g):
            p = run.pre["p"]
            acc, _ = run.as_seq(run.frames[0].env["$yield"], None, "pair")
            return [("yielded", acc == z3.Concat(z3.Unit(p), ff(z3.SubSeq(p_children(p), 0, z(run.loop_idx)))))]

        def modifies(run):
            acc = run.frames[0].env["$yield"]
            run.as_seq(acc, None, "pair")
            return [(acc, "seq")]

        return {0: Loop(inv, facts=facts, modifies=modifies)}

    def post(self, run: Run, pre: Any, out: Any) -> None:
        ok_, why_ = pure(run)
        run.oblige("frame.pure", ok_, note=why_)
        p = pre["p"]
        run.assume(flat(p) == z3.Concat(z3.Unit(p), ff(p_children(p))))
        t, _ = run.as_seq(out, None, "pair")
        run.oblige("result", t == flat(p))


class PairsFlatten(PairModel):
    target = f"{PAIRS}.flatten"
    yield_kind = "pair"

    def setup(self, run: Run):
        S = run.fresh_t("pairs", "seq:pair")  # noqa: N806
        lst = run.new_list("pair", S, fresh=False)
        me = run.heap.alloc(PAIRS, {"_pairs": lst}, fresh=False)
        run.pre = {"S": S}
        return me, [], {}

    def call_local(self, run: Run, f: Any, args, kwargs, n):
        if f.node.name == "_flatten":
            c = z(args[0])
            return SeqV(flat(c), "pair")  # contract of the nested generator (FlattenInner)
        return NotImplemented

    @property
    def loops(self):
        def facts(run, g):
            return fold_unfold(ff, flat, run.pre["S"], z(run.loop_idx))

        def inv(run, g):
            acc, _ = run.as_seq(run.frames[0].env["$yield"], None, "pair")
            return [("yielded", acc == ff(z3.SubSeq(run.pre["S"], 0, z(run.loop_idx))))]

        def modifies(run):
            acc = run.frames[0].env["$yield"]
            run.as_seq(acc, None, "pair")
            return [(acc, "seq")]

        return {0: Loop(inv, facts=facts, modifies=modifies)}

    def post(self, run: Run, pre: Any, out: Any) -> None:
        ok_, why_ = pure(run)
        run.oblige("frame.pure", ok_, note=why_)
        t, _ = run.as_seq(out, None, "pair")
        run.oblige("result", t == ff(pre["S"]))


EXPLANATION = (
    "Clause G.wf (delivered pairs are well-formed inside [pos, pos']) and the pair-construction clauses K.pairs / "
    "K.pairs.strict are proved for every operator's real parse() and every emitted template, for all inputs, states and "
    "child behaviours; Pair.tokens, Pairs.tokens, the nested generator of Pairs.flatten and Pairs.flatten are proved "
    "against their functional Specs (tokens = [Start] ++ children's tokens ++ [End]; flatten = pre-order) with "
    "recursion against their own contracts. Pair.dump / Pair.dumps / Pairs.dump / Pairs.dumps are proved against Spec "
    "functions of one abstract tree (dumps = pest's format_pair of exactly what dump returns), the other accessors "
    "(text, __str__, as_str, inner, stream, __len__, __getitem__, first, find_first_tagged, Stream.next / peek / backup) "
    "against functional contracts; every accessor is proved pure (frame.pure) and total (total.noraise.*). "
    "templates.stubs_representative: parse() / generate() test the class or tag of a child only at the audited sites. "
    "Balancedness, monotone positions, names/tags are derived facts checked on real trees (bounded stand-in)."
)
TRUSTED = [
    *groups.COMMON_TRUSTED,
    "wf lemma instances W1-W5 (concatenation, monotonicity, singleton) follow from the definition of wf by induction on the length of the pair list (trusted)",
    "generators modelled as the list of yielded values (no interleaving with the consumer)",
    "json.dumps(str), str.join(list of str), str * int: total uninterpreted functions into str; a tag is None or non-empty (C10 lexical layer); dict displays as records",
    "list comprehensions over children modelled as the pointwise map of the function's own contract (length and first element unfolded)",
    "derived facts (balanced Start/End stream, non-decreasing positions) follow from the functional Spec of tokens() and wf by induction on the tree (meta-argument; checked on real trees by the stand-in)",
]
ASSUMPTIONS = groups.COMMON_ASSUMPTIONS
BOUNDED = ["derived tree facts, accessor purity (abandoned traversals, early-stopping searches first), dumps() == independent rendering of dump(): 11 replay/diff4 families and the bundled grammars' corpora, four modes, start positions 0..2 (stand-in)"]


def specs(tier):
    # which inner pairs an @ rule shows is C04's question (finding F8); for well-formedness the implemented behaviour
    # (inner pairs hidden) is what has to be, and is, well-formed: kids="impl"
    rules = [r if r.modifier != 4 else ops.RuleSpec(4, None, "impl") for r in groups.rules()]
    code = [*groups.core_terminals()[:6], *groups.stack_terminals(), *groups.structure(), *groups.backtracking(), *rules, *groups.trivia(), *groups.entry(),
            *templates.all_templates(3 if tier == "quick" else 5, kids="impl")]
    from . import c06_access, c06_dump

    return [*code, PairTokens(), PairsTokens(), FlattenInner(), PairsFlatten(), *c06_dump.specs(tier), *c06_access.specs(tier), templates.StubsRepresentative()]


concretise = concretise_ops(PROPERTY, default_modes=("interp", "interp+opt", "gen", "gen+opt"))


def _pre(dd):
    yield dd
    for x in dd["inner"]:
        yield from _pre(x)


def tree_facts() -> dict:  # noqa: C901, PLR0912, PLR0915
    import json

    from pest import Parser
    from pest.pairs import End, Start

    from replay import diff4

    from . import c08

    bad: list[dict[str, Any]] = []
    n = 0

    def check_tree(pairs, text, start_pos, rules, what):
        nonlocal n
        n += 1
        names = {k for k, r in rules.items() if not (r.modifier & 2)} | {"EOI"}

        def tags_in(e, acc):
            if getattr(e, "tag", None):
                acc.add(e.tag)
            for ch in e.children():
                tags_in(ch, acc)

        grammar_tags: set[str] = set()
        for r in rules.values():
            if type(r).__name__ == "GrammarRule":
                tags_in(r.expression, grammar_tags)

        def walk(p, lo, hi):
            if not (lo <= p.start <= p.end <= hi and p.end <= len(text)):
                return f"span of {p.name} [{p.start},{p.end}] outside [{lo},{hi}]"
            if p.text != text[p.start:p.end] or str(p) != p.text or str(p.span()) != p.text:
                return f"text of {p.name}"
            if p.name not in names:
                return f"name {p.name} is not a non-silent rule"
            if p.tag is not None and p.tag not in grammar_tags:
                return f"tag {p.tag} not in the grammar"
            pos = p.start
            for c in p.children:
                if c.start < pos:
                    return f"children of {p.name} overlap / out of order"
                r = walk(c, p.start, p.end)
                if r:
                    return r
                pos = c.end
            return None

        pos = start_pos
        for p in pairs:
            if p.start < pos:
                return "top-level pairs out of order"
            r = walk(p, start_pos, len(text))
            if r:
                return r
            pos = p.end
        # the FIRST traversals of this object are abandoned / stop early (round-6 seed C06d remembered a half-finished walk)
        it = pairs.flatten()
        next(it, None)
        next(it, None)
        del it
        pairs.find_first_tagged("no-such-tag-1") if len(pairs) and pairs[0].children else None
        for p0 in pairs.flatten():
            if p0.tag:
                pairs.find_first_tagged(p0.tag)
                break
        it = pairs.tokens()
        next(it, None)
        del it
        toks_ = list(pairs.tokens())
        stack, last = [], start_pos
        for t in toks_:
            if t.pos < last:
                return "token positions decrease"
            last = t.pos
            if isinstance(t, Start):
                stack.append(t.rule.name)
            elif isinstance(t, End):
                if not stack or stack.pop() != t.rule.name:
                    return "unbalanced token stream"
        if stack:
            return "unbalanced token stream"
        fl = list(pairs.flatten())
        if [(p.name, p.start) for p in fl] != [(t.rule.name, t.pos) for t in toks_ if isinstance(t, Start)]:
            return "flatten() is not the pre-order of tokens()"
        # accessors are pure: an abandoned traversal, a search that stops early or a second call changes nothing
        it = pairs.flatten()
        next(it, None)
        del it
        for tg in sorted({p.tag for p in fl if p.tag})[:2] + ["no-such-tag"]:
            pairs.find_first_tagged(tg)
            next(iter(pairs.find_tagged(tg)), None) if hasattr(pairs, "find_tagged") else None
        it = pairs.tokens()
        next(it, None)
        del it
        if [id(p) for p in pairs.flatten()] != [id(p) for p in fl] or [(type(t), t.rule.name, t.pos) for t in pairs.tokens()] != [(type(t), t.rule.name, t.pos) for t in toks_]:
            return "flatten() / tokens() differ after an abandoned traversal or an early-stopping search"
        for p in fl[:3]:
            if [id(c) for c in p.inner()] != [id(c) for c in p.children] or [id(c) for c in p] != [id(c) for c in p.children]:
                return f"inner() / iteration of {p.name} are not its children"
            st_ = p.stream()
            seen_ = []
            while (nx := st_.next()) is not None:
                seen_.append(id(nx))
                if len(seen_) > len(p.children) + 1:
                    break
            if seen_ != [id(c) for c in p.children]:
                return f"stream() of {p.name} does not step through its children"
        try:
            d = pairs.dump()
            s1 = pairs.dumps()
            s2 = pairs.dumps(compact=False)
            if json.loads(s2) != d:
                return "dumps(compact=False) disagrees with dump()"

            def count(dd):
                return sum(1 + count(x["inner"]) for x in dd)

            # dumps() is pest's format_pair rendering of exactly the information dump() gives: rendered here,
            # independently, from the dump() structure alone (rule, span.str, inner, node_tag)
            def fmt(dd, indent, new_line):
                k = len(dd["inner"])
                head = ("  " * indent if new_line else "") + ("- " if new_line else "") + (dd["node_tag"] + " " if "node_tag" in dd else "") + dd["rule"]
                if k == 0:
                    return head + ": " + json.dumps(dd["span"]["str"])
                if k == 1:
                    return head + " > " + fmt(dd["inner"][0], indent, False)
                return head + "\n" + "\n".join(fmt(x, indent + 1, True) for x in dd["inner"])

            if s1 != "\n".join(fmt(x, 0, True) for x in d):
                return "dumps() is not the rendering of dump()"
            for p, dd in zip(fl, (lambda it: it)([y for x in d for y in _pre(x)])):
                if dd["rule"] != p.name or dd["span"] != {"str": p.text, "start": p.start, "end": p.end} or dd.get("node_tag") != p.tag:
                    return f"dump() entry of {p.name} disagrees with the pair"
            if count(d) != len(fl) or (fl and sum(1 for ln in s1.splitlines()) < 1):
                return "dump() node count differs from flatten()"
            for p in fl:
                if p.name not in s1:
                    return f"dumps() does not mention {p.name}"
        except Exception as ex:  # noqa: BLE001
            return f"dump/dumps raised {type(ex).__name__}: {ex}"[:100]
        return None

    fams = ["sequence", "choice", "repeat", "repeat_once", "rule", "trivia", "push", "stack_backtrack", "optimizer_inline", "predicate", "tags"]
    for fam in fams:
        spec = diff4.FAMILIES[fam]
        for g in spec["grammars"]:
            for opt in (False, True):
                try:
                    p, gparse = diff4.build(g, opt)
                except Exception:  # noqa: BLE001
                    continue
                for text in diff4.inputs(spec["alphabet"][:3], min(spec["n"], 4)):
                    for sp in range(min(len(text), 2) + 1):
                        for nm, f in (("interp", p.parse), ("gen", gparse)):
                            try:
                                pairs = f("a", text, start_pos=sp)
                            except Exception:  # noqa: BLE001
                                continue
                            why = check_tree(pairs, text, sp, p.rules, nm)
                            if not why and p.rules["a"].modifier & 2 == 0 and (len(pairs) != 1 or pairs[0].start != sp):
                                why = "a non-silent start rule must yield exactly one root starting at start_pos"
                            if why:
                                bad.append({"grammar": g, "text": text, "start_pos": sp, "mode": nm + ("+opt" if opt else ""), "what": why})
                                break
                    if bad:
                        break
                if bad:
                    break
            if bad:
                break
        if bad:
            break
    if not bad:
        for rel in c08.BUNDLED:
            path = c08._repo_root() / rel  # noqa: SLF001
            if not path.exists():
                continue
            text = path.read_text()
            for opt in (False, True):
                p = Parser.from_grammar(text) if opt else Parser.from_grammar(text, optimizer=None)
                ns: dict[str, Any] = {}
                exec(compile(p.generate(), "<g>", "exec"), ns)  # noqa: S102
                for rule, inp in c08._corpus(rel):  # noqa: SLF001
                    if rule not in p.rules:
                        continue
                    for nm, f in (("interp", p.parse), ("gen", ns["parse"])):
                        try:
                            pairs = f(rule, inp)
                        except Exception:  # noqa: BLE001
                            continue
                        why = check_tree(pairs, inp, 0, p.rules, nm)
                        if why:
                            bad.append({"grammar": rel, "text": inp[:60], "mode": nm + ("+opt" if opt else ""), "what": why})
    return {"name": "c06-tree-facts", "kind": "bounded stand-in (derived well-formedness facts and accessors on real trees)", "evaluations": n,
            "bound": "11 replay/diff4 families incl. tagged only-children (inputs up to length 4, start positions 0..2) + bundled grammars' corpora, four modes", "violation": bool(bad), "details": bad[:3]}


def extra_checks(tier, seed):
    return [tree_facts()]
