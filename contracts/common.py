"""Shared call-site contracts (summaries).

The summaries here are the *same reference operations* that contracts/c09.py proves the
real Stack / SnapshottingInt methods to implement (c09.REF_OPS); callers are verified
against them, never against the bodies.

Abstract Stack object on the executor heap:
    {"items": <list ref>, "$snaps": <SL term, newest first>, "$ek": element kind}
"""
from __future__ import annotations

from typing import Any

import z3

from pyvc.engine import PyExc, Run
from pyvc.sorts import SL, sort_of
from pyvc.values import Ref, SliceV, wrap, z

STACK = "pest.stack.Stack"
SINT = "pest.checkpoint_int.SnapshottingInt"


def new_abstract_stack(run: Run, ek: str, items: z3.ExprRef, snaps: z3.ExprRef, fresh: bool = False) -> Ref:
    lst = run.new_list(ek, items, fresh=fresh)
    return run.heap.alloc(STACK, {"items": lst, "$snaps": snaps, "$ek": ek}, fresh=fresh)


def stack_view(run: Run, st: Ref) -> tuple[z3.ExprRef, z3.ExprRef]:
    o = run.obj(st)
    return run.seq(o["items"]), o["$snaps"]


# ---- reference operations on the view (shared with c09's harness) -----------------
def ref_push(I, S, x):  # noqa: N803, E741
    return z3.Concat(I, z3.Unit(x)), S


def ref_pop(I, S):  # noqa: N803, E741
    n = z3.Length(I)
    return z3.SubSeq(I, 0, n - 1), S, I[n - 1]


def ref_clear(I, S):  # noqa: N803, E741
    return z3.Empty(I.sort()), S


def ref_snapshot(I, S, slt):  # noqa: N803, E741
    return I, slt.cons(I, S)


def ref_restore(I, S, slt):  # noqa: N803, E741
    return z3.If(slt.is_nil(S), z3.Empty(I.sort()), slt.hd(S)), z3.If(slt.is_nil(S), slt.nil, slt.tl(S))


def ref_drop(I, S, slt):  # noqa: N803, E741
    return I, z3.If(slt.is_nil(S), slt.nil, slt.tl(S))


# ---- summaries ---------------------------------------------------------------------
def _set_items(run: Run, st: Ref, t: z3.ExprRef) -> None:
    run.set_seq(run.obj(st)["items"], t)


def _set_snaps(run: Run, st: Ref, s: z3.ExprRef) -> None:
    run.setf(st, "$snaps", s)


def s_push(run: Run, recv: Ref, args: list[Any], kw: dict[str, Any]) -> None:
    I, S = stack_view(run, recv)  # noqa: N806, E741
    ek = run.obj(recv)["$ek"]
    x = args[0]
    if isinstance(x, Ref) and "$term" in run.obj(x):
        x = run.obj(x)["$term"]  # heap object standing for a z3 term (a Rule pushed on the rule stack)
    I2, _ = ref_push(I, S, z(x, ek))  # noqa: N806
    _set_items(run, recv, I2)


def s_pop(run: Run, recv: Ref, args: list[Any], kw: dict[str, Any]) -> Any:
    I, S = stack_view(run, recv)  # noqa: N806, E741
    if not run.branch(z3.Length(I) > 0, "stack.pop.nonempty"):
        raise PyExc("IndexError", "pop from empty Stack")
    I2, _, x = ref_pop(I, S)  # noqa: N806
    _set_items(run, recv, I2)
    return wrap(x, run.obj(recv)["$ek"])


def s_peek(run: Run, recv: Ref, args: list[Any], kw: dict[str, Any]) -> Any:
    I, _ = stack_view(run, recv)  # noqa: N806, E741
    if not run.branch(z3.Length(I) > 0, "stack.peek.nonempty"):
        raise PyExc("IndexError", "peek on empty Stack")
    return wrap(I[z3.Length(I) - 1], run.obj(recv)["$ek"])


def s_empty(run: Run, recv: Ref, args: list[Any], kw: dict[str, Any]) -> Any:
    I, _ = stack_view(run, recv)  # noqa: N806, E741
    return wrap(z3.Length(I) == 0, "bool")


def s_len(run: Run, recv: Ref, args: list[Any], kw: dict[str, Any]) -> Any:
    I, _ = stack_view(run, recv)  # noqa: N806, E741
    return wrap(z3.Length(I), "int")


def s_clear(run: Run, recv: Ref, args: list[Any], kw: dict[str, Any]) -> None:
    I, S = stack_view(run, recv)  # noqa: N806, E741
    _set_items(run, recv, ref_clear(I, S)[0])


def s_snapshot(run: Run, recv: Ref, args: list[Any], kw: dict[str, Any]) -> None:
    I, S = stack_view(run, recv)  # noqa: N806, E741
    _set_snaps(run, recv, ref_snapshot(I, S, SL(run.obj(recv)["$ek"]))[1])


def s_restore(run: Run, recv: Ref, args: list[Any], kw: dict[str, Any]) -> None:
    I, S = stack_view(run, recv)  # noqa: N806, E741
    I2, S2 = ref_restore(I, S, SL(run.obj(recv)["$ek"]))  # noqa: N806
    _set_items(run, recv, I2)
    _set_snaps(run, recv, S2)


def s_drop_snapshot(run: Run, recv: Ref, args: list[Any], kw: dict[str, Any]) -> None:
    I, S = stack_view(run, recv)  # noqa: N806, E741
    _set_snaps(run, recv, ref_drop(I, S, SL(run.obj(recv)["$ek"]))[1])


def s_getitem(run: Run, recv: Ref, args: list[Any], kw: dict[str, Any]) -> Any:
    items = run.obj(recv)["items"]
    (idx,) = args
    if isinstance(idx, SliceV):
        return run.getslice(items, idx.lo, idx.hi, None)
    return run.getitem(items, idx, None)


def s_iter(run: Run, recv: Ref, args: list[Any], kw: dict[str, Any]) -> Any:
    return run.obj(recv)["items"]


STACK_SUMMARIES = {
    f"{STACK}.push": s_push,
    f"{STACK}.pop": s_pop,
    f"{STACK}.peek": s_peek,
    f"{STACK}.empty": s_empty,
    f"{STACK}.__len__": s_len,
    f"{STACK}.clear": s_clear,
    f"{STACK}.snapshot": s_snapshot,
    f"{STACK}.restore": s_restore,
    f"{STACK}.drop_snapshot": s_drop_snapshot,
    f"{STACK}.__getitem__": s_getitem,
    f"{STACK}.__iter__": s_iter,
}

# SnapshottingInt is small enough that callers inline its real bodies (each body is also
# verified on its own in c09).
SINT_INLINE = tuple(
    f"{SINT}.{m}" for m in ("snapshot", "restore", "drop", "zero", "__add__", "__int__", "__gt__", "__eq__")
)


def new_sint(run: Run, value: Any, cps: z3.ExprRef, fresh: bool = False) -> Ref:
    lst = run.new_list("int", cps, fresh=fresh)
    return run.heap.alloc(SINT, {"_value": value, "_checkpoints": lst}, fresh=fresh)


def sl_len_fn(ek: str) -> z3.FuncDeclRef:
    return z3.Function(f"sl_len_{ek}", SL(ek).sort, z3.IntSort())


def sl_len_facts(ek: str, S: z3.ExprRef) -> list[z3.BoolRef]:  # noqa: N803
    """Unfolding instance of the recursive length of a snapshot list at S."""
    f = sl_len_fn(ek)
    slt = SL(ek)
    return [
        f(S) >= 0,
        z3.Implies(slt.is_nil(S), f(S) == 0),
        z3.Implies(slt.is_cons(S), z3.And(f(S) == 1 + f(slt.tl(S)), f(slt.tl(S)) >= 0)),
    ]


def standin_findings(prop: str, standin: str) -> dict[str, str]:
    """`finding:` lines of KNOWN_FINDINGS.txt that name a case of a bounded stand-in:
    finding: property=<prop> standin=<standin> case=<case-id> <what fails>   ->   {case-id: text of the line}.
    A stand-in that detects exactly such a case reports it under `known_lines` (printed as KNOWN-FINDING, exit 0);
    anything else it detects is a violation.  Read only."""
    from pyvc.report import load_known

    return {k["case"]: k["text"] for k in load_known() if k["kind"] == "finding" and k.get("property") == prop and k.get("standin") == standin and "case" in k}


KNOWN_SHAPE_SITES = {
    "NegativePredicate.parse: isinstance(self.expression, Identifier)", "NegativePredicate.parse: isinstance(self.expression, Rule)",
    "NegativePredicate.generate: isinstance(self.expression, Identifier)", "NegativePredicate.generate: isinstance(self.expression, Rule)",
    "Rule.parse: isinstance(self.expression, Rule)", "Rule.parse: isinstance(self.expression, Identifier)",
    "Rule.generate: isinstance(self.expression, Rule)", "Rule.generate: isinstance(self.expression, Identifier)",
}


def shape_inspection_sites() -> list[str]:
    """parse() / generate() methods of expression classes that test the CLASS (or the tag / attributes) of a child
    expression: `isinstance(<child>, ..)`, `type(<child>)`, `<child>.__class__`, `self.expression.<attr>` other than
    parse / generate / children.  The operator and template proofs treat children as oracles (stub children when the real
    generator is run), so they are representative only if no such test exists beyond the audited sites."""
    import ast
    import os
    from pathlib import Path

    root = Path(os.environ.get("PYVC_REPO", "/repo")) / "src" / "pest" / "grammar"
    sites = []
    child_roots = ("self.expression", "expr", "child", "self.expressions", "self.left", "self.right")
    for path in root.rglob("*.py"):
        if "optimizer" in str(path) or "codegen" in str(path) or path.name in ("parser.py", "scanner.py"):
            continue
        tree = ast.parse(path.read_text())
        for cls in [n for n in ast.walk(tree) if isinstance(n, ast.ClassDef)]:
            for fn in [f for f in cls.body if isinstance(f, ast.FunctionDef) and f.name in ("parse", "generate")]:
                for nd in ast.walk(fn):
                    if isinstance(nd, ast.Call) and isinstance(nd.func, ast.Name) and nd.func.id in ("isinstance", "type", "issubclass") and nd.args:
                        a0 = ast.unparse(nd.args[0])
                        if a0.startswith(child_roots):
                            rest = f", {ast.unparse(nd.args[1])}" if len(nd.args) > 1 else ""
                            sites.append(f"{cls.name}.{fn.name}: {nd.func.id}({a0}{rest})")
                    if isinstance(nd, ast.Attribute) and isinstance(nd.value, ast.Attribute) and ast.unparse(nd.value) == "self.expression" \
                            and nd.attr not in ("parse", "generate", "children", "expression", "value", "name"):
                        sites.append(f"{cls.name}.{fn.name}: self.expression.{nd.attr}")
    return sites
