"""C07 - parse() is total: Pairs or PestParsingError (exception-freedom of the interpreter parse path)."""
from . import groups as g
from . import ops, unroll_struct

PROPERTY = "C07"
EXPLANATION = (
    "Every function on the interpreter's parse path is executed symbolically with every modelled run-time error "
    "(IndexError, KeyError, AssertionError, TypeError on None, UnboundLocalError) as a possible exit; the obligations "
    "`noraise.*` show none can escape, `child.requires.*` show every callee is entered in a well-formed state, and "
    "Parser.parse returns Pairs or raises PestParsingError(state). Termination: every while loop on the parse path - "
    "Repeat / RepeatOnce, ParserState.parse_trivia, PopAll and the emitted twins - has a variant (len(input) - position of "
    "the last committed state, or the stack depth) proved non-negative and strictly decreasing at every back-edge "
    "(`loopN.decreases`) under the property's precondition that a repeated expression / WHITESPACE / COMMENT that "
    "matches consumes input; for loops run over finite sequences their bodies do not mutate (checked). Termination of "
    "the recursion through rules (no left recursion) is NOT mechanised."
)
TRUSTED = g.COMMON_TRUSTED
ASSUMPTIONS = [*g.COMMON_ASSUMPTIONS, "RecursionError / MemoryError are not modelled",
               "termination hypotheses (C07's precondition): a successful match of a repeated child or of WHITESPACE / COMMENT moves the position forward - without them the `decreases` obligations are refutable (checked once: sat), with them proved",
               "termination of recursion through rules: paper argument (lexicographic measure (len - pos, rules entered without progress) under 'free of left recursion'), not checked"]
BOUNDED = ["bounded repetitions e{n}, e{n,}, e{,n}, e{m,n}: the delegation to the unrolled sequence is proved for all n; that unroll() builds the named sequence is run concretely for parameters 0..5 (contracts/unroll_struct.py)"]
# functional clauses belong to C03-C06; C07 keeps exception-freedom, callee preconditions, loop invariants, entry point
DROP_CLAUSES = r"^(K\.st\.|K\.pairs|G\.|frame\.)"


def specs(tier):
    from . import templates as t

    from . import c02

    # optimizer-only nodes: their parse() must be total too, including the pattern OptimizedChoice compiles lazily
    opt = [ops.SkipUntilSpec(), ops.RegexNodeSpec("RegexExpression"), ops.RegexNodeSpec("OptimizedChoice"), *t.skipuntil_templates()[:3], *t.regex_node_templates(),
           c02.SquashArms(), c02.LazyPatternsCompile()]
    out = [*g.core_terminals(), *g.stack_terminals(), *g.structure(), *g.backtracking(), *ops.bounded_repeat_specs(), *g.rules(), *g.trivia(), *g.entry(),
           *t.all_templates(3 if tier == "quick" else 5), *opt]
    for s in out:
        # C07 "terminates": every while loop on the parse path (interpreter and emitted code) gets a `loopN.decreases` obligation
        if hasattr(s, "termination_variant"):
            s.termination = True
    return out

from .groups import concretise_ops
concretise = concretise_ops(PROPERTY)


def extra_checks(tier, seed):
    return [unroll_struct.check()]
