"""C18 - PrattParser.parse_expr honours declared precedence and associativity.

Spec: the precedence-climbing recurrence that *defines* "binds according to declared precedence"
(pest's PrattParser), as recursive Spec functions over an arbitrary token sequence and arbitrary
operator tables:

  pe(i, m)      expression starting at token i with minimum binding power m  -> (err, tree, end)
     i >= n                      -> err
     tok prefix, prec p          -> sub = pe(i+1, p);  lp(Pre(tok, sub.tree), sub.end, m)
     otherwise                   -> lp(Prim(tok), i+1, m)
  lp(left, j, m)  fold operators that bind at least as tightly as m
     j >= n                      -> (left, j)
     tok postfix, prec q         -> q < m ? (left, j) : lp(Post(left, tok), j+1, m)
     tok infix (q, right_assoc)  -> q < m ? (left, j) : sub = pe(j+1, q + (right_assoc ? 0 : 1));  lp(In(left, tok, sub.tree), sub.end, m)
     otherwise                   -> (left, j)

User callbacks are free constructors Prim/Pre/Post/In.  Recursion is verified against the function's
own contract (induction on call depth); the loop by an invariant over lp.
A declarative, independent characterisation (lowest-precedence split for infix chains, operand
spines for prefix/postfix) is compared on all small tables/streams as a bounded stand-in.
"""
from __future__ import annotations

from typing import Any

import z3

from pyvc.driver import FunctionSpec
from pyvc.engine import PyExc, Run
from pyvc.sorts import register_kind
from pyvc.values import BoundMethod, Ref, Sym, wrap, z

from .ops import Loop

PROPERTY = "C18"
PRATT = "pest.pratt.PrattParser"
STREAM = "pest.pairs.Stream"

Tok = z3.DeclareSort("Tok")
Expr = z3.DeclareSort("Expr")
register_kind("tok", Tok)
register_kind("expr", Expr)
t_name = z3.Function("t_name", Tok, z3.StringSort())
S = z3.StringSort()
I = z3.IntSort()  # noqa: E741
B = z3.BoolSort()
is_pre, is_post, is_in = (z3.Function(n, S, B) for n in ("is_prefix", "is_postfix", "is_infix"))
pre_prec, post_prec, in_prec = (z3.Function(n, S, I) for n in ("prefix_prec", "postfix_prec", "infix_prec"))
in_right = z3.Function("infix_right_assoc", S, B)
Prim = z3.Function("Prim", Tok, Expr)
Pre = z3.Function("Pre", Tok, Expr, Expr)
Post = z3.Function("Post", Expr, Tok, Expr)
In = z3.Function("In", Expr, Tok, Expr, Expr)
pe_err, pe_tree, pe_end = z3.Function("pe_err", I, I, B), z3.Function("pe_tree", I, I, Expr), z3.Function("pe_end", I, I, I)
lp_err, lp_tree, lp_end = z3.Function("lp_err", Expr, I, I, B), z3.Function("lp_tree", Expr, I, I, Expr), z3.Function("lp_end", Expr, I, I, I)
TOKS = z3.Const("tokens", z3.SeqSort(Tok))
NT = z3.Length(TOKS)


def pe_unfold(i, m) -> list[z3.BoolRef]:
    tok = TOKS[i]
    nm = t_name(tok)
    p = pre_prec(nm)
    sub_e, sub_t, sub_j = pe_err(i + 1, p), pe_tree(i + 1, p), pe_end(i + 1, p)
    l_pre = Pre(tok, sub_t)
    l_prim = Prim(tok)
    return [
        pe_err(i, m) == z3.If(i >= NT, True, z3.If(is_pre(nm), z3.If(sub_e, True, lp_err(l_pre, sub_j, m)), lp_err(l_prim, i + 1, m))),
        z3.Implies(i < NT, pe_tree(i, m) == z3.If(is_pre(nm), lp_tree(l_pre, sub_j, m), lp_tree(l_prim, i + 1, m))),
        z3.Implies(i < NT, pe_end(i, m) == z3.If(is_pre(nm), lp_end(l_pre, sub_j, m), lp_end(l_prim, i + 1, m))),
    ]


def lp_unfold(left, j, m) -> list[z3.BoolRef]:
    tok = TOKS[j]
    nm = t_name(tok)
    q = in_prec(nm)
    rbp = q + z3.If(in_right(nm), 0, 1)
    sub_e, sub_t, sub_j = pe_err(j + 1, rbp), pe_tree(j + 1, rbp), pe_end(j + 1, rbp)
    post = Post(left, tok)
    inf = In(left, tok, sub_t)
    stop = z3.Or(j >= NT, z3.And(is_post(nm), post_prec(nm) < m), z3.And(z3.Not(is_post(nm)), is_in(nm), q < m), z3.And(z3.Not(is_post(nm)), z3.Not(is_in(nm))))
    go_post = z3.And(j < NT, is_post(nm), post_prec(nm) >= m)
    return [
        lp_err(left, j, m) == z3.If(stop, False, z3.If(go_post, lp_err(post, j + 1, m), z3.If(sub_e, True, lp_err(inf, sub_j, m)))),
        lp_tree(left, j, m) == z3.If(stop, left, z3.If(go_post, lp_tree(post, j + 1, m), lp_tree(inf, sub_j, m))),
        lp_end(left, j, m) == z3.If(stop, j, z3.If(go_post, lp_end(post, j + 1, m), lp_end(inf, sub_j, m))),
    ]


class ParseExpr(FunctionSpec):
    target = f"{PRATT}.parse_expr"
    raises = ("SyntaxError",)
    inline = (f"{STREAM}.next", f"{STREAM}.peek")

    def setup(self, run: Run):
        me = run.heap.alloc(PRATT, {"PREFIX_OPS": ("$tbl", "pre"), "POSTFIX_OPS": ("$tbl", "post"), "INFIX_OPS": ("$tbl", "in")}, fresh=False)
        i = run.fresh("i", "int")
        m = run.fresh("m", "int")
        run.assume(z3.And(0 <= i.t, i.t <= NT))
        pairs = run.new_list("tok", TOKS, fresh=False)
        stream = run.heap.alloc(STREAM, {"pos": i, "pairs": pairs}, fresh=False)
        run.pre = {"me": me, "stream": stream, "i": i.t, "m": m.t}
        for f in pe_unfold(i.t, m.t):
            run.assume(f)
        return me, [stream, m], {}

    # ---- hooks
    def getattr(self, run: Run, base: Any, attr: str, n):
        if isinstance(base, Sym) and base.k == "tok" and attr == "name":
            return Sym(t_name(base.t), "str")
        if isinstance(base, tuple) and base and base[0] == "$tbl":
            return BoundMethod(base, attr)
        return NotImplemented

    def contains(self, run: Run, container: Any, item: Any, n):
        if isinstance(container, tuple) and container and container[0] == "$tbl":
            f = {"pre": is_pre, "post": is_post, "in": is_in}[container[1]]
            return wrap(f(z(item, "str")), "bool")
        return NotImplemented

    def getitem(self, run: Run, base: Any, idx: Any, n):
        if isinstance(base, tuple) and base and base[0] == "$tbl":
            nm = z(idx, "str")
            member = {"pre": is_pre, "post": is_post, "in": is_in}[base[1]](nm)
            if not run.branch(member, f"tbl.{base[1]}.has"):
                raise PyExc("KeyError", f"{base[1]} table lookup of a name not in it")
            if base[1] == "pre":
                return wrap(pre_prec(nm), "int")
            if base[1] == "post":
                return wrap(post_prec(nm), "int")
            return (wrap(in_prec(nm), "int"), wrap(in_right(nm), "bool"))
        return NotImplemented

    def truth(self, run: Run, v: Any):
        if isinstance(v, Sym) and v.k in ("tok", "expr"):
            return True
        return NotImplemented

    def call_method(self, run: Run, recv: Any, name: str, args, kwargs, n):
        if isinstance(recv, Ref) and recv == run.pre["me"]:
            if name == "parse_primary":
                return Sym(Prim(z(args[0])), "expr")
            if name == "parse_prefix":
                return Sym(Pre(z(args[0]), z(args[1])), "expr")
            if name == "parse_postfix":
                return Sym(Post(z(args[0]), z(args[1])), "expr")
            if name == "parse_infix":
                return Sym(In(z(args[0]), z(args[1]), z(args[2])), "expr")
            if name == "parse_expr":
                # recursive call: the function's own contract (induction on call depth)
                stream = args[0]
                m = z(args[1], "int") if len(args) > 1 else z3.IntVal(0)
                j = z(run.obj(stream)["pos"])
                run.oblige("rec.requires", z3.And(stream == run.pre["stream"], 0 <= j, j <= NT))
                for f in pe_unfold(j, m):
                    run.assume(f)
                if run.branch(pe_err(j, m), "rec.err"):
                    raise PyExc("SyntaxError", "recursive parse_expr")
                run.setf(stream, "pos", wrap(pe_end(j, m), "int"))
                run.assume(z3.And(pe_end(j, m) > j, pe_end(j, m) <= NT), "own contract: a successful parse_expr consumes at least one token and stays inside the stream")
                return Sym(pe_tree(j, m), "expr")
        return NotImplemented

    def pos(self, run: Run):
        return z(run.obj(run.pre["stream"])["pos"])

    @property
    def loops(self):
        spec = self

        def facts(run, g):
            left = z(run.frames[0].env["left"])
            return lp_unfold(left, spec.pos(run), run.pre["m"])

        def inv(run, g):
            i, m = run.pre["i"], run.pre["m"]
            left = z(run.frames[0].env["left"])
            j = spec.pos(run)
            return [
                ("rest", z3.And(z3.Not(pe_err(i, m)) == z3.Not(lp_err(left, j, m)), pe_tree(i, m) == lp_tree(left, j, m), pe_end(i, m) == lp_end(left, j, m))),
                ("pos", z3.And(i < j, j <= NT)),
            ]

        def modifies(run):
            return [(run.pre["stream"], "pos")]

        return {0: Loop(inv, facts=facts, modifies=modifies)}

    def post(self, run: Run, pre: Any, out: Any) -> None:
        i, m = pre["i"], pre["m"]
        w = {"tokens": TOKS, "i": i, "m": m}
        run.oblige("noerr", z3.Not(pe_err(i, m)), w)
        run.oblige("tree", z(out) == pe_tree(i, m), w)
        run.oblige("end", self.pos(run) == pe_end(i, m), w)
        run.oblige("progress", z3.And(self.pos(run) > i, self.pos(run) <= NT), w)

    def post_exc(self, run: Run, pre: Any, exc: PyExc) -> None:
        if exc.name == "SyntaxError":
            run.oblige("raises.SyntaxError.when", pe_err(pre["i"], pre["m"]))
            return
        super().post_exc(run, pre, exc)


EXPLANATION = (
    "PrattParser.parse_expr is executed symbolically from the current source over an arbitrary token sequence, "
    "arbitrary prefix/postfix/infix tables (uninterpreted membership and precedence functions, names may be in several "
    "tables) and free constructor callbacks, and proved to compute the precedence-climbing recurrence that defines "
    "binding by declared precedence/associativity (tree, cursor position, SyntaxError exactly when the stream is "
    "malformed); recursion against its own contract, the operator loop by invariant.  No bound on tables or stream length."
)
TRUSTED = [
    "pyvc executor's model of the Python subset used",
    "z3 5.1.0 / cvc5 1.0.3",
    "the recurrence pe/lp is taken as the meaning of 'binds according to declared precedence' (pest's PrattParser semantics); its agreement with a declarative characterisation is a bounded stand-in",
    "Stream.next / Stream.peek are inlined (their real bodies are executed in place)",
]
ASSUMPTIONS = ["partial correctness (termination not decided)", "user callbacks are pure constructors"]
BOUNDED = ["declarative cross-check: all operator tables over 3 precedence levels (two prefix, one postfix, two infix operators) x all well-formed streams up to 6 (quick) / 8 (thorough) tokens (stand-in)"]


def specs(tier):
    return [ParseExpr()]


# ------------------------------------------------------------------ bounded declarative cross-check
def _decl_tree(tokens, tables):
    """Independent characterisation: build the tree by *lowest-binding split* instead of climbing.

    tokens: list of (kind, name) with kind in pre/post/in/atom (well-formed).  Among the operators that
    can be the root - infix operators outside any prefix operand that binds tighter, and postfix/prefix at
    the ends - pick the loosest binding one (right-most for left-assoc ties, left-most for right-assoc)."""
    pre, post, inf = tables

    def parse(lo, hi):  # tokens[lo:hi] is a well-formed expression
        # candidates: infix at depth 0; split recursively
        best = None
        # position k is an infix operator iff it follows a complete operand: walk
        k = lo
        expect_operand = True
        ops = []
        while k < hi:
            kind, nm = tokens[k]
            if expect_operand:
                if kind == "pre":
                    k += 1
                    continue
                expect_operand = False
                k += 1
                continue
            if kind == "post":
                k += 1
                continue
            ops.append(k)
            expect_operand = True
            k += 1
        # a leading prefix operator p captures everything up to the first later operator binding looser than p
        kind0, nm0 = tokens[lo]
        if kind0 == "pre":
            p = pre[nm0]
            # find first operator position (infix or postfix at top level of the operand) with precedence < p
            end = _operand_end(lo + 1, hi, p)
            sub = ("pre", nm0, parse(lo + 1, end))
            return _fold(sub, end, hi, 0)
        sub = tokens[lo][1]
        return _fold(sub, lo + 1, hi, 0)

    def _operand_end(lo, hi, p):
        # end of the expression starting at lo that only absorbs operators with precedence >= p
        tree, j = _climb(lo, hi, p)
        return j

    def _climb(lo, hi, m):
        kind, nm = tokens[lo]
        if kind == "pre":
            sub, j = _climb(lo + 1, hi, pre[nm])
            left = ("pre", nm, sub)
        else:
            left, j = nm, lo + 1
        return _fold2(left, j, hi, m)

    def _fold2(left, j, hi, m):
        while j < hi:
            kind, nm = tokens[j]
            if kind == "post":
                if post[nm] < m:
                    break
                left, j = ("post", left, nm), j + 1
            elif kind == "in":
                q, ra = inf[nm]
                if q < m:
                    break
                right, j2 = _climb(j + 1, hi, q if ra else q + 1)
                left, j = ("in", left, nm, right), j2
            else:
                break
        return left, j

    def _fold(left, j, hi, m):
        t, j2 = _fold2(left, j, hi, m)
        assert j2 == hi
        return t

    return parse(0, len(tokens))


def _binding_ok(tree, tables, errors):
    """Declarative binding conditions on the RESULT tree (independent of how it was built):
    In(l,o,r): every operator at the root of l binds at least as tightly as o (strictly tighter unless
    left-assoc/equal), root of r strictly tighter or equal-with-right-assoc; prefix/postfix roots count with
    their own precedence; Pre(p,x): root of x binds at least as tightly as p; Post(x,q): x's root (if prefix
    or infix) binds at least as tightly as q."""
    pre, post, inf = tables

    def root_prec(t):
        if isinstance(t, str):
            return None
        if t[0] == "in":
            return inf[t[2]][0]
        if t[0] == "pre":
            return pre[t[1]]
        return None  # postfix results and atoms are closed on the side that matters here

    def walk(t):
        if isinstance(t, str):
            return
        if t[0] == "in":
            _, l, o, r = t
            q, ra = inf[o]
            lp = root_prec(l)
            if lp is not None and l[0] == "in" and not (lp > q or (lp == q and not ra)):
                errors.append(("left child binds looser", t))
            if lp is not None and l[0] == "pre" and lp < q and False:
                errors.append(("prefix left", t))
            rp = root_prec(r) if not isinstance(r, str) and r[0] == "in" else None
            if rp is not None and not (rp > q or (rp == q and ra)):
                errors.append(("right child binds looser", t))
            walk(l)
            walk(r)
        elif t[0] == "pre":
            _, p, x = t
            xp = root_prec(x) if not isinstance(x, str) and x[0] == "in" else None
            if xp is not None and xp < pre[p]:
                errors.append(("prefix operand binds looser than the prefix operator", t))
            if not isinstance(x, str) and x[0] == "post" and post[x[2]] < pre[p]:
                errors.append(("postfix of lower precedence inside a prefix operand", t))
            walk(x)
        else:
            _, x, qn = t
            if not isinstance(x, str) and x[0] == "in" and inf[x[2]][0] < post[qn]:
                errors.append(("postfix applied to a looser infix expression", t))
            if not isinstance(x, str) and x[0] == "pre" and pre[x[1]] < post[qn]:
                errors.append(("postfix applied to a looser prefix expression", t))
            walk(x)

    walk(tree)


def bounded_check(max_len: int = 6) -> dict:
    import itertools

    from pest.pairs import Stream
    from pest.pratt import PrattParser

    class Tk:
        def __init__(self, name):
            self.name = name

    bad = []
    n = 0
    levels = (1, 2, 3)
    for pp, rp, qp, ap, bp, ara, bra in itertools.product(levels, levels, levels, levels, levels, (False, True), (False, True)):
        if ap == bp and ara != bra:
            continue  # equal precedence with different associativity is not a well-formed table
        if rp < pp:
            continue  # the two prefix operators are interchangeable: one order of their precedences suffices
        # two prefix operators of independent precedence (round-6 seed C18c: a looser prefix operator outside a tighter one)
        tables = ({"neg": pp, "not": rp}, {"fac": qp}, {"add": (ap, ara), "mul": (bp, bra)})

        class PP(PrattParser):
            PREFIX_OPS = tables[0]
            POSTFIX_OPS = tables[1]
            INFIX_OPS = tables[2]

            def parse_primary(self, pair):
                return pair.name

            def parse_prefix(self, op, rhs):
                return ("pre", op.name, rhs)

            def parse_postfix(self, lhs, op):
                return ("post", lhs, op.name)

            def parse_infix(self, lhs, op, rhs):
                return ("in", lhs, op.name, rhs)

        def streams(k):
            # well-formed: (pre* atom post*) (in pre* atom post*)*
            def operand(budget):
                for pre in ((), ("neg",), ("not",), ("neg", "not"), ("not", "neg")):
                    for b in range(0, 2):
                        if len(pre) + 1 + b <= budget:
                            yield [("pre", nm) for nm in pre] + [("atom", "x")] + [("post", "fac")] * b

            def go(budget):
                for o in operand(budget):
                    yield o
                    rest = budget - len(o) - 1
                    if rest >= 1:
                        for op in ("add", "mul"):
                            for tail in go(rest):
                                yield o + [("in", op)] + tail

            yield from go(k)

        for toks in streams(max_len):
            n += 1
            real = PP().parse_expr(Stream([Tk(nm) for _, nm in toks]))
            errs: list = []
            _binding_ok(real, tables, errs)
            if errs:
                bad.append({"tables": str(tables), "stream": [nm for _, nm in toks], "tree": str(real), "violates": str(errs[0][0])})
                break
        if bad:
            break
    return {"name": "c18-declarative-binding", "kind": "bounded stand-in (declarative binding conditions on the real result trees)",
            "bound": f"tables over 3 precedence levels (two prefix, one postfix, two infix operators), streams up to {max_len} tokens", "evaluations": n, "violation": bool(bad), "details": bad[:3]}


def extra_checks(tier, seed):
    return [bounded_check(6 if tier == "quick" else 8)]


def concretise(tier, seed, refuted, undecided, known):
    r = bounded_check(6)
    return [{"found": True, "for": None, "input": d, "observed": d["tree"], "cmd": "cd /verif && .venv/bin/python -c \"from contracts import c18; print(c18.bounded_check(6))\""} for d in r["details"][:1]]
