"""C14 - Position / Span / Pair line-column utilities agree with the text.

Spec (from the property, declarative):   for a text T with '\\n' line breaks and 0 <= p <= |T|
    cnt(p)    = number of '\\n' in T[:p]           lastnl(p) = index of the last '\\n' in T[:p], or -1
    nextnl(p) = index of the first '\\n' at or after p, or |T|-1 if none
    line_col  = (1 + cnt(p), p - lastnl(p))
    line_of   = T[lastnl(p)+1 : nextnl(p)+1]        (the line containing p, with its terminator)
    lines()   = the lines with index cnt(start) .. cnt(end-1) (cnt(start) for an empty span) that exist
cnt / lastnl are recursive definitions, unfolded where needed.  `str.splitlines(keepends=True)` is a
trusted library contract (BRIDGE below), validated by an exhaustive bounded run-time comparison.
"""
from __future__ import annotations

from typing import Any

import z3

from pyvc.driver import FunctionSpec
from pyvc.engine import Run
from pyvc.values import Ref, SeqV, Sym, wrap, z

PROPERTY = "C14"
POSITION = "pest.pairs.Position"
SPAN = "pest.pairs.Span"
PAIR = "pest.pairs.Pair"

T = z3.Const("T", z3.StringSort())
LNS = z3.Const("lines_of_T", z3.SeqSort(z3.StringSort()))
NL = z3.StringVal("\n")
off = z3.Function("line_offset", z3.IntSort(), z3.IntSort())  # offset of the start of line i of T
cnt = z3.Function("cnt_nl", z3.IntSort(), z3.IntSort())
lastnl = z3.Function("last_nl", z3.IntSort(), z3.IntSort())
nextnl = z3.Function("next_nl", z3.IntSort(), z3.IntSort())
N = z3.Length(LNS)


def split_facts(i) -> list[z3.BoolRef]:
    """BRIDGE (trusted): what T.splitlines(keepends=True) returns when '\\n' is the only line separator,
    instantiated at line index i."""
    ln = LNS[i]
    return [
        off(0) == 0,
        off(N) == z3.Length(T),
        N >= 0,
        (N == 0) == (z3.Length(T) == 0),
        z3.Implies(N > 0, z3.SuffixOf(NL, LNS[N - 1]) == z3.SuffixOf(NL, T)),
        z3.Implies(
            z3.And(0 <= i, i < N),
            z3.And(
                off(i + 1) == off(i) + z3.Length(ln),
                z3.Length(ln) >= 1,
                ln == z3.SubString(T, off(i), z3.Length(ln)),
                z3.Implies(i < N - 1, z3.SuffixOf(NL, ln)),
                off(i) >= 0,
            ),
        ),
    ]


def bridge_in_line(i, p) -> z3.BoolRef:
    """BRIDGE (trusted): a position inside line i has i line breaks before it, the last of them just before
    the line's first character, and the next line break is the line's terminator."""
    return z3.Implies(
        z3.And(0 <= i, i < N, off(i) <= p, p < off(i + 1)),
        z3.And(cnt(p) == i, lastnl(p) == off(i) - 1, nextnl(p) == off(i + 1) - 1),
    )


def bridge_at_end(p) -> z3.BoolRef:
    term = z3.Or(N == 0, z3.SuffixOf(NL, T))
    return z3.Implies(
        p == z3.Length(T),
        z3.If(term, z3.And(cnt(p) == N, lastnl(p) == p - 1), z3.And(cnt(p) == N - 1, lastnl(p) == off(N - 1) - 1, nextnl(p) == p - 1)),
    )


def cnt_unfold(q) -> list[z3.BoolRef]:
    """definitions: cnt(0)=0, lastnl(0)=-1, cnt(q+1) = cnt(q) + [T[q]='\\n'], lastnl(q+1) = T[q]='\\n' ? q : lastnl(q)"""
    is_nl = z3.SubString(T, q, 1) == NL
    return [
        cnt(0) == 0,
        lastnl(0) == -1,
        z3.Implies(z3.And(0 <= q, q < z3.Length(T)), z3.And(cnt(q + 1) == cnt(q) + z3.If(is_nl, 1, 0), lastnl(q + 1) == z3.If(is_nl, q, lastnl(q)))),
        z3.Implies(q >= 0, z3.And(cnt(q) >= 0, lastnl(q) >= -1, lastnl(q) < z3.If(q > 0, q, 0))),
    ]


class TextSpec(FunctionSpec):
    """hooks: T.splitlines(keepends=True) is the abstract line list; NamedTuple constructors."""

    def str_method(self, run: Run, s: Any, name: str, args, kwargs, n):
        if name == "splitlines" and isinstance(s, Sym) and s.t.eq(T):
            keep = kwargs.get("keepends", args[0] if args else False)
            if keep is not True:
                return NotImplemented
            for f in split_facts(z3.IntVal(0)):
                run.assume(f, "str.splitlines(keepends=True) contract for '\\n'-separated text")
            return SeqV(LNS, "str")
        return NotImplemented

    @property
    def constructors(self):
        def mk_position(run: Run, args, kwargs):
            return run.heap.alloc(POSITION, {"text": args[0], "pos": args[1]})

        def mk_span(run: Run, args, kwargs):
            return run.heap.alloc(SPAN, {"text": args[0], "start": args[1], "end": args[2]})

        return {POSITION: mk_position, SPAN: mk_span}

    def mk_position(self, run: Run, name: str = "p"):
        p = run.fresh(name, "int")
        run.assume(z3.And(0 <= p.t, p.t <= z3.Length(T)))
        return run.heap.alloc(POSITION, {"text": Sym(T, "str"), "pos": p}, fresh=False), p.t


def s_line_col(run: Run, recv: Ref, args, kwargs):
    """call-site contract of Position.line_col (proved by LineCol below)"""
    o = run.obj(recv)
    p = z(o["pos"])
    run.oblige("line_col.requires", z3.And(o["text"].t.eq(T) if isinstance(o["text"], Sym) else False, 0 <= p, p <= z3.Length(T)))
    for f in cnt_unfold(p):
        run.assume(f)  # definitional facts about cnt / lastnl at p
    return (wrap(1 + cnt(p), "int"), wrap(p - lastnl(p), "int"))


rstrip_fn = z3.Function("py_rstrip", z3.StringSort(), z3.StringSort())


def s_error_context(run: Run, recv, args, kwargs):
    """call-site contract of pest.exceptions.error_context (proved in C13): (rstrip(line of p), 1 + cnt(p), p - lastnl(p)),
    and ("", N + 1, 1) on a new empty line at the end.  rstrip is opaque: only |rstrip(x)| <= |x| and prefix-ness are known."""
    text, p = args[0], z(args[1], "int")
    run.oblige("error_context.requires", z3.And(z3.BoolVal(isinstance(text, Sym) and text.t.eq(T)), 0 <= p, p <= z3.Length(T)))
    for f in [*cnt_unfold(p), *split_facts(cnt(p)), bridge_in_line(cnt(p), p), bridge_at_end(p)]:
        run.assume(f)
    run.assume(z3.Implies(p < z3.Length(T), z3.And(0 <= cnt(p), cnt(p) < N, off(cnt(p)) <= p, p < off(cnt(p) + 1))), "BRIDGE: p < |T| lies in line cnt(p)")
    term = z3.Or(N == 0, z3.SuffixOf(NL, T))
    at_new = z3.And(p == z3.Length(T), term)
    ln = LNS[cnt(p)]
    r = rstrip_fn(ln)
    run.assume(z3.And(z3.PrefixOf(r, ln), z3.Length(r) <= z3.Length(ln)), "str.rstrip returns a prefix")
    return (Sym(z3.If(at_new, z3.StringVal(""), r), "str"), wrap(1 + cnt(p), "int"), wrap(p - lastnl(p), "int"))


COMMON_SUMMARIES = {"pest.exceptions.error_context": s_error_context}


class LineCol(TextSpec):
    target = f"{POSITION}.line_col"
    summaries = COMMON_SUMMARIES

    def setup(self, run: Run):
        me, p = self.mk_position(run)
        run.pre = {"p": p}
        return me, [], {}

    @property
    def loops(self):
        def facts(run, g):
            i = z(run.loop_idx)
            return [*split_facts(i), bridge_in_line(i, run.pre["p"])]

        def inv(run, g):
            env = run.frames[0].env
            i = z(run.loop_idx)
            return [
                ("cum", z(env["cumulative_length"]) == off(i)),
                ("notfound", z(env["target_line_index"]) == -1),
                ("before", off(i) <= run.pre["p"]),
            ]

        from .ops import Loop

        return {0: Loop(inv, facts=facts, modifies=lambda run: [])}

    def post(self, run: Run, pre: Any, out: Any) -> None:
        p = pre["p"]
        for f in [*split_facts(N - 1), bridge_at_end(p)]:
            run.assume(f)
        ok = isinstance(out, tuple) and len(out) == 2
        run.oblige("result.is_pair", ok)
        if ok:
            run.oblige("result.line", z(out[0]) == 1 + cnt(p), {"T": T, "p": p, "line": out[0], "lines": LNS})
            run.oblige("result.col", z(out[1]) == p - lastnl(p), {"T": T, "p": p, "col": out[1], "lines": LNS})


class LineOf(TextSpec):
    target = f"{POSITION}.line_of"
    summaries = {f"{POSITION}.line_col": s_line_col, **COMMON_SUMMARIES}

    def setup(self, run: Run):
        me, p = self.mk_position(run)
        run.pre = {"p": p}
        return me, [], {}

    def post(self, run: Run, pre: Any, out: Any) -> None:
        p = pre["p"]
        i = cnt(p)
        for f in [*split_facts(i), *split_facts(N - 1), bridge_in_line(i, p), bridge_at_end(p), *cnt_unfold(p)]:
            run.assume(f)
        # every position is inside some line or at the end (instance of the BRIDGE for the line cnt(p))
        run.assume(z3.Implies(p < z3.Length(T), z3.And(0 <= i, i < N, off(i) <= p, p < off(i + 1))), "BRIDGE: p < |T| lies in line cnt(p)")
        term = z3.Or(N == 0, z3.SuffixOf(NL, T))
        want = z3.If(z3.And(p == z3.Length(T), term), z3.StringVal(""), z3.SubString(T, lastnl(p) + 1, nextnl(p) - lastnl(p)))
        run.oblige("result", z(out, "str") == want, {"T": T, "p": p, "out": out, "lines": LNS})


class SpanLines(TextSpec):
    target = f"{SPAN}.lines"
    summaries = {f"{POSITION}.line_col": s_line_col}
    inline = (f"{SPAN}.start_pos", f"{SPAN}.end_pos")

    def setup(self, run: Run):
        s, e = run.fresh("s", "int"), run.fresh("e", "int")
        run.assume(z3.And(0 <= s.t, s.t <= e.t, e.t <= z3.Length(T)))
        me = run.heap.alloc(SPAN, {"text": Sym(T, "str"), "start": s, "end": e}, fresh=False)
        run.pre = {"s": s.t, "e": e.t}
        return me, [], {}

    def post(self, run: Run, pre: Any, out: Any) -> None:
        s, e = pre["s"], pre["e"]
        for f in [*cnt_unfold(e - 1), *cnt_unfold(s), *cnt_unfold(e)]:
            run.assume(f)
        hi = z3.If(e > s, cnt(e - 1), cnt(s))  # index of the last line touched
        lo = cnt(s)
        t, _ = run.as_seq(out, None, "str")
        # Python slice semantics: clipped to the lines that exist
        lo_c = z3.If(lo > N, N, lo)
        hi_c = z3.If(hi + 1 > N, N, hi + 1)
        want = z3.SubSeq(LNS, lo_c, z3.If(hi_c - lo_c < 0, 0, hi_c - lo_c))
        run.oblige("result", t == want, {"T": T, "s": s, "e": e})


class SpanStr(TextSpec):
    target = f"{SPAN}.__str__"

    def setup(self, run: Run):
        s, e = run.fresh("s", "int"), run.fresh("e", "int")
        run.assume(z3.And(0 <= s.t, s.t <= e.t, e.t <= z3.Length(T)))
        me = run.heap.alloc(SPAN, {"text": Sym(T, "str"), "start": s, "end": e}, fresh=False)
        run.pre = {"s": s.t, "e": e.t, "me": me}
        return me, [], {}

    def post(self, run: Run, pre: Any, out: Any) -> None:
        run.oblige("result", z(out, "str") == z3.SubString(T, pre["s"], pre["e"] - pre["s"]))


class SpanAsStr(SpanStr):
    target = f"{SPAN}.as_str"
    inline = (f"{SPAN}.__str__",)

    def call_builtin(self, run: Run, name: str, args, kwargs, n):
        if name == "str" and args and isinstance(args[0], Ref) and run.cls_of(args[0]) == SPAN:
            return run.call_method(args[0], "__str__", [], {}, n)
        return NotImplemented


class SpanPos(SpanStr):
    """start_pos / end_pos / split return Positions over the same text at start / end."""

    def __init__(self, which: str):
        self.which = which
        self.target = f"{SPAN}.{which}"
        self.inline = (f"{SPAN}.start_pos", f"{SPAN}.end_pos")

    def post(self, run: Run, pre: Any, out: Any) -> None:
        def is_pos(v, at):
            if not (isinstance(v, Ref) and run.cls_of(v) == POSITION):
                return z3.BoolVal(False)
            o = run.obj(v)
            same_text = isinstance(o["text"], Sym) and o["text"].t.eq(T)
            return z3.And(z3.BoolVal(bool(same_text)), z(o["pos"]) == at)

        if self.which == "start_pos":
            run.oblige("result", is_pos(out, pre["s"]))
        elif self.which == "end_pos":
            run.oblige("result", is_pos(out, pre["e"]))
        else:
            ok = isinstance(out, tuple) and len(out) == 2
            run.oblige("result", z3.And(is_pos(out[0], pre["s"]), is_pos(out[1], pre["e"])) if ok else False)


class PairSpan(TextSpec):
    """Pair.span() is Span(input, start, end); Pair.line_col() is the line/column of its start."""

    def __init__(self, which: str):
        self.which = which
        self.target = f"{PAIR}.{which}"
        self.inline = (f"{PAIR}.span", f"{SPAN}.start_pos")
        self.summaries = {f"{POSITION}.line_col": s_line_col}

    def setup(self, run: Run):
        s, e = run.fresh("s", "int"), run.fresh("e", "int")
        run.assume(z3.And(0 <= s.t, s.t <= e.t, e.t <= z3.Length(T)))
        me = run.heap.alloc(PAIR, {"input": Sym(T, "str"), "start": s, "end": e}, fresh=False)
        run.pre = {"s": s.t, "e": e.t}
        return me, [], {}

    def post(self, run: Run, pre: Any, out: Any) -> None:
        if self.which == "span":
            ok = isinstance(out, Ref) and run.cls_of(out) == SPAN
            run.oblige("result.is_span", ok)
            if ok:
                o = run.obj(out)
                run.oblige("result", z3.And(z3.BoolVal(isinstance(o["text"], Sym) and o["text"].t.eq(T)), z(o["start"]) == pre["s"], z(o["end"]) == pre["e"]))
        else:
            ok = isinstance(out, tuple) and len(out) == 2
            run.oblige("result", z3.And(z(out[0]) == 1 + cnt(pre["s"]), z(out[1]) == pre["s"] - lastnl(pre["s"])) if ok else False)


EXPLANATION = (
    "Position.line_col / line_of, Span.lines / __str__ / as_str / start_pos / end_pos / split and Pair.span / line_col "
    "are executed symbolically from the current source for an arbitrary text T and arbitrary offsets 0 <= p <= |T| and "
    "proved against the declarative line/column Spec of the property (1 + number of line breaks before p; distance from "
    "the last line break), with the splitlines scan by loop invariant.  No bound on text length or offsets."
)
TRUSTED = [
    "pyvc executor's model of the Python subset used",
    "z3 5.1.0 / cvc5 1.0.3",
    "BRIDGE: contract of str.splitlines(keepends=True) for texts whose only line separator is '\\n' (contracts/c14.py split_facts, bridge_in_line, bridge_at_end): lines are non-empty, concatenate to the text, all but possibly the last end with '\\n'; a position inside line i has exactly i line breaks before it. Validated on every run by exhaustive comparison over {a, b, \\n}^<=7 (bounded).",
]
ASSUMPTIONS = ["text uses '\\n' line breaks only (property precondition)", "0 <= offset <= len(text)"]
BOUNDED = ["validation of the splitlines BRIDGE and an end-to-end comparison of the real functions with the Spec: all texts over {a,b,\\n} up to length 7 x all offsets (stand-in, never counted as proved)"]


def specs(tier):
    return [LineCol(), LineOf(), SpanLines(), SpanStr(), SpanAsStr(), SpanPos("start_pos"), SpanPos("end_pos"), SpanPos("split"), PairSpan("span"), PairSpan("line_col")]


def _spec_py(text: str, p: int):
    before = text[:p]
    return 1 + before.count("\n"), p - before.rfind("\n")


def bounded_check(max_len: int = 7, alphabet: str = "ab\n") -> dict:
    import itertools

    from pest.pairs import Position, Span

    bad = []
    n = 0
    for ln in range(max_len + 1):
        for tup in itertools.product(alphabet, repeat=ln):
            text = "".join(tup)
            lines = text.splitlines(keepends=True)
            # BRIDGE validation
            if "".join(lines) != text or any(not x for x in lines) or any(not x.endswith("\n") for x in lines[:-1]) or any("\n" in x[:-1] for x in lines):
                bad.append({"what": "splitlines bridge", "text": text})
            for p in range(ln + 1):
                n += 1
                try:
                    got = Position(text, p).line_col()
                    lo = Position(text, p).line_of()
                except Exception as e:  # noqa: BLE001
                    bad.append({"what": f"raised {type(e).__name__}", "text": text, "p": p})
                    continue
                if got != _spec_py(text, p):
                    bad.append({"what": "line_col", "text": text, "p": p, "got": got, "want": _spec_py(text, p)})
                start = text.rfind("\n", 0, p) + 1
                nxt = text.find("\n", p)
                want_line = text[start : (len(text) if nxt == -1 else nxt + 1)]
                if lo != want_line:
                    bad.append({"what": "line_of", "text": text, "p": p, "got": lo, "want": want_line})
                if len(bad) > 5:
                    break
            if ln <= 5:
                for s in range(ln + 1):
                    for e in range(s, ln + 1):
                        n += 1
                        sp = Span(text, s, e)
                        first = text[:s].count("\n")
                        last = text[: (e - 1 if e > s else s)].count("\n")
                        want = lines[first : last + 1]
                        try:
                            got_lines, got_str = sp.lines(), str(sp)
                        except Exception as ex:  # noqa: BLE001
                            bad.append({"what": f"Span.lines/str raised {type(ex).__name__}", "text": text, "s": s, "e": e})
                            continue
                        if got_lines != want or got_str != text[s:e]:
                            bad.append({"what": "Span.lines/str", "text": text, "s": s, "e": e, "got": got_lines, "want": want})
            if len(bad) > 5:
                break
    return {"name": "c14-exhaustive-small", "kind": "bounded stand-in + BRIDGE validation (exhaustive)", "bound": f"texts over {{a,b,\\n}} up to length {max_len}, all offsets",
            "evaluations": n, "violation": bool(bad), "details": bad[:5]}


def extra_checks(tier, seed):
    a = bounded_check(7 if tier == "quick" else 9)
    b = bounded_check(6 if tier == "quick" else 7, "a \t\n")
    b["name"] += "-blanks"
    return [a, b]


def concretise(tier, seed, refuted, undecided, known):
    r = bounded_check(6)
    if not r["details"]:
        r = bounded_check(6, "a \t\n")
    out = []
    for d in r["details"][:1]:
        out.append({"found": True, "for": None, "input": d, "observed": d.get("got"),
                    "cmd": f"/venv/bin/python -c \"from pest.pairs import Position, Span; print(Position({d.get('text')!r}, {d.get('p', 0)}).line_col())\""})
    return out
