"""C08 - meaning-preserving grammar rewrites leave every parse result unchanged.

(1) Spec-level rewrite lemmas, generic in the sub-expressions (oracles) and for all parser states, discharged by z3
    over the same K clauses the real code is proved against (C01/C03/C04/C05):
       (a~b)~c == a~(b~c) == a~b~c          (trivia positions coincide)          exact, incl. failure bookkeeping
       (a|b)|c == a|(b|c) == a|b|c                                                  exact
       s = _{ e } :  s == e ;   (e|e) == e ;   ((e ~ NEVER)|e) == e ;   ((!e ~ NEVER)|e) == e
    the last four up to <ok, pos, stack, atomic depth, pairs> ("same parse result"), under the NON-INTERFERENCE
    hypothesis NI: a sub-expression's <ok, pos, stack, atom, pairs> do not depend on <rule stack, neg depth,
    suppress flag, furthest position, failure labels> - those values flow only into the failure bookkeeping
    (AST audit, obligation `ni.readers`) - and under `tags = []` (none of the nine bundled grammars uses node tags:
    scanned on every run).  (e) == e is the Group contract itself (K_Group = K_child, proved in C03/C01).
(2) syntactic-context audit: code on the parse path that inspects the *shape* of a sub-expression (isinstance on
    self.expression) would break "redundant parentheses"/"extract into a rule"; the sites are enumerated and must be
    exactly the two known ones (NegativePredicate's label choice - labels only - and Rule's atomic-children test -
    the open finding F8).
(3) bounded differential stand-in on the nine bundled grammars: every rewrite kind applied at sampled sites of the
    real expression trees, corpus and mutated inputs, four modes.
"""
from __future__ import annotations

import ast
import os
import random
import re
from pathlib import Path
from typing import Any

import z3

from pyvc.driver import FunctionSpec
from pyvc.engine import Run

from . import groups, ops
from .ops import C, EMPTY_P, TV
from .pstate import LS, fail_effect, lget, lset, r_name, restored

PROPERTY = "C08"


# ------------------------------------------------------------------ Spec-level K-term constructors
def child(i):
    return lambda L: (C[0](i, L), C[1](i, L), C[2](i, L))  # noqa: N803


def tv(L):  # noqa: N803
    return TV[1](0, L), TV[2](0, L)


def seq(*es):
    def k(L):  # noqa: N803
        ok, st, prs = z3.BoolVal(True), L, EMPTY_P
        for i, e in enumerate(es):
            o, s2, p2 = e(st)
            new_ok = z3.And(ok, o)
            # state: once failed, the state stays where the failing element left it
            if i < len(es) - 1:
                t_st, t_p = tv(s2)
                nxt_st, nxt_p = t_st, z3.Concat(prs, p2, t_p)
            else:
                nxt_st, nxt_p = s2, z3.Concat(prs, p2)
            st2 = z3.If(ok, z3.If(o, nxt_st, s2), st)
            prs = z3.If(new_ok, nxt_p, prs)
            st, ok = st2, new_ok
        return ok, st, z3.If(ok, prs, EMPTY_P)

    return k


def choice(*es):
    def k(L):  # noqa: N803
        done, st, prs = z3.BoolVal(False), L, EMPTY_P
        cur = L
        for e in es:
            o, s2, p2 = e(cur)
            take = z3.And(z3.Not(done), o)
            st = z3.If(take, s2, st)
            prs = z3.If(take, p2, prs)
            nxt = restored(cur, s2)
            cur = z3.If(done, cur, z3.If(o, cur, nxt))
            done = z3.Or(done, o)
        return done, z3.If(done, st, cur), z3.If(done, prs, EMPTY_P)

    return k


def never(L):  # noqa: N803
    """a literal that cannot occur in the input: always fails (recording the failure)"""
    return z3.BoolVal(False), fail_effect(L, z3.StringVal('"NEVER"')), EMPTY_P


def negpred(e):
    def k(L):  # noqa: N803
        Lin = lset(L, neg=lget(L, "neg") + 1)  # noqa: N806
        o, s2, _ = e(Lin)
        Lr = restored(L, s2)  # noqa: N806
        Lf = fail_effect(Lr, z3.StringVal("<label>"), None, force=True)  # noqa: N806
        L2 = z3.If(o, Lf, Lr)  # noqa: N806
        return z3.Not(o), lset(L2, neg=lget(L2, "neg") - 1), EMPTY_P

    return k


RID = z3.Const("new_silent_rule", LS.accessor(0, 2).range().basis())


def silent_rule(e):
    def k(L):  # noqa: N803
        Lp = lset(L, rstk=z3.Concat(lget(L, "rstk"), z3.Unit(RID)))  # noqa: N806
        o, s2, p2 = e(Lp)
        return o, lset(s2, rstk=lget(L, "rstk"), atom=lget(L, "atom")), p2

    return k


CORE = ("pos", "stk", "atom", "tags")


def same_result(r1, r2) -> z3.BoolRef:
    """same parse result: same outcome, and on success the same position, stack, atomic depth, tag stack and pairs"""
    o1, s1, p1 = r1
    o2, s2, p2 = r2
    return z3.And(o1 == o2, z3.Implies(o1, z3.And(*[lget(s1, f) == lget(s2, f) for f in CORE], p1 == p2)))


def exact(r1, r2) -> z3.BoolRef:
    o1, s1, p1 = r1
    o2, s2, p2 = r2
    return z3.And(o1 == o2, s1 == s2, z3.Implies(o1, p1 == p2))


def tv_tagfree(Ls) -> z3.BoolRef:  # noqa: N803
    """implicit trivia of a tag-free grammar leaves an empty tag stack empty"""
    return z3.Implies(z3.Length(lget(Ls, "tags")) == 0, z3.Length(lget(tv(Ls)[0], "tags")) == 0)


def ni(i, La, Lb) -> z3.BoolRef:  # noqa: N803
    """NON-INTERFERENCE instance for child i at the two states La, Lb (and tag-freedom: tags stay empty)"""
    same_core = z3.And(*[lget(La, f) == lget(Lb, f) for f in CORE])
    ra, rb = child(i)(La), child(i)(Lb)
    return z3.And(
        z3.Implies(same_core, z3.And(ra[0] == rb[0], z3.Implies(ra[0], z3.And(*[lget(ra[1], f) == lget(rb[1], f) for f in CORE], ra[2] == rb[2])))),
        z3.Implies(z3.Length(lget(La, "tags")) == 0, z3.Length(lget(ra[1], "tags")) == 0),
        z3.Implies(z3.Length(lget(Lb, "tags")) == 0, z3.Length(lget(rb[1], "tags")) == 0),
        # G: neg / atom / rstk come back
        lget(ra[1], "neg") == lget(La, "neg"), lget(rb[1], "neg") == lget(Lb, "neg"),
    )


class RewriteLemmas(FunctionSpec):
    target = "pest.grammar.expressions.choice.Choice.parse"
    label = "C08.rewrite_lemmas"

    def source(self, engine):
        return engine.program.funcs[self.target]

    def direct(self, run: Run) -> None:
        L = z3.Const("L_entry", LS)  # noqa: N806
        a, b, c, e = child(0), child(1), child(2), child(3)
        # --- re-association: exact
        run.oblige("seq.assoc.left", exact(seq(seq(a, b), c)(L), seq(a, b, c)(L)))
        run.oblige("seq.assoc.right", exact(seq(a, seq(b, c))(L), seq(a, b, c)(L)))
        run.oblige("choice.assoc.left", exact(choice(choice(a, b), c)(L), choice(a, b, c)(L)))
        run.oblige("choice.assoc.right", exact(choice(a, choice(b, c))(L), choice(a, b, c)(L)))
        run.oblige("seq.singleton", exact(seq(a)(L), a(L)))
        run.oblige("choice.singleton.ok", same_result(choice(a)(L), a(L)))
        # --- the NI-dependent rewrites, under tags = []
        notag = z3.Length(lget(L, "tags")) == 0
        base = e(L)
        L_fail = restored(L, base[1])  # state handed to the second alternative after e failed  # noqa: N806
        # (e | e) == e
        hyp = z3.And(notag, ni(3, L, L_fail))
        run.oblige("dup_choice", z3.Implies(hyp, same_result(choice(e, e)(L), base)))
        # ((e ~ NEVER) | e) == e : after e matched, trivia, NEVER fails, restore -> e again from a state with the same core
        t_st, _ = tv(base[1])
        after_never = restored(L, fail_effect(t_st, z3.StringVal('"NEVER"')))
        hyp2 = z3.And(notag, ni(3, L, L_fail), ni(3, L, after_never), ni(3, L, z3.If(base[0], after_never, L_fail)), tv_tagfree(base[1]))
        run.oblige("seq_never_choice", z3.Implies(hyp2, same_result(choice(seq(e, never), e)(L), base)))
        # ((!e ~ NEVER) | e) == e
        Lin = lset(L, neg=lget(L, "neg") + 1)  # noqa: N806
        r_in = e(Lin)
        np = negpred(e)(L)
        t2, _ = tv(np[1])
        after_never2 = restored(L, fail_effect(t2, z3.StringVal('"NEVER"')))
        second = z3.If(np[0], after_never2, restored(L, np[1]))
        hyp3 = z3.And(notag, ni(3, L, Lin), ni(3, L, second), ni(3, Lin, second), tv_tagfree(np[1]))
        run.oblige("negpred_never_choice", z3.Implies(hyp3, same_result(choice(seq(negpred(e), never), e)(L), base)))
        # s = _{ e } : s == e   (the rule stack differs inside the body)
        Lp = lset(L, rstk=z3.Concat(lget(L, "rstk"), z3.Unit(RID)))  # noqa: N806
        hyp4 = z3.And(notag, ni(3, L, Lp), lget(e(Lp)[1], "atom") == lget(Lp, "atom"))
        run.oblige("extract_silent_rule", z3.Implies(hyp4, same_result(silent_rule(e)(L), base)))
        # vacuity guards: the hypotheses are satisfiable
        for nm, h in (("dup_choice", hyp), ("seq_never_choice", hyp2), ("negpred_never_choice", hyp3), ("extract_silent_rule", hyp4)):
            s = z3.Solver()
            s.set("timeout", 20000)
            s.add(h)
            res = s.check()
            # only a definite `unsat` is a vacuous lemma; `unknown` is recorded, not failed
            run.oblige(f"{nm}.hypotheses_not_contradictory", res != z3.unsat, note=str(res))


def _src_root() -> Path:
    return Path(os.environ.get("PYVC_REPO", "/repo")) / "src" / "pest"


def _repo_root() -> Path:
    return Path(os.environ.get("PYVC_REPO", "/repo"))


BUNDLED = ["tests/grammars/json.pest", "tests/grammars/toml.pest", "tests/grammars/sql.pest", "tests/grammars/http.pest", "examples/jsonpath/jsonpath.pest",
           "examples/calculator/calculator.pest", "tests/grammars/lists.pest", "examples/ini/ini.pest", "examples/csv/csv.pest"]


class Audits(FunctionSpec):
    target = "pest.state.ParserState.fail"
    label = "C08.audits"

    def source(self, engine):
        return engine.program.funcs[self.target]

    def direct(self, run: Run) -> None:
        # (i) NI: who READS the bookkeeping fields?  only fail() / the managers that set them / Rule push-pop / rendering
        readers: dict[str, set[str]] = {}
        fields = ("furthest_pos", "furthest_expected", "furthest_unexpected", "furthest_stack", "_suppress_failures", "neg_pred_depth", "rule_stack")
        for path in _src_root().rglob("*.py"):
            tree = ast.parse(path.read_text())
            for cls in [n for n in ast.walk(tree) if isinstance(n, ast.ClassDef)]:
                for fn in [f for f in cls.body if isinstance(f, ast.FunctionDef)]:
                    text = ast.get_source_segment(path.read_text(), fn) or ""
                    for f in fields:
                        if re.search(rf"\.{f}\b", text):
                            readers.setdefault(f, set()).add(f"{cls.name}.{fn.name}")
        allowed = {
            "furthest_pos": {"ParserState.__init__", "ParserState.fail", "PestParsingError.detailed_message"},
            "furthest_expected": {"ParserState.__init__", "ParserState.fail", "PestParsingError.__init__", "PestParsingError.detailed_message"},
            "furthest_unexpected": {"ParserState.__init__", "ParserState.fail", "PestParsingError.__init__", "PestParsingError.detailed_message"},
            "furthest_stack": {"ParserState.__init__", "ParserState.fail", "PestParsingError.detailed_message"},
            "_suppress_failures": {"ParserState.__init__", "ParserState.fail", "ParserState.suppress_failures"},
            "neg_pred_depth": {"ParserState.__init__", "ParserState.fail", "NegativePredicate.parse", "NegativePredicate.generate"},
            "rule_stack": {"ParserState.__init__", "ParserState.fail", "ParserState.checkpoint", "ParserState.ok", "ParserState.restore", "Rule.parse", "Rule.generate"},
        }
        bad = {f: sorted(r - allowed[f]) for f, r in readers.items() if r - allowed[f]}
        run.oblige("ni.readers", not bad, note=str(bad))
        # NegativePredicate only +=/-= the depth: it never branches on it
        np_src = (_src_root() / "grammar" / "expressions" / "prefix.py").read_text()
        run.oblige("ni.neg_depth_not_branched_on", not re.search(r"if[^\n]*neg_pred_depth", np_src))
        # (ii) code on the parse path that inspects the SHAPE of a sub-expression
        sites = []
        for path in (_src_root() / "grammar").rglob("*.py"):
            if "optimizer" in str(path) or "codegen" in str(path) or path.name in ("parser.py", "scanner.py"):
                continue
            tree = ast.parse(path.read_text())
            for cls in [n for n in ast.walk(tree) if isinstance(n, ast.ClassDef)]:
                for fn in [f for f in cls.body if isinstance(f, ast.FunctionDef) and f.name in ("parse", "generate")]:
                    for nd in ast.walk(fn):
                        if isinstance(nd, ast.Call) and isinstance(nd.func, ast.Name) and nd.func.id == "isinstance" and nd.args:
                            a0 = ast.unparse(nd.args[0])
                            if a0.startswith("self.expression") or a0.startswith("expr") or a0.startswith("child"):
                                sites.append(f"{cls.name}.{fn.name}: isinstance({a0}, {ast.unparse(nd.args[1])})")
        known = {
            "NegativePredicate.parse: isinstance(self.expression, Identifier)", "NegativePredicate.parse: isinstance(self.expression, Rule)",
            "NegativePredicate.generate: isinstance(self.expression, Identifier)", "NegativePredicate.generate: isinstance(self.expression, Rule)",
            "Rule.parse: isinstance(self.expression, Rule)", "Rule.parse: isinstance(self.expression, Identifier)",
            "Rule.generate: isinstance(self.expression, Rule)", "Rule.generate: isinstance(self.expression, Identifier)",
        }
        run.oblige("shape_inspection_sites", set(sites) <= known, note=str(sorted(set(sites) - known)))
        # (iii) the nine bundled grammars: present, accepted, and tag-free
        missing, tagged = [], []
        from pest import Parser

        for rel in BUNDLED:
            p = _repo_root() / rel
            if not p.exists():
                missing.append(rel)
                continue
            text = p.read_text()
            try:
                parser = Parser.from_grammar(text, optimizer=None)
            except Exception as ex:  # noqa: BLE001
                missing.append(f"{rel}: {type(ex).__name__}")
                continue

            def walk(x):
                if getattr(x, "tag", None):
                    tagged.append(rel)
                for ch in x.children():
                    walk(ch)

            for r in parser.rules.values():
                if type(r).__name__ == "GrammarRule":
                    walk(r.expression)
        run.oblige("bundled.present", not missing, note=str(missing))
        run.oblige("bundled.tag_free", not tagged, note=str(sorted(set(tagged))))


# ------------------------------------------------------------------ bounded differential on the bundled grammars
NEVER = "\u0001NEVER\u0001"


def _rewrites(gx):
    S = gx.String  # noqa: N806
    return {
        "parens": lambda e, ctx: gx.Group(e),
        "dup_choice": lambda e, ctx: gx.Group(gx.Choice(e, e)),
        "seq_never": lambda e, ctx: gx.Group(gx.Choice(gx.Group(gx.Sequence(e, S(NEVER))), e)),
        "negpred_never": lambda e, ctx: gx.Group(gx.Choice(gx.Group(gx.Sequence(gx.NegativePredicate(e), S(NEVER))), e)),
        "extract_silent": lambda e, ctx: ctx["new_rule"](e),
        "reassoc": lambda e, ctx: ctx["reassoc"](e),
    }


_NESTED = [("dup_choice", "seq_never"), ("dup_choice", "negpred_never"), ("seq_never", "seq_never"), ("seq_never", "negpred_never"),
           ("extract_silent", "seq_never"), ("dup_choice", "dup_choice")]
_STACK_OPS = ("Push", "PushLiteral", "Pop", "PopAll", "Drop", "Peek", "PeekAll", "PeekSlice")


def _all_rewrites(gx):
    """the six rewrites plus compositions of two of them at the same site (inner first)"""
    base = _rewrites(gx)
    out = dict(base)
    for a, b in _NESTED:
        out[f"nested:{a}>{b}"] = (lambda fa, fb: lambda e, ctx: fb(fa(e, ctx), ctx))(base[a], base[b])
    return out


def _corpus(rel: str) -> list[tuple[str, str]]:
    root = _repo_root()
    out: list[tuple[str, str]] = []

    def rd(p):
        return (root / p).read_text() if (root / p).exists() else None

    if "json.pest" in rel:
        t = rd("tests/examples/example.json")
        out += [("json", x) for x in ['{"a": [1, 2.5e3, true, null, "x\\n"]}', "[]", '{"a":{"b":[]}}', '[1, 2', '{"a" 1}', t[:400] if t else "{}"]]
    elif "toml" in rel:
        t = rd("tests/examples/example.toml")
        out += [("toml", x) for x in ['a = 1\n', 'a = "x"\n[t]\nb = [1, 2]\n', "a = \n", t[:300] if t else "a = 1\n"]]
    elif "sql" in rel:
        out += [("sql_query", x) for x in ["SELECT a FROM b", "select a, b from t where a = 1", "SELECT FROM", "INSERT INTO t VALUES (1)"]]
    elif "http" in rel:
        t = rd("tests/examples/example.http")
        out += [("http", x) for x in ["GET / HTTP/1.1\r\nHost: x\r\n\r\n", "GET /\r\n", t[:200] if t else "GET / HTTP/1.1\r\n\r\n"]]
    elif "jsonpath" in rel:
        out += [("jsonpath", x) for x in ["$.a.b[0]", "$..a[?@.b > 1]", "$[", "$.a[1:2]", "$['a','b']"]]
    elif "calculator" in rel:
        out += [("program", x) for x in ["1 + 2 * 3", "-(3!) ^ 2", "1 +", "x * (y + 1)"]]
    elif "lists" in rel:
        out += [("lists", x) for x in ["- a\n- b\n  - c\n- d", "- a\n   - b", "a"]]
    elif "ini" in rel:
        t = rd("examples/ini/example.ini")
        out += [("file", x) for x in ["a=1\n[s]\nb=2\n", "[s\n", t[:200] if t else "a=1\n"]]
    elif "csv" in rel:
        t = rd("examples/csv/example.csv")
        out += [("file", x) for x in ["1,2\n3,4\n", "1,,2\n", t[:200] if t else "1\n"]]
    return out


def differential(tier: str, seed: int) -> dict:
    from pest import Parser
    from pest.grammar.rule import GrammarRule

    from replay.diff4 import _cache  # noqa: F401
    from replay.refpeg import tagged_tree_of

    from .templates import _gx

    gx = _gx()
    rnd = random.Random(seed + 8)
    per_kind = 2 if tier == "quick" else 8
    bad: list[dict[str, Any]] = []
    n = 0

    def observe(parser, gen_parse, rule, text):
        from pest.exceptions import PestParsingError

        out = []
        for f in (parser.parse, gen_parse):
            try:
                out.append(("ok", tagged_tree_of(f(rule, text))))
            except PestParsingError:
                out.append(("fail",))
            except RecursionError:
                out.append(("recursion",))
            except Exception as ex:  # noqa: BLE001
                out.append(("raised", type(ex).__name__))
        return out

    for rel in BUNDLED:
        path = _repo_root() / rel
        if not path.exists():
            continue
        text = path.read_text()
        corpus = _corpus(rel)
        if not corpus:
            continue
        base_p = Parser.from_grammar(text, optimizer=None)
        start_rules = {r for r, _ in corpus}
        if not start_rules <= set(base_p.rules):
            corpus = [(next(iter(k for k, v in base_p.rules.items() if type(v).__name__ == "GrammarRule")), t) for _, t in corpus]
        ns0: dict[str, Any] = {}
        exec(compile(base_p.generate(), "<g>", "exec"), ns0)  # noqa: S102
        expected = {(r, t): observe(base_p, ns0["parse"], r, t) for r, t in corpus}
        uses_stack = any(k in text for k in ("PUSH", "POP", "DROP", "PEEK"))
        for kind in _all_rewrites(gx):
            nested = kind.startswith("nested:")
            if nested and not uses_stack and tier == "quick":
                continue
            # nested rewrites of a stack-using grammar: every site whose subtree touches the user stack
            rounds = per_kind if not (nested and uses_stack) else 64
            for round_no in range(rounds):
                for opt in (False, True):
                    parser = Parser.from_grammar(text, optimizer=None)
                    user_rules = [k for k, v in parser.rules.items() if type(v).__name__ == "GrammarRule"]
                    sites: list[tuple[str, list[int]]] = []

                    def collect(e, rname, pathx):
                        sites.append((rname, pathx))
                        for i, ch in enumerate(e.children()):
                            if type(ch).__name__.endswith("Rule") or type(ch).__name__ in ("Any", "SOI", "EOI"):
                                continue
                            collect(ch, rname, [*pathx, i])

                    for rn in user_rules:
                        collect(parser.rules[rn].expression, rn, [])
                    if kind == "reassoc":
                        def nary(e):
                            return type(e).__name__ in ("Sequence", "Choice") and len(e.expressions) >= 3

                        cand = []
                        for rn, px in sites:
                            e = parser.rules[rn].expression
                            for i in px:
                                e = e.children()[i]
                            if nary(e):
                                cand.append((rn, px))
                        if not cand:
                            continue
                        rn, px = rnd.choice(cand)
                    elif nested and uses_stack:
                        def touches(e):
                            return type(e).__name__ in _STACK_OPS or any(touches(c) for c in e.children() if not type(c).__name__.endswith("Rule"))

                        cand = []
                        for rn, px in sites:
                            e = parser.rules[rn].expression
                            for i in px:
                                e = e.children()[i]
                            if touches(e):
                                cand.append((rn, px))
                        if round_no >= len(cand):
                            break
                        rn, px = cand[round_no]
                    else:
                        rn, px = rnd.choice(sites)
                    counter = [0]

                    def new_rule(e):
                        counter[0] += 1
                        nm = f"verif_extracted_{counter[0]}"
                        parser.rules[nm] = GrammarRule(nm, e, 2)
                        return gx.Identifier(nm)

                    def reassoc(e):
                        xs = e.expressions
                        k2 = rnd.randint(1, len(xs) - 1)
                        cls = type(e)
                        left = xs[:k2] if k2 > 1 else xs[:1]
                        parts = [gx.Group(cls(*xs[:k2])) if k2 > 1 else xs[0], *xs[k2:]] if rnd.random() < 0.5 else [*xs[:k2], gx.Group(cls(*xs[k2:])) if len(xs) - k2 > 1 else xs[k2]]
                        return cls(*parts)

                    ctx = {"new_rule": new_rule, "reassoc": reassoc}
                    fn = _all_rewrites(gx)[kind]

                    def rebuild(e, pathx):
                        if not pathx:
                            return fn(e, ctx)
                        kids = list(e.children())
                        kids[pathx[0]] = rebuild(kids[pathx[0]], pathx[1:])
                        return e.with_children(kids)

                    try:
                        parser.rules[rn].expression = rebuild(parser.rules[rn].expression, px)
                    except Exception:  # noqa: BLE001
                        continue  # a site the tree API cannot rebuild (terminal wrappers)
                    if opt:
                        from pest.grammar.optimizer import DEFAULT_OPTIMIZER

                        DEFAULT_OPTIMIZER.optimize(parser.rules)
                        base_o = Parser.from_grammar(text)
                        ns1: dict[str, Any] = {}
                        exec(compile(base_o.generate(), "<g>", "exec"), ns1)  # noqa: S102
                        want = {(r, t): observe(base_o, ns1["parse"], r, t) for r, t in corpus}
                    else:
                        want = expected
                    try:
                        ns: dict[str, Any] = {}
                        exec(compile(parser.generate(), "<g>", "exec"), ns)  # noqa: S102
                    except Exception as ex:  # noqa: BLE001
                        bad.append({"grammar": rel, "rewrite": kind, "rule": rn, "site": px, "what": f"generate/compile raised {type(ex).__name__}: {ex}"[:160]})
                        continue
                    for (r, t) in corpus:
                        n += 1
                        got = observe(parser, ns["parse"], r, t)
                        if got != want[(r, t)]:
                            bad.append({"grammar": rel, "rewrite": kind, "rule": rn, "site": px, "optimized": opt, "start": r, "text": t[:60], "want": str(want[(r, t)])[:150], "got": str(got)[:150]})
                            break
                if len(bad) > 3:
                    break
            if len(bad) > 3:
                break
    return {"name": "c08-differential", "kind": "bounded stand-in (six rewrite kinds at sampled sites of the nine bundled grammars; interpreter and generated code, optimizer on/off)",
            "evaluations": n, "bound": f"{per_kind} sampled sites per rewrite kind and grammar, corpus + malformed inputs", "violation": bool(bad), "details": bad[:3]}


EXPLANATION = (
    "Spec-level rewrite lemmas over the K clauses the real code is proved against: re-association of sequences and of "
    "choices is proved EXACT (including failure bookkeeping) for arbitrary sub-expressions and states; extraction into a "
    "silent rule, (e|e), ((e ~ NEVER)|e) and ((!e ~ NEVER)|e) are proved to give the same parse result under the "
    "non-interference hypothesis (the bookkeeping fields are read only by fail() - AST audit obligation) and tags = [] "
    "(the nine bundled grammars are scanned to be tag-free). Redundant parentheses are the Group contract (K_Group = "
    "K_child). Shape-inspection sites on the parse path are enumerated and must be the two known ones. The refinement of "
    "the clauses by the real code is C01/C03/C04/C05 (Sequence, Choice, Group, predicates, Rule re-proved here)."
)
TRUSTED = [
    *groups.COMMON_TRUSTED,
    "non-interference of <rule stack, neg depth, suppress flag, furthest position, labels> with <ok, pos, stack, atom, pairs>: hypothesis of the lemmas, justified by the reader audit (obligation ni.readers) - not a relational proof of the code",
    "compositionality (meta-argument): a rewrite at any nesting preserves the whole result because K of a compound depends on its children only through their oracles, except at the audited shape-inspection sites",
]
ASSUMPTIONS = [*groups.COMMON_ASSUMPTIONS, "grammars without node tags (true of the nine bundled grammars; checked on every run)", "NEVER does not occur in the input"]
BOUNDED = ["differential stand-in on the bundled grammars: sampled sites (2 per rewrite kind and grammar in quick, 8 in thorough), 3-6 inputs each; compositions of two rewrites at every user-stack-touching site of the stack-using grammar (lists)",
           "c08-small-sites: every rewrite kind at EVERY site of six small trivia grammars, all inputs to length 4, four modes"]


def specs(tier):
    from . import templates as t

    from . import c09

    code = [*[c() for c in c09.SPECS], ops.SequenceSpec(), ops.ChoiceSpec(), ops.GroupSpec(), ops.NegPredSpec(), ops.PosPredSpec(), ops.IdentifierSpec(), ops.RuleSpec(2), ops.RuleSpec(0),
            *[x for x in t.combinator_templates(3) if any(k in x.label for k in ("Sequence", "Choice", "Group", "Predicate"))], *t.identifier_templates()[:1], t.RuleTemplate(2)]
    return [RewriteLemmas(), Audits(), *code]


SMALL_SITES = [
    # small grammars with implicit trivia where the rewritten site is the LAST item of its rule / sequence, a whole rule body,
    # or sits before a repetition - the places where a shape-inspecting pass that treats `e ~ x | e` like `e ~ x?` shows
    # (round-6 seed C08c: a choice "factorizer" added to the default passes)
    'WHITESPACE = _{ " " }\nb = { "x" ~ "y"? }\na = { b ~ "z"? }',
    'WHITESPACE = _{ " " }\nb = { "x" }\na = { b ~ b* }',
    'WHITESPACE = _{ " " }\nCOMMENT = _{ "#" }\nb = { "x" | "y" ~ "x" }\na = { (b ~ ",")* ~ b }',
    'WHITESPACE = { " " }\nb = { "x" }\na = { "y" ~ b }',
    'WHITESPACE = _{ " " }\nb = ${ "x" ~ "y"? }\nc = @{ "x" }\na = { (b | c) ~ EOI? }',
    'b = { "x" ~ "y"? }\na = { b ~ "z"? }',
]


def small_sites(tier: str) -> dict:
    """every rewrite kind at EVERY site (rule roots included) of a few small trivia grammars, all inputs to length 4,
    optimizer off and on, interpreter and generated code - compared with the un-rewritten grammar in the same setting"""
    import itertools

    from pest import Parser
    from pest.exceptions import PestParsingError
    from pest.grammar.optimizer import DEFAULT_OPTIMIZER
    from pest.grammar.rule import GrammarRule

    from replay.refpeg import tagged_tree_of

    from .templates import _gx

    gx = _gx()
    bad: list[dict[str, Any]] = []
    n = 0
    kinds = {k: f for k, f in _all_rewrites(gx).items() if k != "reassoc" and (tier == "thorough" or not k.startswith("nested:"))}

    def observe(parser, gen_parse, text):
        out = []
        for f in (parser.parse, gen_parse):
            try:
                out.append(("ok", tagged_tree_of(f("a", text))))
            except PestParsingError:
                out.append(("fail",))
            except Exception as ex:  # noqa: BLE001
                out.append(("raised", type(ex).__name__))
        return out

    def gen_of(parser):
        ns: dict[str, Any] = {}
        exec(compile(parser.generate(), "<g>", "exec"), ns)  # noqa: S102
        return ns["parse"]

    for text in SMALL_SITES:
        alphabet = sorted({c for c in "xyz ,#" if c in text or c == " "})
        inputs = ["".join(t) for ln in range(0, 5) for t in itertools.product(alphabet, repeat=ln)]
        want = {}
        for opt in (False, True):
            base = Parser.from_grammar(text) if opt else Parser.from_grammar(text, optimizer=None)
            g0 = gen_of(base)
            want[opt] = {t: observe(base, g0, t) for t in inputs}
        probe = Parser.from_grammar(text, optimizer=None)
        sites: list[tuple[str, list[int]]] = []

        def collect(e, rname, pathx):
            sites.append((rname, pathx))
            for i, ch in enumerate(e.children()):
                if type(ch).__name__.endswith("Rule") or type(ch).__name__ in ("Any", "SOI", "EOI"):
                    continue
                collect(ch, rname, [*pathx, i])

        for rn, r in probe.rules.items():
            if type(r).__name__ == "GrammarRule" and rn not in ("WHITESPACE", "COMMENT"):
                collect(r.expression, rn, [])
        for kind, fn in kinds.items():
            for rn, px in sites:
                for opt in (False, True):
                    parser = Parser.from_grammar(text, optimizer=None)
                    counter = [0]

                    def new_rule(e):
                        counter[0] += 1
                        nm = f"verif_extracted_{counter[0]}"
                        parser.rules[nm] = GrammarRule(nm, e, 2)
                        return gx.Identifier(nm)

                    ctx = {"new_rule": new_rule, "reassoc": lambda e: e}

                    def rebuild(e, pathx):
                        if not pathx:
                            return fn(e, ctx)
                        kids = list(e.children())
                        kids[pathx[0]] = rebuild(kids[pathx[0]], pathx[1:])
                        return e.with_children(kids)

                    try:
                        parser.rules[rn].expression = rebuild(parser.rules[rn].expression, px)
                    except Exception:  # noqa: BLE001
                        continue
                    if opt:
                        DEFAULT_OPTIMIZER.optimize(parser.rules)
                    try:
                        g1 = gen_of(parser)
                    except Exception as ex:  # noqa: BLE001
                        bad.append({"grammar": text, "rewrite": kind, "rule": rn, "site": px, "what": f"generate/compile raised {type(ex).__name__}"})
                        continue
                    for t in inputs:
                        n += 1
                        got = observe(parser, g1, t)
                        if got != want[opt][t]:
                            bad.append({"grammar": text, "rewrite": kind, "rule": rn, "site": px, "optimized": opt, "text": t, "want": str(want[opt][t])[:150], "got": str(got)[:150]})
                            break
                    if len(bad) > 3:
                        break
                if len(bad) > 3:
                    break
            if len(bad) > 3:
                break
        if len(bad) > 3:
            break
    return {"name": "c08-small-sites", "kind": "bounded stand-in (every rewrite kind at every site of small trivia grammars; four modes)", "evaluations": n,
            "bound": f"{len(SMALL_SITES)} grammars x every site x {len(kinds)} rewrite kinds x all inputs to length 4 x optimizer on/off x interpreter/generated", "violation": bool(bad), "details": bad[:3]}


def extra_checks(tier, seed):
    return [differential(tier, seed), small_sites(tier)]


def concretise(tier, seed, refuted, undecided, known):
    r = differential("quick", seed)
    return [{"found": True, "for": None, "input": d, "observed": d.get("got"), "cmd": "cd /verif && .venv/bin/python -c \"from contracts import c08; print(c08.differential('quick', 0))\""} for d in r["details"][:1]]
