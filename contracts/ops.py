"""Operator contracts: each Expression subclass' real parse() against its Spec clause K.

K (DESIGN Appendix A) = pest's PEG semantics written from the property statements,
threaded through the implementation observables (tags, failure bookkeeping).
Children and trivia are oracles (contracts/pstate.py); recursive Spec functions
(choice-from-i, sequence-from-i, rep/more, ...) are uninterpreted symbols constrained
only by instances of their unfolding equations.
"""
from __future__ import annotations

from typing import Any

import z3

from pyvc.driver import FunctionSpec
from pyvc.engine import PyExc, Run
from pyvc.sorts import OptStr
from pyvc.values import Child, ChildList, Ref, Sym, wrap, z

from .pstate import (
    FIELDS,
    G_inst,
    W1,
    W2,
    W3,
    W4,
    W5,
    wf,
    INP,
    LS,
    G,
    SeqPair,
    StateModel,
    fail_effect,
    lget,
    lset,
    oracle,
    restored,
    wf_state,
)

EMPTY_P = z3.Empty(SeqPair)
C = oracle("c")
TV = oracle("tv")

X = "pest.grammar.expressions"


def ocall(fam, i, L):  # noqa: N803
    return fam[0](i, L), fam[1](i, L), fam[2](i, L)


def child_label(tag: str, idx: Any) -> z3.ExprRef:
    f = z3.Function(f"label_{tag}", z3.IntSort(), z3.StringSort())
    return f(z(idx))


class Loop:
    def __init__(self, inv, facts=None, modifies=None, ghosts=None, entry=None, back=None, merge=False, keep=()):
        self.inv = inv
        self.merge = merge  # explore what follows the loop head once for all paths into the loop (engine._loop)
        self.keep = tuple(keep)  # locals (besides self and those the loop assigns) that stay readable after a merged head
        if facts:
            self.facts = facts
        if modifies:
            self.modifies = modifies
        self.ghosts = ghosts or {}
        if entry:
            self.entry = entry
        if back:
            self.back = back


class OpSpec(StateModel, FunctionSpec):
    """Harness for `<cls>.parse(self, state, pairs)`."""

    cls = ""
    method = "parse"
    fail_care: tuple[str, ...] = tuple(FIELDS)  # components specified when the result is False
    raises: tuple[str, ...] = ()
    is_rule = False  # rules may be entered on an empty rule stack

    def __init__(self) -> None:
        self.target = f"{self.cls}.{self.method}"
        self.loops = self.mk_loops()

    def mk_loops(self) -> dict[Any, Any]:
        return {}

    # ---- termination of while loops (C07; requested by setting `termination = True` on an instance)
    termination = False

    def termination_variant(self, run: Run, lspec, g, mark):
        """variant of a while loop: the loop contract's own `variant(run, ghosts)`, by default len(input) - state.pos.
        Progress hypotheses (the property's precondition 'no repetition over an expression that can match empty', which
        includes the implicit (WHITESPACE | COMMENT)*): every child / rule oracle call made since the loop head that
        succeeded moved the position forward; plus the loop contract's own `variant_hyps(run, ghosts at head)`.
        Implicit-trivia calls carry no such hypothesis (trivia may be empty; G gives pos' >= pos)."""
        vf = getattr(lspec, "variant", None)
        v = vf(run, g) if vf is not None else z3.Length(INP) - lget(self.cur(run), "pos")
        if mark is None:
            hf = getattr(lspec, "variant_hyps", None)
            return (v, len(run.ghost.get("oracle_calls", [])), list(hf(run, g)) if hf is not None else [])
        _v0, n0, hyps = mark
        hyps = list(hyps)
        for fam, i, L in run.ghost.get("oracle_calls", [])[n0:]:  # noqa: N806
            if fam[0].name() != "tv_ok":
                hyps.append(z3.Implies(fam[0](i, L), lget(fam[1](i, L), "pos") > lget(L, "pos")))
        return v, hyps

    # ---- pre-state
    def mk_self(self, run: Run) -> Ref:
        return run.heap.alloc(self.cls, {"expression": Child(0, "c"), "tag": None}, fresh=False)

    def setup(self, run: Run):
        st = self.mk_state(run)
        L0 = self.pack(run, st)  # noqa: N806
        for f in wf_state(L0, self.is_rule):
            run.assume(f)
        P0 = run.fresh_t("P0", "seq:pair")  # noqa: N806
        pairs = run.new_list("pair", P0, fresh=False)
        me = self.mk_self(run)
        run.pre = {"st": st, "L0": L0, "P0": P0, "pairs": pairs, "snaps": self.snaps(run, st), "me": me}
        return me, [st, pairs], {}

    # ---- executor hooks
    def call_builtin(self, run: Run, name: str, args, kwargs, n):
        if name in ("str", "repr") and args and isinstance(args[0], Child):
            return Sym(child_label(args[0].tag, args[0].idx), "str")
        return NotImplemented

    def state_cells(self, run: Run) -> list[tuple[Ref, str]]:
        st = run.pre["st"]
        o = run.obj(st)
        cells = [(st, f) for f in ("pos", "neg_pred_depth", "furthest_pos", "$fi", "_suppress_failures")]
        cells += [(run.obj(o["user_stack"])["items"], "seq"), (run.obj(o["rule_stack"])["items"], "seq")]
        cells += [(o["user_stack"], "$snaps"), (o["rule_stack"], "$snaps")]
        cells += [(o["atomic_depth"], "_value"), (run.obj(o["atomic_depth"])["_checkpoints"], "seq")]
        cells += [(o["_pos_history"], "seq"), (o["tag_stack"], "seq"), (run.pre["pairs"], "seq")]
        return cells

    def local_lists(self, run: Run, *names: str) -> list[tuple[Ref, str]]:
        out = []
        for nm in names:
            v = run.frames[0].env.get(nm)
            if isinstance(v, Ref) and run.is_list(v):
                run.as_seq(v, None, "pair")
                out.append((v, "seq"))
        return out

    def frame_ok(self, run: Run) -> tuple[bool, str]:
        """C15: every heap write of this activation went to the per-parse objects (the ParserState and its
        components, the caller's pairs list) or to objects allocated by the activation itself - never to the
        expression object, the parser, the rule table or any other pre-existing object."""
        st = run.pre.get("st")
        allowed = set()
        if st is not None:
            allowed.add(st.oid)
            for v in run.obj(st).values():
                if isinstance(v, Ref):
                    allowed.add(v.oid)
                    for v2 in run.obj(v).values():
                        if isinstance(v2, Ref):
                            allowed.add(v2.oid)
        if "pairs" in run.pre:
            allowed.add(run.pre["pairs"].oid)
        for oid, f in run.all_writes:
            o = run.heap.objs.get(oid)
            if o is None or oid in allowed or o.get("$fresh"):
                continue
            return False, f"write to pre-existing object #{oid} ({o.get('$cls')}).{f}"
        return True, ""

    def snaps_same(self, run: Run) -> z3.BoolRef:
        s0, s1 = run.pre["snaps"], self.snaps(run, run.pre["st"])
        return z3.And(*[s1[k] == s0[k] for k in ("us", "rs", "ad", "ph")])

    def snaps_pushed(self, run: Run, Ls) -> z3.BoolRef:  # noqa: N803
        """exactly one checkpoint is open on top of the entry snapshot lists, and it saved Ls."""
        from pyvc.sorts import SL

        s0, s1 = run.pre["snaps"], self.snaps(run, run.pre["st"])
        return z3.And(
            s1["us"] == SL("str").cons(lget(Ls, "stk"), s0["us"]),
            s1["rs"] == SL("rule").cons(lget(Ls, "rstk"), s0["rs"]),
            s1["ad"] == z3.Concat(s0["ad"], z3.Unit(lget(Ls, "atom"))),
            s1["ph"] == z3.Concat(s0["ph"], z3.Unit(lget(Ls, "pos"))),
        )

    def cur(self, run: Run):
        return self.pack(run, run.pre["st"])

    def pairs_now(self, run: Run):
        return run.seq(run.pre["pairs"])

    def last_call(self, run: Run, fam):
        for f, _i, L in reversed(run.ghost.get("oracle_calls", [])):  # noqa: N806
            if f[0].name() == fam[0].name():
                return L
        raise KeyError("no oracle call on this path")

    def lseq(self, run: Run, name: str):
        v = run.frames[0].env.get(name)
        t, _ = run.as_seq(v, None, "pair")
        return t

    # ---- Spec
    def K(self, run: Run, L0):  # noqa: N802, N803
        """-> (ok, L1, prs).  May assume unfolding instances of recursive Spec symbols."""
        raise NotImplementedError

    def post(self, run: Run, pre: Any, out: Any) -> None:
        L0, P0 = pre["L0"], pre["P0"]  # noqa: N806
        ok, L1, prs = self.K(run, L0)  # noqa: N806
        Lc = self.cur(run)  # noqa: N806
        okc = z(out) if not isinstance(out, bool) else z3.BoolVal(out)
        w = {"pos0": lget(L0, "pos"), "pos1": lget(Lc, "pos"), "posK": lget(L1, "pos"), "okK": ok, "stk0": lget(L0, "stk"),
             "stk1": lget(Lc, "stk"), "stkK": lget(L1, "stk"), "inp": INP, "atom0": lget(L0, "atom")}
        run.oblige("K.ok", okc == ok, w)
        for f in FIELDS:
            cond = z3.BoolVal(True) if f in self.fail_care else ok
            run.oblige(f"K.st.{f}", z3.Implies(cond, lget(Lc, f) == lget(L1, f)), w)
        run.oblige("K.pairs", self.pairs_now(run) == z3.If(ok, z3.Concat(P0, prs), P0), w)
        run.oblige("frame.snaps", self.snaps_same(run), w)
        fr_ok, fr_why = self.frame_ok(run)
        run.oblige("frame.no_shared_writes", fr_ok, note=fr_why)
        for i, g in enumerate(G(L0, okc, Lc, prs)[:-1]):
            run.oblige(f"G.{i}", g, w)
        # C06: the delivered pairs are well-formed inside [pos0, pos1]
        p0, p1 = lget(L0, "pos"), lget(L1, "pos")
        run.assume(W1(p0, p1))
        for h in self.wf_hints(run, L0, ok, L1, prs):
            run.assume(h)
        run.oblige("G.wf", z3.Implies(ok, wf(prs, p0, p1)), w)

    def wf_hints(self, run: Run, L0, ok, L1, prs) -> list[z3.BoolRef]:  # noqa: N803
        """instances of the wf lemmas W1-W5 this operator's argument needs"""
        return []


# ============================================================================ postfix
class OptionalSpec(OpSpec):
    cls = f"{X}.postfix.Optional"

    def K(self, run, L0):  # noqa: N802, N803
        ok, L1, P = ocall(C, 0, L0)  # noqa: N806
        return z3.BoolVal(True), z3.If(ok, L1, restored(L0, L1)), z3.If(ok, P, EMPTY_P)


# e* : rep(L) = r = e(L); not r.ok -> <restored(L, r.st), []> ; else more(r.st) with r.prs in front
#      more(L1) = t = tv(L1); r = e(t.st); not r.ok -> <restored(L1, r.st), []>   (trivia given back)
#                 else  r.prs' = t.prs ++ r.prs ++ more(r.st).prs
more_st = z3.Function("more_st", LS, LS)
more_prs = z3.Function("more_prs", LS, SeqPair)


def more_unfold(L1):  # noqa: N803
    _, Lt, Pt = ocall(TV, 0, L1)  # noqa: N806
    ok, L2, P2 = ocall(C, 0, Lt)  # noqa: N806
    return [
        more_st(L1) == z3.If(ok, more_st(L2), restored(L1, L2)),
        more_prs(L1) == z3.If(ok, z3.Concat(Pt, P2, more_prs(L2)), EMPTY_P),
    ]


def rep(L):  # noqa: N803
    ok, L1, P1 = ocall(C, 0, L)  # noqa: N806
    return z3.If(ok, more_st(L1), restored(L, L1)), z3.If(ok, z3.Concat(P1, more_prs(L1)), EMPTY_P)


def rep_loop(spec: "OpSpec") -> Loop:
    """Invariant of the `while matched:` loop implementing e* from the state saved by the open checkpoint.

    Loop head: one checkpoint (saving La) is open and the child has just been tried from Lin
    (= Ls the first time, tv(La) afterwards).  Ls / Pp = logical state and committed pairs when the
    loop is entered (history ghosts).
    """

    def entry(run):
        run.ghost["rep_Ls"] = run.ghost["ckpt_state"]
        run.ghost["rep_Pp"] = spec.pairs_now(run)
        run.ghost["rep_snaps"] = run.ghost.get("ckpt_snaps")
        return {"first": True, "La": Sym(run.ghost["rep_Ls"], "ls"), "acc": Sym(EMPTY_P, "seq:pair")}

    def facts(run, g):
        La = z(g["La"])  # noqa: N806
        if run.loop_phase == "head":
            run.ghost["head_children"] = spec.lseq(run, "children")
        Lt = TV[1](0, La)  # noqa: N806
        Ls = run.ghost["rep_Ls"]  # noqa: N806
        Lin = z3.If(z(g["first"]), Ls, Lt)  # noqa: N806
        acc, Pt, P2, L2 = z(g["acc"]), TV[2](0, La), C[2](0, Lin), C[1](0, Lin)  # noqa: N806
        ps, pa, pt, p2 = lget(Ls, "pos"), lget(La, "pos"), lget(Lt, "pos"), lget(L2, "pos")
        hints = [
            W1(ps, ps), W1(pa, pa),
            W2(Pt, P2, pa, pt, p2),
            W2(acc, z3.Concat(Pt, P2), ps, pa, p2),
            W2(acc, P2, ps, pa, p2),
            W2(EMPTY_P, P2, ps, ps, p2),
        ]
        return [*more_unfold(La), G_inst(TV, 0, La), G_inst(C, 0, Lin), *hints]

    def inv(run, g):
        Ls, Pp = run.ghost["rep_Ls"], run.ghost["rep_Pp"]  # noqa: N806
        first, La, acc = z(g["first"]), z(g["La"]), z(g["acc"])  # noqa: N806
        Lc = spec.cur(run)  # noqa: N806
        ch = spec.lseq(run, "children")
        matched = z(run.frames[0].env["matched"])
        st0, prs0 = rep(Ls)
        _, Lt, Pt = ocall(TV, 0, La)  # noqa: N806
        Lin = z3.If(first, Ls, Lt)  # noqa: N806
        ok, L2, P2 = ocall(C, 0, Lin)  # noqa: N806
        return [
            ("snaps", spec.snaps_pushed(run, La)),
            ("pairs", spec.pairs_now(run) == z3.Concat(Pp, acc)),
            ("first", z3.Implies(first, z3.And(La == Ls, z3.Length(acc) == 0))),
            ("rep", z3.Implies(z3.Not(first), z3.And(st0 == more_st(La), prs0 == z3.Concat(acc, more_prs(La))))),
            ("tried", z3.And(matched == ok, Lc == L2, ch == z3.Concat(z3.If(first, EMPTY_P, Pt), z3.If(ok, P2, EMPTY_P)))),
            ("wf", z3.And(*wf_state(La), *G(Ls, z3.BoolVal(True), La, EMPTY_P)[:6])),
            ("wf.acc", wf(acc, lget(Ls, "pos"), lget(La, "pos"))),
        ]

    def back(run, g):
        return {
            "first": False,
            "La": Sym(run.ghost["ckpt_state"], "ls"),
            "acc": Sym(z3.Concat(z(g["acc"]), run.ghost["head_children"]), "seq:pair"),
        }

    def modifies(run):
        return spec.state_cells(run) + spec.local_lists(run, "children")

    def variant(run, g):
        # the state saved by the open checkpoint moves forward with every committed item
        return z3.Length(INP) - lget(z(g["La"]), "pos")

    def variant_hyps(run, g):
        # the body runs only when the child matched from Lin: that match consumed input (property precondition)
        La, Ls = z(g["La"]), run.ghost["rep_Ls"]  # noqa: N806
        Lin = z3.If(z(g["first"]), Ls, TV[1](0, La))  # noqa: N806
        ok, L2, _ = ocall(C, 0, Lin)  # noqa: N806
        return [z3.Implies(ok, lget(L2, "pos") > lget(Lin, "pos"))]

    lp = Loop(inv, facts=facts, modifies=modifies, ghosts={"first": "bool", "La": "ls", "acc": "seq:pair"}, entry=entry, back=back)
    lp.variant, lp.variant_hyps = variant, variant_hyps
    return lp


class RepeatSpec(OpSpec):
    cls = f"{X}.postfix.Repeat"

    def K(self, run, L0):  # noqa: N802, N803
        st, prs = rep(L0)
        return z3.BoolVal(True), st, prs

    def mk_loops(self):
        return {0: rep_loop(self)}


class RepeatOnceSpec(OpSpec):
    """e+  ==  e ~ e*  (property C03/C04: bounded repetitions behave, and place trivia, as their
    unrolled sequences): first e, implicit trivia (kept: e* follows), then e*."""

    cls = f"{X}.postfix.RepeatOnce"

    def K(self, run, L0):  # noqa: N802, N803
        ok, L1, P1 = ocall(C, 0, L0)  # noqa: N806
        _, Lt, Pt = ocall(TV, 0, L1)  # noqa: N806
        st, prs = rep(Lt)
        return ok, z3.If(ok, st, restored(L0, L1)), z3.Concat(P1, Pt, prs)

    def wf_hints(self, run, L0, ok, L1, prs):  # noqa: N803
        _, La, P1 = ocall(C, 0, L0)  # noqa: N806
        _, Lt, Pt = ocall(TV, 0, La)  # noqa: N806
        _, rprs = rep(Lt)
        p0, pa, pt, pf = lget(L0, "pos"), lget(La, "pos"), lget(Lt, "pos"), lget(L1, "pos")
        return [W2(P1, Pt, p0, pa, pt), W2(z3.Concat(P1, Pt), rprs, p0, pt, pf), W1(pt, pt)]

    def mk_loops(self):
        return {0: rep_loop(self)}


# ============================================================================ helpers
def self_label(run: Run) -> z3.ExprRef:
    """str(self) of the expression under verification: an opaque label (same constant the
    executor produces for str(<object without a __str__ contract>))."""
    if "label" in run.pre:
        return z3.StringVal(run.pre["label"])  # templates: str(node) evaluated by the generator
    return z3.Const(f"str!obj{run.pre['me'].oid}", z3.StringSort())


def sw(v, pos):
    """Python's inp.startswith(v, pos) for 0 <= pos."""
    return z3.And(pos <= z3.Length(INP), z3.SubString(INP, pos, z3.Length(v)) == v)


def advance(L, k):  # noqa: N803
    return lset(L, pos=lget(L, "pos") + k)


class MatchV:
    """A regex match object or None: `cond` says whether it matched, `end` is match.end()."""

    def __init__(self, cond, end):
        self.cond = cond
        self.end = end


class RegexV:
    """A compiled pattern with an assumed semantics (contracts/regexsem, C12): match(inp,pos) -> MatchV."""

    def __init__(self, sem):
        self.sem = sem  # callable(inp, pos) -> (cond, end)


class TerminalSpec(OpSpec):
    """Terminals: no children; failing leaves the logical state as F(L0, label)."""

    def truth(self, run: Run, v: Any):
        if isinstance(v, MatchV):
            return v.cond
        return NotImplemented

    def call_method(self, run: Run, recv: Any, name: str, args, kwargs, n):
        if isinstance(recv, RegexV) and name == "match":
            cond, end = recv.sem(z(args[0]), z(args[1]))
            return MatchV(cond, end)
        if isinstance(recv, MatchV) and name == "end":
            return wrap(recv.end, "int")
        return super().call_method(run, recv, name, args, kwargs, n)

    def getattr(self, run: Run, base: Any, attr: str, n):
        if isinstance(base, (RegexV, MatchV)):
            from pyvc.values import BoundMethod

            return BoundMethod(base, attr)
        return NotImplemented


T = f"{X}.terminals"


class StringSpec(TerminalSpec):
    cls = f"{T}.String"

    def mk_self(self, run):
        return run.heap.alloc(self.cls, {"value": run.fresh("v", "str"), "tag": None}, fresh=False)

    def K(self, run, L0):  # noqa: N802, N803
        v = z(run.obj(run.pre["me"])["value"])
        ok = sw(v, lget(L0, "pos"))
        return ok, z3.If(ok, advance(L0, z3.Length(v)), fail_effect(L0, self_label(run))), EMPTY_P


ci_match = z3.Function("ci_match", z3.StringSort(), z3.StringSort(), z3.IntSort(), z3.BoolSort())


class CIStringSpec(TerminalSpec):
    """^"v": `ci_match(v, inp, pos)` is the assumed semantics of re.compile(re.escape(v), re.I).match
    (characterised code point by code point in C12); a match has the length of v (simple case folding)."""

    cls = f"{T}.CIString"

    def mk_self(self, run):
        v = run.fresh("v", "str")
        rx = RegexV(lambda inp, pos: (ci_match(v.t, inp, pos), pos + z3.Length(v.t)))
        p0 = z3.Int("p_any")
        # assumed of the regex engine: a match of the (escaped, case-folded) literal lies inside the input
        run.assume(z3.ForAll([p0], z3.Implies(ci_match(v.t, INP, p0), z3.And(p0 >= 0, p0 + z3.Length(v.t) <= z3.Length(INP)))), "regex: a match of re.escape(v)/re.I at p spans [p, p+len(v)] inside the input")
        return run.heap.alloc(self.cls, {"value": v, "_re": rx, "tag": None}, fresh=False)

    def K(self, run, L0):  # noqa: N802, N803
        v = z(run.obj(run.pre["me"])["value"])
        ok = ci_match(v, INP, lget(L0, "pos"))
        run.assume(z3.Implies(ok, lget(L0, "pos") + z3.Length(v) <= z3.Length(INP)), "regex: a match of re.escape(v)/re.I at p spans [p, p+len(v)] inside the input")
        return ok, z3.If(ok, advance(L0, z3.Length(v)), fail_effect(L0, self_label(run))), EMPTY_P


def in_range(a, b, pos):
    ch = z3.SubString(INP, pos, 1)
    return z3.And(pos < z3.Length(INP), a <= ch, ch <= b)


class RangeSpec(TerminalSpec):
    """'a'..'b': assumed semantics of the compiled class [a-b]: one code point c with a <= c <= b
    (the pattern text/flags actually built are checked in C12)."""

    cls = f"{T}.Range"

    def mk_self(self, run):
        a, b = run.fresh("a", "str"), run.fresh("b", "str")
        run.assume(z3.And(z3.Length(a.t) == 1, z3.Length(b.t) == 1))
        rx = RegexV(lambda inp, pos: (z3.And(pos >= 0, pos < z3.Length(inp), a.t <= z3.SubString(inp, pos, 1), z3.SubString(inp, pos, 1) <= b.t), pos + 1))
        return run.heap.alloc(self.cls, {"start": a, "stop": b, "_re": rx, "tag": None}, fresh=False)

    def K(self, run, L0):  # noqa: N802, N803
        o = run.obj(run.pre["me"])
        ok = in_range(z(o["start"]), z(o["stop"]), lget(L0, "pos"))
        return ok, z3.If(ok, advance(L0, 1), fail_effect(L0, self_label(run))), EMPTY_P


class AnySpec(TerminalSpec):
    cls = "pest.grammar.rules.special._Any"

    def mk_self(self, run):
        return run.heap.alloc(self.cls, {"tag": None}, fresh=False)

    def K(self, run, L0):  # noqa: N802, N803
        ok = lget(L0, "pos") < z3.Length(INP)
        return ok, z3.If(ok, advance(L0, 1), L0), EMPTY_P


class SOISpec(AnySpec):
    cls = "pest.grammar.rules.special._SOI"

    def K(self, run, L0):  # noqa: N802, N803
        return lget(L0, "pos") == 0, L0, EMPTY_P


class EOISpec(AnySpec):
    cls = "pest.grammar.rules.special._EOI"

    def K(self, run, L0):  # noqa: N802, N803
        return lget(L0, "pos") == z3.Length(INP), L0, EMPTY_P


# ---------------------------------------------------------------- stack terminals (C05)
def push_stk(L, s):  # noqa: N803
    return lset(L, stk=z3.Concat(lget(L, "stk"), z3.Unit(s)))


def top(L):  # noqa: N803
    s = lget(L, "stk")
    return s[z3.Length(s) - 1]


def pop_stk(L):  # noqa: N803
    s = lget(L, "stk")
    return lset(L, stk=z3.SubSeq(s, 0, z3.Length(s) - 1))


class PushLiteralSpec(StringSpec):
    cls = f"{T}.PushLiteral"

    def K(self, run, L0):  # noqa: N802, N803
        v = z(run.obj(run.pre["me"])["value"])
        return z3.BoolVal(True), push_stk(L0, v), EMPTY_P


class PushSpec(OpSpec):
    cls = f"{T}.Push"
    fail_care = ("tags", "sup", "far", "fi")  # a failing PUSH(e) is e failing; pos/stk are restored by the caller

    def K(self, run, L0):  # noqa: N802, N803
        ok, L1, P = ocall(C, 0, L0)  # noqa: N806
        pushed = z3.SubString(INP, lget(L0, "pos"), lget(L1, "pos") - lget(L0, "pos"))
        return ok, z3.If(ok, push_stk(L1, pushed), L1), P


class PeekSpec(TerminalSpec):
    cls = f"{T}.Peek"

    def mk_self(self, run):
        return run.heap.alloc(self.cls, {"tag": None}, fresh=False)

    def K(self, run, L0):  # noqa: N802, N803
        nonempty = z3.Length(lget(L0, "stk")) > 0
        t = top(L0)
        ok = z3.And(nonempty, sw(t, lget(L0, "pos")))
        return ok, z3.If(ok, advance(L0, z3.Length(t)), z3.If(nonempty, fail_effect(L0, t), L0)), EMPTY_P


class PopSpec(PeekSpec):
    cls = f"{T}.Pop"

    def K(self, run, L0):  # noqa: N802, N803
        nonempty = z3.Length(lget(L0, "stk")) > 0
        t = top(L0)
        ok = z3.And(nonempty, sw(t, lget(L0, "pos")))
        return ok, z3.If(ok, pop_stk(advance(L0, z3.Length(t))), z3.If(nonempty, fail_effect(L0, t), L0)), EMPTY_P


class DropSpec(PeekSpec):
    cls = f"{T}.Drop"

    def K(self, run, L0):  # noqa: N802, N803
        nonempty = z3.Length(lget(L0, "stk")) > 0
        return nonempty, z3.If(nonempty, pop_stk(L0), fail_effect(L0, z3.StringVal("drop from empty stack"))), EMPTY_P


# ============================================================================ prefix
class PosPredSpec(OpSpec):
    cls = f"{X}.prefix.PositivePredicate"

    def K(self, run, L0):  # noqa: N802, N803
        ok, L1, _ = ocall(C, 0, L0)  # noqa: N806
        return ok, restored(L0, L1), EMPTY_P


class NegPredSpec(OpSpec):
    """!e : succeeds iff e fails; sigma unchanged; no pairs.  When e matched, the failure is recorded
    (forced) while neg_pred_depth is still incremented."""

    cls = f"{X}.prefix.NegativePredicate"

    def K(self, run, L0):  # noqa: N802, N803
        Lin = lset(L0, neg=lget(L0, "neg") + 1)  # noqa: N806
        ok, L1, _ = ocall(C, 0, Lin)  # noqa: N806
        Lr = restored(L0, L1)  # noqa: N806
        # interpreter: str(self.expression) at run time; template: the same string computed by the generator
        lab = z3.StringVal("<child0>") if self.template_mode else child_label("c", 0)
        Lf = fail_effect(Lr, lab, None, force=True)  # noqa: N806
        L2 = z3.If(ok, Lf, Lr)  # noqa: N806
        return z3.Not(ok), lset(L2, neg=lget(L2, "neg") - 1), EMPTY_P

    def isinstance(self, run: Run, v: Any, cls: Any, n):
        if isinstance(v, Child):
            return False  # generic child: neither Identifier nor Rule (those two label choices: see NegPredIdentSpec)
        return NotImplemented


# ============================================================================ group / identifier
def with_tag(L, t):  # noqa: N803
    return lset(L, tags=z3.Concat(lget(L, "tags"), z3.Unit(t)))


def untag(L):  # noqa: N803
    tg = lget(L, "tags")
    return lset(L, tags=z3.If(z3.Length(tg) > 0, z3.SubSeq(tg, 0, z3.Length(tg) - 1), tg))


class GroupSpec(OpSpec):
    cls = f"{X}.group.Group"
    fail_care = ("tags", "sup", "far", "fi", "pos", "stk")

    def K(self, run, L0):  # noqa: N802, N803
        return ocall(C, 0, L0)


class TaggedGroupSpec(GroupSpec):
    label = f"{X}.group.Group.parse[tagged]"

    def mk_self(self, run):
        t = run.fresh("tag", "str")
        run.assume(z3.Length(t.t) > 0)
        return run.heap.alloc(self.cls, {"expression": Child(0, "c"), "tag": t}, fresh=False)

    def K(self, run, L0):  # noqa: N802, N803
        t = z(run.obj(run.pre["me"])["tag"])
        ok, L1, P = ocall(C, 0, with_tag(L0, t))  # noqa: N806
        return ok, untag(L1), P


# ============================================================================ n-ary: choice, sequence
N = z3.Int("n_children")

ch_ok = z3.Function("ch_ok", z3.IntSort(), LS, z3.BoolSort())
ch_st = z3.Function("ch_st", z3.IntSort(), LS, LS)
ch_prs = z3.Function("ch_prs", z3.IntSort(), LS, SeqPair)


def ch_unfold(i, L):  # noqa: N803
    """choice over alternatives i..n-1 tried from L (ordered, committed; a failed alternative leaves
    pos/stk/rstk/atom as they were)."""
    ok, L1, P = ocall(C, i, L)  # noqa: N806
    Lr = restored(L, L1)  # noqa: N806
    return [
        ch_ok(i, L) == z3.If(i >= N, False, z3.If(ok, True, ch_ok(i + 1, Lr))),
        ch_st(i, L) == z3.If(i >= N, L, z3.If(ok, L1, ch_st(i + 1, Lr))),
        ch_prs(i, L) == z3.If(i >= N, EMPTY_P, z3.If(ok, P, ch_prs(i + 1, Lr))),
    ]


class NarySpec(OpSpec):
    def mk_self(self, run):
        run.assume(N >= 0)
        return run.heap.alloc(self.cls, {"expressions": ChildList(N, "c"), "tag": None}, fresh=False)


class ChoiceSpec(NarySpec):
    cls = f"{X}.choice.Choice"

    def K(self, run, L0):  # noqa: N802, N803
        return ch_ok(0, L0), ch_st(0, L0), ch_prs(0, L0)

    def mk_loops(self):
        spec = self

        def facts(run, g):
            i = z(run.loop_idx)
            return ch_unfold(i, spec.cur(run))

        def inv(run, g):
            L0, P0 = run.pre["L0"], run.pre["P0"]  # noqa: N806
            i = z(run.loop_idx)
            Lc = spec.cur(run)  # noqa: N806
            return [
                ("snaps", spec.snaps_same(run)),
                ("pairs", spec.pairs_now(run) == P0),
                ("rest", z3.And(ch_ok(i, Lc) == ch_ok(0, L0), ch_st(i, Lc) == ch_st(0, L0), ch_prs(i, Lc) == ch_prs(0, L0))),
                ("wf", z3.And(*wf_state(Lc), *G(L0, z3.BoolVal(False), Lc, EMPTY_P)[:6], lget(Lc, "pos") == lget(L0, "pos"))),
            ]

        def modifies(run):
            return spec.state_cells(run)

        return {0: Loop(inv, facts=facts, modifies=modifies)}


sq_ok = z3.Function("sq_ok", z3.IntSort(), LS, z3.BoolSort())
sq_st = z3.Function("sq_st", z3.IntSort(), LS, LS)
sq_prs = z3.Function("sq_prs", z3.IntSort(), LS, SeqPair)


def sq_unfold(i, L):  # noqa: N803
    """e_i ~ ... ~ e_{n-1} from L: implicit trivia after every element that has a following element."""
    ok, L1, P = ocall(C, i, L)  # noqa: N806
    _, Lt, Pt = ocall(TV, 0, L1)  # noqa: N806
    last = i >= N - 1
    return [
        sq_ok(i, L) == z3.If(i >= N, True, z3.If(ok, z3.If(last, True, sq_ok(i + 1, Lt)), False)),
        sq_st(i, L) == z3.If(i >= N, L, z3.If(ok, z3.If(last, L1, sq_st(i + 1, Lt)), L1)),
        sq_prs(i, L) == z3.If(i >= N, EMPTY_P, z3.If(ok, z3.If(last, P, z3.Concat(P, Pt, sq_prs(i + 1, Lt))), EMPTY_P)),
    ]


class SequenceSpec(NarySpec):
    cls = f"{X}.sequence.Sequence"
    fail_care = ("tags", "sup", "far", "fi", "pos", "stk")

    def K(self, run, L0):  # noqa: N802, N803
        return sq_ok(0, L0), sq_st(0, L0), sq_prs(0, L0)

    def mk_loops(self):
        spec = self

        def facts(run, g):
            i = z(run.loop_idx)
            Lc = spec.cur(run)  # noqa: N806
            ch = spec.lseq(run, "children")
            _, L1, P = ocall(C, i, Lc)  # noqa: N806
            _, Lt, Pt = ocall(TV, 0, L1)  # noqa: N806
            p0, pc, p1, pt = lget(run.pre["L0"], "pos"), lget(Lc, "pos"), lget(L1, "pos"), lget(Lt, "pos")
            return [*sq_unfold(i, Lc), W2(ch, P, p0, pc, p1), W2(z3.Concat(ch, P), Pt, p0, p1, pt), W1(p0, p0)]

        def inv(run, g):
            L0, P0 = run.pre["L0"], run.pre["P0"]  # noqa: N806
            i = z(run.loop_idx)
            Lc = spec.cur(run)  # noqa: N806
            ch = spec.lseq(run, "children")
            return [
                ("wf.ch", wf(ch, lget(L0, "pos"), lget(Lc, "pos"))),
                ("snaps", spec.snaps_same(run)),
                ("pairs", spec.pairs_now(run) == P0),
                (
                    "rest",
                    z3.And(
                        sq_ok(i, Lc) == sq_ok(0, L0), sq_st(i, Lc) == sq_st(0, L0), z3.Concat(ch, sq_prs(i, Lc)) == sq_prs(0, L0)
                    ),
                ),
                ("wf", z3.And(*wf_state(Lc), *G(L0, z3.BoolVal(True), Lc, EMPTY_P)[:6])),
            ]

        def modifies(run):
            return spec.state_cells(run) + spec.local_lists(run, "children")

        return {0: Loop(inv, facts=facts, modifies=modifies)}


# ============================================================================ identifier / rule
from .pstate import PSTATE, mkpair, named_oracle, r_mod, r_name  # noqa: E402

R = named_oracle("rule")
RULE = "pest.grammar.rule.Rule"
SILENT, ATOMIC, COMPOUND, NONATOMIC = 2, 4, 8, 16


class RulesMixin:
    """state.parser.rules: an abstract, total rule table (the property assumes no undefined references).
    rules[name] / rules.get(name) give an abstract rule whose parse() is the named oracle R."""

    defined: dict[str, bool] = {}

    def getitem(self, run: Run, base: Any, idx: Any, n):
        if isinstance(base, tuple) and base and base[0] == "$rules":
            return Child(idx, "rule", cls="Rule")
        return NotImplemented

    def family(self, run: Run, child: Child):
        if child.tag == "rule":
            return R
        return oracle(child.tag)

    def call_method(self, run: Run, recv: Any, name: str, args, kwargs, n):
        if isinstance(recv, tuple) and recv and recv[0] == "$rules" and name == "get":
            key = args[0]
            if isinstance(key, str) and key in self.defined:
                return Child(key, "rule", cls="Rule") if self.defined[key] else None
            return Child(key, "rule", cls="Rule")
        return super().call_method(run, recv, name, args, kwargs, n)

    def getattr(self, run: Run, base: Any, attr: str, n):
        if isinstance(base, tuple) and base and base[0] == "$rules":
            from pyvc.values import BoundMethod

            return BoundMethod(base, attr)
        return super().getattr(run, base, attr, n) if hasattr(super(), "getattr") else NotImplemented


class IdentifierSpec(RulesMixin, OpSpec):
    cls = f"{T}.Identifier"
    fail_care = ("tags", "sup", "far", "fi", "pos", "stk")

    def mk_self(self, run):
        return run.heap.alloc(self.cls, {"value": run.fresh("name", "str"), "tag": None}, fresh=False)

    def K(self, run, L0):  # noqa: N802, N803
        nm = z(run.obj(run.pre["me"])["value"])
        return R[0](nm, L0), R[1](nm, L0), R[2](nm, L0)


class TaggedIdentifierSpec(IdentifierSpec):
    label = f"{T}.Identifier.parse[tagged]"

    def mk_self(self, run):
        t = run.fresh("tag", "str")
        run.assume(z3.Length(t.t) > 0)
        return run.heap.alloc(self.cls, {"value": run.fresh("name", "str"), "tag": t}, fresh=False)

    def K(self, run, L0):  # noqa: N802, N803
        o = run.obj(run.pre["me"])
        nm, t = z(o["value"]), z(o["tag"])
        Lin = with_tag(L0, t)  # noqa: N806
        return R[0](nm, Lin), untag(R[1](nm, Lin)), R[2](nm, Lin)


vis = z3.Function("visible_under_atomic", SeqPair, SeqPair)


class RuleSpec(RulesMixin, OpSpec):
    """Rule.parse for one modifier value and one name class (plain / WHITESPACE|COMMENT).

    K (DESIGN A.2): rule stack push/pop around the body; atomic depth +1 for @, $ and trivia rules,
    0 for !, unchanged otherwise, restored on every exit; silent -> body pairs unwrapped;
    otherwise exactly one pair <name, pos, pos', children, tag> with tag = top of the tag stack (popped);
    children of an @ rule = vis(body pairs): the pairs produced under a nested $ or ! rule.
    """

    cls = RULE
    fail_care = ("tags", "sup", "far", "fi", "pos", "stk")
    is_rule = True

    def __init__(self, modifier: int, trivia_name: str | None = None, kids: str = "pest"):
        self.modifier = modifier
        self.trivia_name = trivia_name
        # kids="pest": children of an @ rule per the property (C04);  kids="impl": the common behaviour of
        # Rule.parse and Rule.generate for a body that is not an identifier (hidden) - used by C01, which
        # only asks that interpreter and generated code agree
        self.kids = kids
        super().__init__()
        self.label = f"{RULE}.parse[mod={modifier}{',' + trivia_name if trivia_name else ''}{',impl' if kids == 'impl' else ''}]"

    def mk_self(self, run):
        rid = run.fresh("self_rule", "rule")
        if self.trivia_name:
            name: Any = self.trivia_name
            run.assume(r_name(rid.t) == z3.StringVal(name))
        else:
            name = run.fresh("rname", "str")
            run.assume(z3.And(name.t != z3.StringVal("COMMENT"), name.t != z3.StringVal("WHITESPACE"), r_name(rid.t) == name.t))
        run.assume(r_mod(rid.t) == self.modifier)
        return run.heap.alloc(
            self.cls,
            {"name": name, "expression": Child(0, "c"), "modifier": self.modifier, "doc": None, "tag": None, "$term": rid.t},
            fresh=False,
        )

    @property
    def constructors(self):
        def mk_pair(run: Run, args, kwargs):
            start, end = z(kwargs["start"], "int"), z(kwargs["end"], "int")
            rule = kwargs["rule"]
            rt = run.obj(rule)["$term"]
            ch = kwargs["children"]
            t, _ = run.as_seq(ch, None, "pair")
            tag = z(kwargs["tag"], "optstr")
            return Sym(mkpair(r_name(rt), start, end, t, tag), "pair")

        return {"pest.pairs.Pair": mk_pair}

    def isinstance(self, run: Run, v: Any, cls: Any, n):
        if isinstance(v, Child):
            return False  # body is neither a Rule nor an Identifier (the two syntactic special cases: finding F8)
        return NotImplemented

    def K(self, run, L0):  # noqa: N802, N803
        me = run.obj(run.pre["me"])
        rid = me["$term"]
        m = self.modifier
        Lp = lset(L0, rstk=z3.Concat(lget(L0, "rstk"), z3.Unit(rid)))  # noqa: N806
        if m & (ATOMIC | COMPOUND) or self.trivia_name:
            Lin = lset(Lp, atom=lget(L0, "atom") + 1)  # noqa: N806
        elif m & NONATOMIC:
            Lin = lset(Lp, atom=z3.IntVal(0))  # noqa: N806
        else:
            Lin = Lp  # noqa: N806
        ok, L1, P = ocall(C, 0, Lin)  # noqa: N806
        # G of the body: rule stack and atomic depth come back as given; then popped / restored
        Lo = lset(L1, rstk=lget(L0, "rstk"), atom=lget(L0, "atom"))  # noqa: N806
        if m & SILENT:
            return ok, Lo, P
        tg = lget(L1, "tags")
        has = z3.Length(tg) > 0
        tag = z3.If(has, OptStr.some_s(tg[z3.Length(tg) - 1]), OptStr.none_s)
        Lt = lset(Lo, tags=z3.If(has, z3.SubSeq(tg, 0, z3.Length(tg) - 1), tg))  # noqa: N806
        kids = (EMPTY_P if self.kids == "impl" else vis(P)) if m & ATOMIC else P
        pair = mkpair(r_name(rid), lget(L0, "pos"), lget(L1, "pos"), kids, tag)
        return ok, z3.If(ok, Lt, Lo), z3.Unit(pair)


def _rule_wf_hints(self, run, L0, ok, L1, prs):  # noqa: N803
    me = run.obj(run.pre["me"])
    rid = me["$term"]
    m = self.modifier
    Lp = lset(L0, rstk=z3.Concat(lget(L0, "rstk"), z3.Unit(rid)))  # noqa: N806
    if m & (ATOMIC | COMPOUND) or self.trivia_name:
        Lin = lset(Lp, atom=lget(L0, "atom") + 1)  # noqa: N806
    elif m & NONATOMIC:
        Lin = lset(Lp, atom=z3.IntVal(0))  # noqa: N806
    else:
        Lin = Lp  # noqa: N806
    _, Lb, P = ocall(C, 0, Lin)  # noqa: N806
    p0, p1 = lget(L0, "pos"), lget(Lb, "pos")
    tg = lget(Lb, "tags")
    tag = z3.If(z3.Length(tg) > 0, OptStr.some_s(tg[z3.Length(tg) - 1]), OptStr.none_s)
    kids = (EMPTY_P if self.kids == "impl" else vis(P)) if m & ATOMIC else P
    return [
        W4(r_name(rid), p0, p1, kids, tag, p0, p1),
        W1(p0, p1),
        # vis() selects a sub-forest (the pairs produced under nested $/! rules): it preserves well-formedness
        z3.Implies(wf(P, p0, p1), wf(vis(P), p0, p1)),
    ]


RuleSpec.wf_hints = _rule_wf_hints


def rule_specs():
    out = []
    for m in (0, SILENT, ATOMIC, COMPOUND, NONATOMIC, SILENT | ATOMIC, SILENT | COMPOUND, SILENT | NONATOMIC):
        out.append(RuleSpec(m))
    for nm in ("WHITESPACE", "COMMENT"):
        for m in (0, SILENT):
            out.append(RuleSpec(m, nm))
    return out


# ============================================================================ Parser.parse / ParserState.__init__
from pyvc.sorts import SL  # noqa: E402

from .common import new_abstract_stack, new_sint  # noqa: E402
from .pstate import START, lmk  # noqa: E402

FI0 = z3.Const("fi_init", LS.accessor(0, 8).range())


def L_init(start):  # noqa: N802
    return lmk(
        pos=start,
        stk=z3.Empty(z3.SeqSort(z3.StringSort())),
        rstk=z3.Empty(lget(z3.Const("_l", LS), "rstk").sort()),
        atom=z3.IntVal(0),
        tags=z3.Empty(z3.SeqSort(z3.StringSort())),
        neg=z3.IntVal(0),
        sup=z3.BoolVal(False),
        far=z3.IntVal(-1),
        fi=FI0,
    )


class ParserParseSpec(RulesMixin, StateModel, FunctionSpec):
    """Parser.parse(start_rule, text, start_pos): Pairs(rule(L_init).prs) or PestParsingError(state)."""

    target = "pest.parser.Parser.parse"
    raises = ("PestParsingError",)

    def setup(self, run: Run):
        me = run.heap.alloc("pest.parser.Parser", {"rules": ("$rules",), "doc": None}, fresh=False)
        name = run.fresh("start_rule", "str")
        run.assume(z3.And(0 <= START, START <= z3.Length(INP)))
        run.pre = {"me": me, "name": name.t}
        return me, [name, Sym(INP, "str")], {"start_pos": Sym(START, "int")}

    @property
    def constructors(self):
        spec = self

        def mk_state(run: Run, args, kwargs):
            st = spec.mk_state(run, "_new")
            run.heap.objs[st.oid]["$fresh"] = True
            spec.unpack(run, st, L_init(z(args[1])))
            o = run.obj(st)
            run.setf(o["user_stack"], "$snaps", SL("str").nil)
            run.setf(o["rule_stack"], "$snaps", SL("rule").nil)
            run.set_seq(run.obj(o["atomic_depth"])["_checkpoints"], z3.Empty(z3.SeqSort(z3.IntSort())))
            run.set_seq(o["_pos_history"], z3.Empty(z3.SeqSort(z3.IntSort())))
            run.setf(st, "input", args[0])
            run.pre["st"] = st
            run.pre["state_args_ok"] = z3.And(z(args[0]) == INP, z(args[1]) == START, isinstance(args[2], Ref) and args[2] == run.pre["me"])
            return st

        return {PSTATE: mk_state}

    inline = (*StateModel.inline, "pest.pairs.Pairs.__init__")

    def K(self, run):  # noqa: N802
        L0 = L_init(START)  # noqa: N806
        nm = run.pre["name"]
        return R[0](nm, L0), R[1](nm, L0), R[2](nm, L0)

    def post(self, run: Run, pre: Any, out: Any) -> None:
        ok, L1, P = self.K(run)  # noqa: N806
        run.oblige("K.ok", ok)
        run.oblige("state.args", pre["state_args_ok"])
        self._frame(run)
        good = isinstance(out, Ref) and run.cls_of(out) == "pest.pairs.Pairs"
        run.oblige("result.is_pairs", good)
        if good:
            t, _ = run.as_seq(run.obj(out)["_pairs"], None, "pair")
            run.oblige("result.pairs", t == P)

    def _frame(self, run: Run) -> None:
        bad = ""
        for oid, f in run.all_writes:
            o = run.heap.objs.get(oid)
            if o is not None and not o.get("$fresh") and not self._under_fresh_state(run, oid):
                bad = f"write to pre-existing object #{oid} ({o.get('$cls')}).{f}"
                break
        run.oblige("frame.no_shared_writes", not bad, note=bad)

    def _under_fresh_state(self, run: Run, oid: int) -> bool:
        st = run.pre.get("st")
        if st is None:
            return False
        ids = {st.oid}
        for v in run.obj(st).values():
            if isinstance(v, Ref):
                ids.add(v.oid)
                ids |= {v2.oid for v2 in run.obj(v).values() if isinstance(v2, Ref)}
        return oid in ids and oid != run.pre["me"].oid

    def post_exc(self, run: Run, pre: Any, exc: PyExc) -> None:
        if exc.name == "PestParsingError":
            ok, L1, P = self.K(run)  # noqa: N806
            run.oblige("K.fail", z3.Not(ok))
            self._frame(run)
            payload = exc.payload
            st = payload[2][0] if payload and payload[2] else None
            run.oblige("error.state", isinstance(st, Ref) and st == pre.get("st"))
            if isinstance(st, Ref):
                Lc = self.pack(run, st)  # noqa: N806
                run.oblige("error.far", lget(Lc, "far") == lget(L1, "far"))
                run.oblige("error.fi", lget(Lc, "fi") == lget(L1, "fi"))
            return
        super().post_exc(run, pre, exc)


# ============================================================================ stack loops: PEEK[a..b], PEEK_ALL, POP_ALL
SeqStrSort = z3.SeqSort(z3.StringSort())
# jn(S, k) = S[0] ++ ... ++ S[k-1]   (bottom to top);   jr(S, k) = S[n-1] ++ ... ++ S[n-k]   (top to bottom)
jn = z3.Function("join_first", SeqStrSort, z3.IntSort(), z3.StringSort())
jr = z3.Function("join_top", SeqStrSort, z3.IntSort(), z3.StringSort())


def jn_unfold(S, k) -> list[z3.BoolRef]:  # noqa: N803
    return [jn(S, 0) == z3.StringVal(""), z3.Implies(z3.And(0 <= k, k < z3.Length(S)), jn(S, k + 1) == z3.Concat(jn(S, k), S[k]))]


def jr_unfold(S, k) -> list[z3.BoolRef]:  # noqa: N803
    n = z3.Length(S)
    return [jr(S, 0) == z3.StringVal(""), z3.Implies(z3.And(0 <= k, k < n), jr(S, k + 1) == z3.Concat(jr(S, k), S[n - 1 - k]))]


SWp = z3.Function("sw_abs", z3.StringSort(), z3.IntSort(), z3.BoolSort())  # opaque twin of sw()


def swp_concat(a, b, p) -> z3.BoolRef:
    """instance of lemma.sw_concat:  sw(a ++ b, p) <=> sw(a, p) and sw(b, p + |a|)   (p >= 0)"""
    return z3.Implies(p >= 0, SWp(z3.Concat(a, b), p) == z3.And(SWp(a, p), SWp(b, p + z3.Length(a))))


class StackLoopSpec(TerminalSpec):
    """Failure: sigma unchanged except that fail(<the mismatching entry>) was recorded at the entry
    position; the label is not part of the contract (fi unspecified on failure), far is.

    String reasoning is kept out of the loop obligations: inp.startswith(v, p) is the opaque predicate
    SWp(v, p); its two algebraic laws are proved once from the definition (lemma.sw_concat, lemma.sw_empty)
    and instantiated where needed."""

    fail_care = tuple(f for f in FIELDS if f != "fi")

    def mk_self(self, run):
        return run.heap.alloc(self.cls, {"tag": None}, fresh=False)

    def setup(self, run: Run):
        r = super().setup(run)
        a, b = z3.Strings("lem_a lem_b")
        p = z3.Int("lem_p")
        run.oblige_lemma("sw_concat", z3.Implies(p >= 0, sw(z3.Concat(a, b), p) == z3.And(sw(a, p), sw(b, p + z3.Length(a)))))
        run.oblige_lemma("sw_empty", z3.Implies(p >= 0, sw(z3.StringVal(""), p) == (p <= z3.Length(INP))))
        return r

    def str_method(self, run: Run, s: Any, name: str, args, kwargs, n):
        if name == "startswith" and len(args) == 2 and isinstance(s, Sym) and s.t.eq(INP):
            v = args[0]
            if isinstance(v, Sym) and v.k == "str":
                p = z(args[1], "int")
                run.oblige("startswith.pos.nonneg", p >= 0)
                return wrap(SWp(v.t, p), "bool")
        return NotImplemented

    def word(self, run: Run, L0):  # noqa: N803
        raise NotImplementedError

    def K(self, run, L0):  # noqa: N802, N803
        w = self.word(run, L0)
        ok = SWp(w, lget(L0, "pos"))
        run.assume(z3.Implies(z3.Length(w) == 0, SWp(w, lget(L0, "pos")) == (lget(L0, "pos") <= z3.Length(INP))), "lemma.sw_empty instance")
        # G.3 needs: a successful match lies inside the input  (sw(w,p) => p + |w| <= |inp|, from the definition)
        a = z3.String("lem_a")
        q = z3.Int("lem_p")
        run.oblige_lemma("sw_inside", z3.Implies(z3.And(q >= 0, sw(a, q)), q + z3.Length(a) <= z3.Length(INP)))
        run.assume(z3.Implies(ok, lget(L0, "pos") + z3.Length(w) <= z3.Length(INP)), "lemma.sw_inside instance")
        return ok, z3.If(ok, self.success(advance(L0, z3.Length(w))), fail_effect(L0, z3.StringVal("?"))), EMPTY_P

    def success(self, L):  # noqa: N803
        return L


def prefix_lemma(J, S, k, p) -> z3.BoolRef:  # noqa: N803
    """lemma.join_prefix (induction on |S| - k from the concat law; the induction step is discharged as
    obligation lemma.join_prefix.step, the induction principle itself is a meta-argument):
        sw(J(S,|S|), p)  =>  sw(J(S,k), p)        for 0 <= k <= |S|, p >= 0"""
    return z3.Implies(z3.And(0 <= k, k <= z3.Length(S), p >= 0, SWp(J(S, z3.Length(S)), p)), SWp(J(S, k), p))


class JoinLoopSpec(StackLoopSpec):
    J = jn
    unfold = staticmethod(jn_unfold)

    def seq_of(self, run: Run, L0):  # noqa: N803
        return lget(L0, "stk")

    def word(self, run, L0):  # noqa: N803
        S = self.seq_of(run, L0)  # noqa: N806
        return self.J(S, z3.Length(S))

    def index(self, run: Run):
        return z(run.loop_idx)

    def setup(self, run: Run):
        r = super().setup(run)
        # induction step of lemma.join_prefix, from the unfolding and the concat law (all opaque symbols)
        S = z3.Const("lem_S", SeqStrSort)  # noqa: N806
        k, p = z3.Ints("lem_k lem_p")
        W = z3.String("lem_W")  # noqa: N806
        J = self.J  # noqa: N806
        x = S[k] if J is jn else S[z3.Length(S) - 1 - k]
        hyp = z3.And(0 <= k, k < z3.Length(S), p >= 0, J(S, k + 1) == z3.Concat(J(S, k), x), swp_concat(J(S, k), x, p))
        run.oblige_lemma("join_prefix.step", z3.Implies(z3.And(hyp, z3.Implies(SWp(W, p), SWp(J(S, k + 1), p))), z3.Implies(SWp(W, p), SWp(J(S, k), p))))
        return r

    def facts_at(self, run: Run, i):
        L0 = run.pre["L0"]  # noqa: N806
        S = self.seq_of(run, L0)  # noqa: N806
        p0 = lget(L0, "pos")
        J = self.J  # noqa: N806
        x = S[i] if J is jn else S[z3.Length(S) - 1 - i]
        return [
            *self.unfold(S, i),
            swp_concat(J(S, i), x, p0),
            prefix_lemma(J, S, i + 1, p0),
            z3.Implies(z3.Length(J(S, i)) == 0, SWp(J(S, i), p0) == (p0 <= z3.Length(INP))),
        ]

    pos_var = "position"  # local holding the running position ("" = state.pos itself)

    def position(self, run: Run):
        if self.pos_var:
            return z(run.frames[0].env[self.pos_var])
        return lget(self.cur(run), "pos")

    def inv_common(self, run: Run, i):
        L0 = run.pre["L0"]  # noqa: N806
        S = self.seq_of(run, L0)  # noqa: N806
        position = self.position(run)
        done = self.J(S, i)
        return ("position", z3.And(position == lget(L0, "pos") + z3.Length(done), SWp(done, lget(L0, "pos"))))

    def mk_loops(self):
        spec = self

        def facts(run, g):
            return spec.facts_at(run, spec.index(run))

        def inv(run, g):
            L0 = run.pre["L0"]  # noqa: N806
            want = L0 if spec.pos_var else lset(L0, pos=lget(spec.cur(run), "pos"))
            return [
                ("state", spec.cur(run) == want),
                ("snaps", spec.snaps_same(run)),
                ("pairs", spec.pairs_now(run) == run.pre["P0"]),
                spec.inv_common(run, spec.index(run)),
                *spec.inv_extra(run),
            ]

        def modifies(run):
            return [] if spec.pos_var else [(run.pre["st"], "pos")]

        return {0: Loop(inv, facts=facts, modifies=modifies)}

    def inv_extra(self, run: Run):
        return []


class PeekSliceSpec(JoinLoopSpec):
    cls = f"{T}.PeekSlice"

    def mk_self(self, run):
        return run.heap.alloc(self.cls, {"start": run.fresh("a", "optint"), "stop": run.fresh("b", "optint"), "tag": None}, fresh=False)

    def seq_of(self, run: Run, L0):  # noqa: N803
        o = run.obj(run.pre["me"])
        return run.slice_seq(lget(L0, "stk"), o["start"], o["stop"])


class PeekAllSpec(JoinLoopSpec):
    cls = f"{T}.PeekAll"
    J = jr
    unfold = staticmethod(jr_unfold)


class PopAllSpec(JoinLoopSpec):
    cls = f"{T}.PopAll"
    J = jr
    unfold = staticmethod(jr_unfold)

    def success(self, L):  # noqa: N803
        return lset(L, stk=z3.Empty(SeqStrSort))

    def index(self, run: Run):
        S = lget(run.pre["L0"], "stk")  # noqa: N806
        return z3.Length(S) - z3.Length(lget(self.cur(run), "stk"))

    def mk_loops(self):
        spec = self

        def facts(run, g):
            return spec.facts_at(run, spec.index(run))

        def inv(run, g):
            L0 = run.pre["L0"]  # noqa: N806
            S = lget(L0, "stk")  # noqa: N806
            n = z3.Length(S)
            Lc = spec.cur(run)  # noqa: N806
            cur_stk = lget(Lc, "stk")
            i = spec.index(run)
            return [
                ("state", z3.And(Lc == lset(L0, stk=cur_stk), i >= 0, cur_stk == z3.SubSeq(S, 0, n - i))),
                ("snaps", spec.snaps_pushed(run, L0)),
                ("pairs", spec.pairs_now(run) == run.pre["P0"]),
                spec.inv_common(run, i),
            ]

        def modifies(run):
            st = run.pre["st"]
            return [(run.obj(run.obj(st)["user_stack"])["items"], "seq")]

        lp = Loop(inv, facts=facts, modifies=modifies)
        lp.variant = lambda run, g: z3.Length(lget(spec.cur(run), "stk"))  # one entry fewer per turn
        return {0: lp}


# ============================================================================ ParserState.parse_trivia (interpreter)
tvl_st = z3.Function("tvl_st", LS, LS)
tvl_prs = z3.Function("tvl_prs", LS, SeqPair)
WS, CM, SKIP = z3.StringVal("WHITESPACE"), z3.StringVal("COMMENT"), z3.StringVal("SKIP")


def tvl_unfold(L, has_ws: bool, has_cm: bool):  # noqa: N803
    """(WHITESPACE | COMMENT)*, ordered and greedy; every attempt is all-or-nothing (DESIGN A.3)."""
    st_stop, prs_stop = L, EMPTY_P
    L_after_ws = L  # noqa: N806
    cases = []
    if has_ws:
        ok, L1, P = R[0](WS, L), R[1](WS, L), R[2](WS, L)  # noqa: N806
        cases.append((ok, L1, P))
        L_after_ws = restored(L, L1)  # noqa: N806
    if has_cm:
        ok2, L2, P2 = R[0](CM, L_after_ws), R[1](CM, L_after_ws), R[2](CM, L_after_ws)  # noqa: N806
        cases.append((ok2, L2, P2))
        st_stop = restored(L_after_ws, L2)
    else:
        st_stop = L_after_ws
    st, prs = st_stop, prs_stop
    for ok, L1, P in reversed(cases):  # noqa: N806
        st = z3.If(ok, tvl_st(L1), st)
        prs = z3.If(ok, z3.Concat(P, tvl_prs(L1)), prs)
    return [tvl_st(L) == st, tvl_prs(L) == prs]


class ParseTriviaSpec(RulesMixin, OpSpec):
    """ParserState.parse_trivia for one configuration of (SKIP?, WHITESPACE?, COMMENT?)."""

    cls = PSTATE
    method = "parse_trivia"
    trivia_oracle = False  # this *is* the function the tv oracle stands for

    def __init__(self, skip: bool, ws: bool, cm: bool):
        self.defined = {"SKIP": skip, "WHITESPACE": ws, "COMMENT": cm}
        super().__init__()
        self.label = f"{PSTATE}.parse_trivia[skip={int(skip)},ws={int(ws)},cm={int(cm)}]"

    def setup(self, run: Run):
        st = self.mk_state(run)
        L0 = self.pack(run, st)  # noqa: N806
        for f in wf_state(L0, True):
            run.assume(f)
        P0 = run.fresh_t("P0", "seq:pair")  # noqa: N806
        pairs = run.new_list("pair", P0, fresh=False)
        run.pre = {"st": st, "L0": L0, "P0": P0, "pairs": pairs, "snaps": self.snaps(run, st), "me": st}
        if self.defined["SKIP"]:
            # the fused SKIP rule is built by the optimizer as a `*` repetition: it cannot fail
            run.assume(R[0](SKIP, lset(L0, sup=z3.BoolVal(True))), "the optimizer-built SKIP rule never fails (it is a * repetition; checked in C02)")
        return st, [pairs], {}

    def K(self, run, L0):  # noqa: N802, N803
        d = self.defined
        atomic = lget(L0, "atom") > 0
        if d["SKIP"]:
            # the fused SKIP rule is implicit trivia like WHITESPACE / COMMENT: tried with failure recording suppressed
            # (C13: a synthetic rule must never be listed as expected; the pinned tree called it unsuppressed - repaired)
            Ls = lset(L0, sup=z3.BoolVal(True))  # noqa: N806
            st, prs = lset(R[1](SKIP, Ls), sup=z3.BoolVal(False)), z3.If(R[0](SKIP, Ls), R[2](SKIP, Ls), EMPTY_P)
        elif not d["WHITESPACE"] and not d["COMMENT"]:
            st, prs = L0, EMPTY_P
        else:
            L1 = lset(L0, sup=z3.BoolVal(True))  # noqa: N806
            st, prs = lset(tvl_st(L1), sup=z3.BoolVal(False)), tvl_prs(L1)
        return None, z3.If(atomic, L0, st), z3.If(atomic, EMPTY_P, prs)

    def post(self, run: Run, pre: Any, out: Any) -> None:
        L0, P0 = pre["L0"], pre["P0"]  # noqa: N806
        _, L1, prs = self.K(run, L0)  # noqa: N806
        Lc = self.cur(run)  # noqa: N806
        for f in FIELDS:
            run.oblige(f"K.st.{f}", lget(Lc, f) == lget(L1, f))
        run.oblige("K.pairs", self.pairs_now(run) == z3.Concat(P0, prs))
        run.oblige("frame.snaps", self.snaps_same(run))
        fr_ok, fr_why = self.frame_ok(run)
        run.oblige("frame.no_shared_writes", fr_ok, note=fr_why)
        for i, g in enumerate(G(L0, z3.BoolVal(True), Lc, prs)[:-1]):
            run.oblige(f"G.{i}", g)
        run.assume(W1(lget(L0, "pos"), lget(L0, "pos")))
        d = self.defined
        # C13 "the names it lists are rules of the grammar or built-ins": nothing tried as implicit trivia - WHITESPACE,
        # COMMENT or the optimizer's synthetic SKIP rule - may record an expectation: every rule call made here happens
        # with failure recording suppressed
        # (WHITESPACE and COMMENT are rules of the grammar: listing them would not break C13, and whether suppression is
        # still on after one of them returned is up to its body - G does not promise it; the synthetic rule is the point)
        for fam, i, L in run.ghost.get("oracle_calls", []):  # noqa: N806
            if fam[0].name() == "rule_ok" and z3.is_string_value(z3.simplify(i)) and z3.simplify(i).as_string() == "SKIP":
                run.oblige("trivia.synthetic_rule_tried_with_failures_suppressed", lget(L, "sup"))
        if d["SKIP"]:
            run.assume(G_inst(R, SKIP, lset(L0, sup=z3.BoolVal(True))))
        run.oblige("G.wf", wf(prs, lget(L0, "pos"), lget(L1, "pos")))

    def mk_loops(self):
        spec = self
        d = self.defined

        def start(run):
            return lset(run.pre["L0"], sup=z3.BoolVal(True))

        def facts(run, g):
            Lc = spec.cur(run)  # noqa: N806
            out = tvl_unfold(Lc, d["WHITESPACE"], d["COMMENT"])
            acc = z(g["acc"])
            ps, pc = lget(start(run), "pos"), lget(Lc, "pos")
            for nm, on in ((WS, d["WHITESPACE"]), (CM, d["COMMENT"])):
                if on:
                    for Lx in (Lc, restored(Lc, R[1](WS, Lc))):  # noqa: N806
                        out.append(W2(acc, R[2](nm, Lx), ps, pc, lget(R[1](nm, Lx), "pos")))
            out.append(W1(ps, ps))
            if d["WHITESPACE"]:
                out.append(G_inst(R, WS, Lc))
                if d["COMMENT"]:
                    out.append(G_inst(R, CM, restored(Lc, R[1](WS, Lc))))
            elif d["COMMENT"]:
                out.append(G_inst(R, CM, Lc))
            return out

        def inv(run, g):
            L1, P0 = start(run), run.pre["P0"]  # noqa: N806
            Lc = spec.cur(run)  # noqa: N806
            acc = z(g["acc"])
            return [
                ("snaps", spec.snaps_same(run)),
                ("pairs", spec.pairs_now(run) == z3.Concat(P0, acc)),
                ("children", z3.Length(spec.lseq(run, "children")) == 0),
                ("rest", z3.And(tvl_st(Lc) == tvl_st(L1), z3.Concat(acc, tvl_prs(Lc)) == tvl_prs(L1))),
                ("wf.acc", wf(acc, lget(L1, "pos"), lget(Lc, "pos"))),
                ("wf", z3.And(*wf_state(Lc, True), *G(L1, z3.BoolVal(True), Lc, EMPTY_P)[:6])),
            ]

        def entry(run):
            return {"acc": Sym(EMPTY_P, "seq:pair")}

        def back(run, g):
            P0 = run.pre["P0"]  # noqa: N806
            now = spec.pairs_now(run)
            return {"acc": Sym(z3.SubSeq(now, z3.Length(P0), z3.Length(now) - z3.Length(P0)), "seq:pair")}

        def modifies(run):
            return spec.state_cells(run) + spec.local_lists(run, "children")

        return {0: Loop(inv, facts=facts, modifies=modifies, ghosts={"acc": "seq:pair"}, entry=entry, back=back)}


def trivia_specs():
    return [
        ParseTriviaSpec(True, False, False),
        ParseTriviaSpec(False, False, False),
        ParseTriviaSpec(False, True, False),
        ParseTriviaSpec(False, False, True),
        ParseTriviaSpec(False, True, True),
    ]


# ============================================================================ bounded repetitions (delegating)
U = oracle("unrolled")


class DelegatingRepeatSpec(OpSpec):
    """e{n}, e{n,}, e{,n}, e{m,n}: parse() must be exactly `_unrolled(self).parse(state, pairs)`.

    The chain that carries the property: (1) this obligation - the class' parse() has no behaviour of its
    own beyond the delegation; (2) `_unrolled(self)` is the Sequence the property names (run concretely on
    schematic instances, contracts/unroll_struct.py - bounded in n); (3) Sequence / Optional / Repeat
    refine their Spec clauses (proved above)."""

    fail_care = ("tags", "sup", "far", "fi", "pos", "stk")

    def __init__(self, cls_name: str):
        self.cls = f"{X}.postfix.{cls_name}"
        super().__init__()

    def mk_self(self, run):
        f = {"expression": Child(0, "c"), "tag": None, "number": run.fresh("n", "int"), "min": run.fresh("m", "int"), "max": run.fresh("mx", "int")}
        return run.heap.alloc(self.cls, f, fresh=False)

    @property
    def summaries(self):
        def unrolled(run: Run, recv, args, kwargs):
            ok = len(args) == 1 and isinstance(args[0], Ref) and args[0] == run.pre["me"]
            run.oblige("delegates.self", ok)
            return Child(0, "unrolled")

        return {**StateModel.summaries, f"{X}.postfix._unrolled": unrolled}

    def K(self, run, L0):  # noqa: N802, N803
        return ocall(U, 0, L0)


def bounded_repeat_specs():
    return [DelegatingRepeatSpec(c) for c in ("RepeatExact", "RepeatMin", "RepeatMax", "RepeatMinMax")]


# ============================================================================ optimizer-only expressions (C02)
SUBS = z3.Const("skip_subs", SeqStrSort)
mo = z3.Function("min_occurrence", z3.IntSort(), z3.IntSort(), z3.IntSort())  # mo(i, pos): min over subs[:i] of the first occurrence at or after pos, -1 if none


def find_at(sub, pos):
    """Python's inp.find(sub, pos) for 0 <= pos <= len(inp) (z3's IndexOf is the first occurrence)"""
    return z3.IndexOf(INP, sub, pos)


def mo_unfold(i, pos) -> list[z3.BoolRef]:
    f = find_at(SUBS[i], pos)
    return [
        mo(0, pos) == -1,
        z3.Implies(z3.And(0 <= i, i < z3.Length(SUBS)), mo(i + 1, pos) == z3.If(f == -1, mo(i, pos), z3.If(z3.Or(mo(i, pos) == -1, f < mo(i, pos)), f, mo(i, pos)))),
        z3.Implies(z3.And(0 <= i, i < z3.Length(SUBS), f != -1), z3.And(f >= pos, f <= z3.Length(INP))),
    ]


class SkipUntilSpec(TerminalSpec):
    """SkipUntil(subs): always succeeds; pos' = the least first-occurrence index (at or after pos) over the
    stop strings, or len(input) when none occurs; nothing else changes, no pairs, no failure recorded."""

    cls = f"{T}.SkipUntil"

    def mk_self(self, run):
        lst = run.new_list("str", SUBS, fresh=False)
        return run.heap.alloc(self.cls, {"subs": lst, "tag": None}, fresh=False)

    def K(self, run, L0):  # noqa: N802, N803
        p = lget(L0, "pos")
        m = mo(z3.Length(SUBS), p)
        return z3.BoolVal(True), lset(L0, pos=z3.If(m == -1, z3.Length(INP), m)), EMPTY_P

    best_var = "best_index"

    def mk_loops(self):
        spec = self

        def facts(run, g):
            i = z(run.loop_idx)
            p = lget(run.pre["L0"], "pos")
            return mo_unfold(i, p)

        def inv(run, g):
            from pyvc.sorts import OptInt

            i = z(run.loop_idx)
            p = lget(run.pre["L0"], "pos")
            b = run.frames[0].env[spec.best_var]
            m = mo(i, p)
            if b is None:
                best = m == -1
            elif isinstance(b, Sym) and b.k == "optint":
                v = OptInt.ival(b.t)
                best = z3.If(OptInt.is_none_i(b.t), m == -1, z3.And(v == m, v >= p, v <= z3.Length(INP)))
            else:
                v = z(b, "int")
                best = z3.And(v == m, v >= p, v <= z3.Length(INP))
            return [
                ("state", spec.cur(run) == run.pre["L0"]),
                ("snaps", spec.snaps_same(run)),
                ("pairs", spec.pairs_now(run) == run.pre["P0"]),
                ("best", best),
            ]

        def havoc_local(run, name, cur):
            if name == spec.best_var:
                return run.fresh("best", "optint")
            return run._havoc_val(name, cur)  # noqa: SLF001

        lp = Loop(inv, facts=facts, modifies=lambda run: [])
        lp.havoc_local = havoc_local
        return {0: lp}

    def wf_hints(self, run, L0, ok, L1, prs):  # noqa: N803
        p = lget(L0, "pos")
        return mo_unfold(z3.Length(SUBS) - 1, p)


rx_ok = z3.Function("rx_ok", z3.StringSort(), z3.StringSort(), z3.IntSort(), z3.BoolSort())  # (pattern id, input, pos)
rx_end = z3.Function("rx_end", z3.StringSort(), z3.StringSort(), z3.IntSort(), z3.IntSort())


class RegexNodeSpec(TerminalSpec):
    """RegexExpression / OptimizedChoice: one compiled pattern (opaque - its meaning is C12's business):
    match -> pos' = match.end(); no match -> False; neither records a failure."""

    def __init__(self, cls_name: str):
        self.cls = {"RegexExpression": "pest.grammar.expression.RegexExpression", "OptimizedChoice": f"{X}.choice.OptimizedChoice"}[cls_name]
        self.kind = cls_name
        super().__init__()

    def mk_self(self, run):
        pid = run.fresh("pattern_id", "str")
        rx = RegexV(lambda inp, pos: (rx_ok(pid.t, inp, pos), rx_end(pid.t, inp, pos)))
        run.pre_pid = pid.t
        fields = {"pattern": rx if self.kind == "OptimizedChoice" else pid, "regex": rx, "_compiled": rx, "choices": None, "tag": None}
        return run.heap.alloc(self.cls, fields, fresh=False)

    def K(self, run, L0):  # noqa: N802, N803
        p = lget(L0, "pos")
        pid = run.pre_pid
        ok = rx_ok(pid, INP, p)
        # assumed of the engine: a match that starts at pos ends inside [pos, len]
        run.assume(z3.Implies(ok, z3.And(rx_end(pid, INP, p) >= p, rx_end(pid, INP, p) <= z3.Length(INP))), "regex: match.end() lies in [pos, len(input)]")
        return ok, z3.If(ok, lset(L0, pos=rx_end(pid, INP, p)), L0), EMPTY_P

    def getattr(self, run: Run, base: Any, attr: str, n):
        # OptimizedChoice.pattern is a lazily compiled property: modelled as the compiled pattern itself
        if isinstance(base, Ref) and base == run.pre.get("me") and attr == "pattern" and self.kind == "OptimizedChoice":
            return run.obj(base)["pattern"]
        return TerminalSpec.getattr(self, run, base, attr, n)
