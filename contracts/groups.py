"""Which operator contracts serve which property (interpreter side)."""
from __future__ import annotations

from . import ops


def core_terminals():
    from . import c12

    # c12.CIStrings: the regex-level assumptions the ^"v" contract rests on (escaped literal, flag I, simple case folding)
    return [ops.StringSpec(), ops.CIStringSpec(), ops.RangeSpec(), ops.AnySpec(), ops.SOISpec(), ops.EOISpec(), c12.CIStrings()]


def stack_terminals():
    return [
        ops.PushLiteralSpec(), ops.PushSpec(), ops.PeekSpec(), ops.PeekSliceSpec(), ops.PeekAllSpec(),
        ops.PopSpec(), ops.PopAllSpec(), ops.DropSpec(),
    ]


def backtracking():
    return [ops.ChoiceSpec(), ops.OptionalSpec(), ops.RepeatSpec(), ops.RepeatOnceSpec(), ops.PosPredSpec(), ops.NegPredSpec()]


def structure():
    return [ops.SequenceSpec(), ops.GroupSpec(), ops.TaggedGroupSpec(), ops.IdentifierSpec(), ops.TaggedIdentifierSpec()]


def rules():
    return ops.rule_specs()


def trivia():
    return ops.trivia_specs()


def entry():
    return [ops.ParserParseSpec()]


COMMON_TRUSTED = [
    "pyvc executor's model of the Python subset used by the functions under contract (cross-checked by seeded mutants, DESIGN section 2.9)",
    "z3 5.1.0 / cvc5 1.0.3 (thorough tier re-asks every unsat of the other solver)",
    "call-site contracts of Stack / SnapshottingInt / ParserState.checkpoint,ok,restore = the reference operations proved in C09",
    "ParserState.fail call-site contract (contracts/pstate.py s_fail), proved against the real body in C13",
    "child expressions and implicit trivia are oracles constrained only by the generic contract G (pstate.G); the induction from per-class obligations to whole grammars (DESIGN 3.4) is a paper argument",
    "regex engine semantics for the terminal shapes (DESIGN 3.5): ^\"v\" via ci_match, 'a'..'b' as one code point in [a,b]",
    "Pair(...) modelled as the injective-free constructor term mkpair(name,start,end,children,tag); the children list is not mutated after construction",
]
COMMON_ASSUMPTIONS = [
    "partial correctness: termination and recursion depth are not decided",
    "modifier values are the 8 combinations the grammar parser / optimizer can produce",
    "no undefined rule references (property precondition): state.parser.rules is total",
]


# ------------------------------------------------------------------ replay (concretiser)
def known_cases(prop: str) -> dict[str, dict]:
    import json
    from pathlib import Path

    p = Path(__file__).resolve().parent.parent / "KNOWN_CASES.json"
    if not p.exists():
        return {}
    return {k: v for k, v in json.loads(p.read_text()).items() if prop in v.get("properties", [])}


def concretise_ops(prop: str, default_modes=("interp", "interp+opt")):
    """Replay for operator properties: search small grammars x short inputs on the real library
    against the executable Spec (replay/refpeg.py), restricted to the families that exercise the
    function whose obligation failed.  Cases listed in KNOWN_CASES.json are skipped, so that a
    *different* failing input is still found."""

    def run(tier, seed, refuted, undecided, known):
        import shlex

        from replay import diff4

        labels = []
        for v in refuted:
            if v.fn not in labels:
                labels.append(v.fn)
        for u in undecided:
            lab = u.split("::")[0].split(":")[0]
            if lab not in labels:
                labels.append(lab)
        kc = known_cases(prop)
        skip = {(c["grammar"], c["text"]) for c in kc.values()}
        out = []
        if any(lab.startswith(("pest.stack.", "pest.checkpoint_int.", "pest.state.ParserState.checkpoint", "pest.state.ParserState.ok", "pest.state.ParserState.restore")) for lab in labels):
            from . import c09

            out += c09.concretise(tier, seed, refuted, undecided, known)
        for lab in labels:
            if lab.startswith(("pest.stack.", "pest.checkpoint_int.")):
                continue
            modes = ("gen", "gen+opt") if ("generate" in lab or "template" in lab) else default_modes
            res = diff4.search(diff4.families_for(lab), modes, limit=1, skip=skip)
            for r in res:
                cmd = f"cd /verif && .venv/bin/python -m replay.diff4 --case {shlex.quote(r['grammar'])} {r['rule']} {shlex.quote(r['text'])}"
                out.append({"found": True, "for": lab, "input": {"grammar": r["grammar"], "rule": r["rule"], "text": r["text"]},
                            "observed": {"kind": r["kind"], "modes": r["modes"], "spec": r["spec"]}, "cmd": cmd})
        return out

    return run
