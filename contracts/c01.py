"""C01 - generated module is observationally identical to the interpreter."""
from __future__ import annotations

import ast
import json
import os
import re
import subprocess
import sys
from pathlib import Path

from pyvc.driver import FunctionSpec

from . import groups as g
from . import templates, unroll_struct
from .groups import concretise_ops

PROPERTY = "C01"
EXPLANATION = (
    "For every Expression subclass the text emitted by its real generate() (obtained on every run by calling the real "
    "generator with stub children) is proved to refine the SAME contract K that the class' parse() is proved against "
    "in C03-C05: result, position, user stack, rule stack, atomic depth, tag stack, furthest-failure position and label "
    "bookkeeping, delivered pairs - for all inputs, start positions, parser states and child behaviours, with `matched` "
    "unassigned at entry and arbitrary junk left by failing children.  Rule.generate (12 modifier/name instances), "
    "generate_parse_trivia (8 configurations) and the emitted parse() entry point likewise.  The stub-children templates "
    "are representative because parse() / generate() test the class or tag of a child only at the audited sites "
    "(templates.stubs_representative) and the generate() of the four bounded repetitions is proved, for symbolic n, to be "
    "nothing but the delegation to the unrolled sequence.  Module assembly: the names a generated module binds are "
    "decided for all rule names by structure (C01.module_names), the generator's write effects by a syntactic "
    "modifies-audit; rule map / enum contents, name-stress grammars, byte-identical regeneration and generation-order "
    "independence are bounded checks on emitted modules (labelled bounded)."
)
TRUSTED = [
    *g.COMMON_TRUSTED,
    "the emitted text is produced by the repo's own generate() run under the repo's interpreter with Stub children (pyvc/emit.py); Stub.generate writes `m = __child_k(state, pairs)`",
    "assumed regex semantics for the emitted constants: [a-b] one code point (re.I adds the other-case ASCII letter), escaped literal, otherwise an opaque pattern (C12)",
]
ASSUMPTIONS = [*g.COMMON_ASSUMPTIONS, "a failing rule function leaves the caller's list untouched (proved for every Rule template: K.pairs.strict) - used where templates pass `pairs` straight to parse_<rule>"]
BOUNDED = [
    "arity of Sequence/Choice templates (the generator unrolls them): 0..3 quick, 0..5 thorough",
    "terminal templates with concrete parameters: catalogue of literals/ranges/slices (templates.terminal_templates, stack_loop_templates)",
    "module assembly / regeneration: structural checks on the modules emitted for the bundled grammars and a few small ones",
]


def specs(tier):
    # C01 asks that generated code and interpreter agree: for @ rules both are proved against their common
    # behaviour (kids="impl"); the deviation of that behaviour from pest is C04's finding F8
    from . import ops

    # the nodes only the optimizer creates (SkipUntil, RegexExpression, OptimizedChoice) have interpreters and templates of
    # their own: both sides against the same contract here too (a second-round seed changed SkipUntil.generate only and
    # went unnoticed by C01 while these lived in C02 alone)
    return [*templates.all_templates(3 if tier == "quick" else 5, kids="impl"), ops.RuleSpec(4, None, "impl"),
            ops.SkipUntilSpec(), ops.RegexNodeSpec("RegexExpression"), ops.RegexNodeSpec("OptimizedChoice"),
            *templates.skipuntil_templates(), *templates.regex_node_templates(), ModuleNames(), GeneratorFrameAudit(),
            templates.StubsRepresentative(), *templates.delegating_generate_specs()]


concretise = concretise_ops(PROPERTY, default_modes=("interp", "gen", "interp+opt", "gen+opt"))


# ------------------------------------------------------------------ module assembly: names (for ALL rule names, by structure)
class ModuleNames(FunctionSpec):
    """The names a generated module binds, for every grammar:
      fixed names F   = what generate_module binds for the empty rule table (helpers, imports, entry points);
      rule names N(r) = what it binds in addition for a rule r: exactly {parse_<r>, _parse_<r>} (checked on sentinels);
    r -> parse_<r> is injective and prefix-disjoint from _parse_<r'> for identifier rule names (a rule name cannot start
    with a digit, so parse__x = _parse_<r'> is impossible), hence no two rules collide; no fixed name has the form
    parse_* / _parse_*, hence no rule overwrites a helper and no helper a rule - for ALL rule names, by structure.
    The Rule enum's members are <name>.upper(): injective only up to case, and invalid for sunder / dunder names (finding)."""

    target = "pest.grammar.codegen.generate.generate_module"
    label = "C01.module_names"

    def source(self, engine):
        return engine.program.funcs[self.target]

    @staticmethod
    def bound(src: str) -> set[str]:
        out = set()
        for st in ast.parse(src).body:
            for nd in ([st] if not isinstance(st, ast.If) else st.body):
                if isinstance(nd, (ast.FunctionDef, ast.ClassDef)):
                    out.add(nd.name)
                elif isinstance(nd, ast.Assign):
                    out |= {t.id for t in nd.targets if isinstance(t, ast.Name)}
                elif isinstance(nd, ast.AnnAssign) and isinstance(nd.target, ast.Name):
                    out.add(nd.target.id)
                elif isinstance(nd, (ast.Import, ast.ImportFrom)):
                    out |= {(a.asname or a.name).split(".")[0] for a in nd.names}
        return out

    def direct(self, run) -> None:
        from pest import Parser
        from pest.grammar.codegen.generate import generate_module

        fixed = self.bound(generate_module({}))
        run.oblige("fixed.nonempty", {"parse", "_RULE_MAP", "Rule"} <= fixed, note=str(sorted(fixed)))
        clash = sorted(f for f in fixed if f.startswith(("parse_", "_parse_")))
        run.oblige("fixed.no_rule_shaped_name", not clash, note=f"a rule named {[c.split('parse_', 1)[1] for c in clash]} would collide with {clash}")
        for names in (["zq"], ["zq", "zq_x", "_zq", "Zq9"]):
            p = Parser.from_grammar("\n".join(f'{n} = {{ "x" }}' for n in names), optimizer=None)
            rules = {k: v for k, v in p.rules.items() if k in names}
            extra = self.bound(generate_module(rules)) - fixed
            want = {f"parse_{n}" for n in names} | {f"_parse_{n}" for n in names}
            run.oblige(f"rule_names.shape[{len(names)}]", extra == want, note=f"bound {sorted(extra)}, expected {sorted(want)}")
        # the Rule enum: member names must be injective in rule names and valid for every identifier
        def enum_ok(names):
            p = Parser.from_grammar("\n".join(f'{n} = {{ "x" }}' for n in names), optimizer=None)
            ns: dict = {}
            try:
                exec(compile(p.generate(), "<g>", "exec"), ns)  # noqa: S102
            except Exception as e:  # noqa: BLE001
                return f"{type(e).__name__}: {e}"
            return None if {str(m) for m in ns["Rule"]} >= set(names) else "members missing"

        for case, names in (("case_distinct", ["zq", "ZQ"]), ("sunder", ["_zq_"]), ("dunder", ["__zq__"]), ("keyword", ["class", "def", "None", "mro", "name", "value"])):
            why = enum_ok(names)
            run.oblige(f"enum.valid[{case}]", why is None, note=f"rules {names}: generated module does not import: {why}")


class GeneratorFrameAudit(FunctionSpec):
    """generate() / generate_module() are functions of the Parser only - 'generating twice yields byte-identical source' and
    'the source generated for one Parser does not depend on Parsers generated earlier': the syntactic modifies-audit of C15
    (no attribute of self assigned outside __init__, no global / nonlocal, no mutable default, no mutation of a module-level
    container) re-run as C01 obligations (round-5 seed C01c: a module-level cache of rule sources keyed by str(rule))."""

    target = "pest.grammar.codegen.generate.generate_rule"
    label = "C01.generator[frame audit]"

    def source(self, engine):
        return engine.program.funcs[self.target]

    def direct(self, run) -> None:
        from . import c15

        c15.ConstructionFrameAudit.direct(c15.ConstructionFrameAudit(), run)


# ------------------------------------------------------------------ bounded structural checks
SMALL = [
    'a = { "x" ~ b* }\nb = _{ "y" | ^"z" | \'0\'..\'9\' }',
    'WHITESPACE = _{ " " }\nCOMMENT = _{ "#" }\na = ${ PUSH("x") ~ (!PEEK ~ ANY)* ~ POP }\nb = @{ a{2} ~ a{1,} ~ a{,2} ~ a{1,2} ~ EOI }',
    'a = { #tt=(b | c) }\nb = !{ "x" }\nc = { PEEK[0..1] ~ PEEK_ALL ~ POP_ALL ~ DROP }',
]


def _grammar_files():
    repo = Path(os.environ.get("PYVC_REPO", "/repo"))
    out = []
    for pat in ("tests/grammars/*.pest", "examples/*/*.pest"):
        out += sorted(repo.glob(pat))
    return out


def assembly_check() -> dict:
    from pest import Parser

    bad = []
    n = 0
    texts = [(f"small{i}", t) for i, t in enumerate(SMALL)]
    for p in _grammar_files():
        texts.append((p.name, p.read_text()))
    for name, text in texts:
        for opt in (True, False):
            try:
                parser = Parser.from_grammar(text) if opt else Parser.from_grammar(text, optimizer=None)
            except Exception as e:  # noqa: BLE001
                if "Grammar" in type(e).__name__:
                    continue  # not a grammar the library accepts (C10/C11's business)
                bad.append({"grammar": name, "opt": opt, "what": f"from_grammar raised {type(e).__name__}"})
                continue
            n += 1
            try:
                src = parser.generate()
                src2 = parser.generate()
            except Exception as e:  # noqa: BLE001
                bad.append({"grammar": name, "opt": opt, "what": f"generate raised {type(e).__name__}: {e}"[:200]})
                continue
            if src != src2:
                bad.append({"grammar": name, "opt": opt, "what": "generate() twice differs"})
            try:
                tree = ast.parse(src)
                compile(tree, "<generated>", "exec")
            except SyntaxError as e:
                bad.append({"grammar": name, "opt": opt, "what": f"emitted module does not compile: {e}"})
                continue
            defined = set()
            for st in tree.body:
                if isinstance(st, ast.Assign):
                    for t in st.targets:
                        if isinstance(t, ast.Name):
                            defined.add(t.id)
                elif isinstance(st, (ast.FunctionDef, ast.ClassDef)):
                    defined.add(st.name)
            used = {nd.id for nd in ast.walk(tree) if isinstance(nd, ast.Name) and nd.id.startswith("parse_")}
            missing = sorted(u for u in used if u not in defined)
            if missing:
                bad.append({"grammar": name, "opt": opt, "what": f"parse_* referenced but not defined: {missing[:5]}"})
            # rule-scoped constants are defined inside the closure that uses them
            for st in tree.body:
                if isinstance(st, ast.FunctionDef) and st.name.startswith("_parse_"):
                    local = {t.id for s2 in st.body if isinstance(s2, ast.Assign) for t in s2.targets if isinstance(t, ast.Name)}
                    refs = {nd.id for nd in ast.walk(st) if isinstance(nd, ast.Name) and re.fullmatch(r"(RE|SUBS)\d+", nd.id)}
                    if refs - local:
                        bad.append({"grammar": name, "opt": opt, "what": f"constants used but not defined in {st.name}: {sorted(refs - local)}"})
            try:
                ns: dict = {}
                exec(compile(tree, "<generated>", "exec"), ns)  # noqa: S102
                want = {k for k, r in parser.rules.items() if type(r).__name__ not in ("BuiltInRule", "ASCIIRule", "UnicodePropertyRule", "Any", "SOI") or k == "EOI"}
                if set(ns["_RULE_MAP"]) != want:
                    bad.append({"grammar": name, "opt": opt, "what": "_RULE_MAP keys differ from the grammar's rules"})
            except Exception as e:  # noqa: BLE001
                bad.append({"grammar": name, "opt": opt, "what": f"emitted module does not import: {type(e).__name__}: {e}"[:200]})
    return {"name": "module-assembly", "kind": "bounded stand-in (structural check of emitted modules)", "evaluations": n,
            "bound": f"{len(texts)} grammars x optimizer on/off", "violation": bool(bad), "details": bad[:5]}


def regeneration_check() -> dict:
    """generate() is a function of the Parser only: same text in a fresh process with a different hash seed."""
    code = (
        "import sys,hashlib; from pest import Parser;\n"
        "out=[]\n"
        "for g in sys.argv[1:]:\n"
        "    t=open(g).read()\n"
        "    try: out.append(hashlib.sha256(Parser.from_grammar(t).generate().encode()).hexdigest())\n"
        "    except Exception as e: out.append(type(e).__name__)\n"
        "print(' '.join(out))\n"
    )
    files = [str(p) for p in _grammar_files()]
    if not files:
        return {"name": "byte-identical-regeneration", "kind": "bounded stand-in", "evaluations": 0, "violation": False,
                "fault": "no bundled grammar files found under the repository"}
    outs = []
    for seed in ("0", "12345"):
        env = dict(os.environ, PYTHONHASHSEED=seed)
        r = subprocess.run([sys.executable, "-c", code, *files], capture_output=True, text=True, env=env, check=False)
        outs.append(r.stdout.strip())
    # syntactic ban list over the generator's sources: nothing order- or time-dependent
    repo = Path(os.environ.get("PYVC_REPO", "/repo")) / "src" / "pest" / "grammar"
    banned = []
    for p in [*repo.glob("codegen/*.py"), *repo.glob("expressions/*.py"), repo / "rule.py", repo / "expression.py", *repo.glob("rules/*.py")]:
        tree = ast.parse(p.read_text())
        for fn in ast.walk(tree):
            if isinstance(fn, ast.FunctionDef) and (fn.name.startswith("generate") or p.parent.name == "codegen"):
                for nd in ast.walk(fn):
                    if isinstance(nd, ast.Call) and isinstance(nd.func, ast.Name) and nd.func.id in ("id", "hash", "set", "frozenset", "vars", "dir"):
                        banned.append(f"{p.name}:{fn.name}: call to {nd.func.id}()")
                    if isinstance(nd, ast.Attribute) and isinstance(nd.value, ast.Name) and nd.value.id in ("time", "random", "os", "uuid"):
                        banned.append(f"{p.name}:{fn.name}: uses {nd.value.id}.{nd.attr}")
    bad = []
    if outs[0] != outs[1] or not outs[0]:
        bad.append({"what": "generated text depends on the hash seed / process", "a": outs[0][:80], "b": outs[1][:80]})
    if banned:
        bad.append({"what": "order/time dependent construct in a generator function", "sites": banned[:5]})
    return {"name": "byte-identical-regeneration", "kind": "bounded stand-in (two processes, different PYTHONHASHSEED) + syntactic ban list on generate*() sources",
            "evaluations": 2 * len(files), "bound": f"{len(files)} bundled grammars", "violation": bool(bad), "details": bad}


NAME_STRESS = [
    # rule names that look like the generated module's own names, Python keywords, builtins, each other up to prefixes
    ('trivia = { "a" }\nstart = { trivia ~ "b" }', "start", ["ab", "a", ""]),
    ('WHITESPACE = _{ " " }\ntrivia = { "a" }\nskip_trivia = { "c" }\nstart = { trivia ~ skip_trivia ~ "b" }', "start", ["a c b", "acb", "a"]),
    ('parse = { "a" }\nstate = { parse ~ pairs }\npairs = { "b" }\nmain = { state ~ Parser }\nParser = { "c" }', "main", ["abc", "ab"]),
    ('class = { "a" }\ndef = { class ~ None }\nNone = { "b" }\nre = { def ~ Pair }\nPair = { "c" }\ninner = { re }\nrule_frame = { inner ~ matched? }\nmatched = { "d" }', "rule_frame", ["abcd", "abc", "ab"]),
    ('x = { "a" }\n_x = { x ~ "b" }\nx_ = { _x ~ "c" }\nparse_x = { x_ ~ "d" }\n_parse_x = { parse_x ~ "e" }', "_parse_x", ["abcde", "abcd"]),
    ('RE1 = { \'a\'..\'c\' }\nSUBS1 = @{ (!"b" ~ ANY)* }\nr = { (RE1 | "x")+ ~ SUBS1 }', "r", ["abcb", "xa", ""]),
    ('Rule = { "a" }\nRuleFrame = { Rule ~ "b" }\nParserState = { RuleFrame ~ Pairs }\nPairs = { "c" }\nPestParsingError = { ParserState }\n_RULE_MAP = { PestParsingError }', "_RULE_MAP", ["abc", "ab"]),
]


def name_stress_check() -> dict:
    """generated module == interpreter on grammars whose rule names resemble the module's own names"""
    from pest import Parser
    from pest.exceptions import PestParsingError

    bad = []
    n = 0
    for text, rule, inputs in NAME_STRESS:
        for opt in (False, True):
            try:
                p = Parser.from_grammar(text) if opt else Parser.from_grammar(text, optimizer=None)
            except Exception as e:  # noqa: BLE001
                bad.append({"grammar": text, "what": f"from_grammar raised {type(e).__name__}: {e}"[:160]})
                continue
            try:
                ns: dict = {}
                exec(compile(p.generate(), "<generated>", "exec"), ns)  # noqa: S102
            except Exception as e:  # noqa: BLE001
                bad.append({"grammar": text, "opt": opt, "what": f"generated module does not import: {type(e).__name__}: {e}"[:160]})
                continue
            for inp in inputs:
                n += 1
                outs = []
                for f in (p.parse, ns["parse"]):
                    try:
                        outs.append(("ok", f(rule, inp).dumps()))
                    except PestParsingError as e:
                        outs.append(("fail", e.state.furthest_pos))
                    except Exception as e:  # noqa: BLE001
                        outs.append(("raised", type(e).__name__))
                if outs[0] != outs[1]:
                    bad.append({"grammar": text, "rule": rule, "text": inp, "opt": opt, "interpreted": outs[0], "generated": outs[1]})
    return {"name": "module-assembly-names", "kind": "bounded stand-in (generated vs interpreted on name-stress grammars)", "evaluations": n,
            "bound": f"{len(NAME_STRESS)} grammars x optimizer on/off x 2-3 inputs", "violation": bool(bad), "details": bad[:4]}


ORDER_PAIRS = [
    # pairs of grammars with a rule that PRINTS identically but means something else
    ('word = ${ "a" ~ "b" }\nitem = @{ word }', 'word = { "a" ~ "b" }\nitem = @{ word }', "item", "ab"),
    ('sep = { "\\n" }\nr = { "a" ~ sep }', 'sep = { "\n" }\nr = { "a" ~ sep }', "r", "a\n"),
    ('WHITESPACE = _{ " " }\nr = { "a" ~ "b" }', 'r = { "a" ~ "b" }', "r", "a b"),
    ('x = _{ "a" }\nr = { x+ }', 'x = { "a" }\nr = { x+ }', "r", "aa"),
]


def generation_order_check() -> dict:
    """the source generated for a Parser does not depend on what was generated earlier in the process"""
    code = (
        "import sys, json, hashlib\nfrom pest import Parser\n"
        "gs = json.loads(sys.argv[1])\nout = []\n"
        "for g in gs:\n"
        "    for opt in (True, False):\n"
        "        p = Parser.from_grammar(g) if opt else Parser.from_grammar(g, optimizer=None)\n"
        "        out.append(hashlib.sha256(p.generate().encode()).hexdigest())\n"
        "print(json.dumps(out))\n"
    )
    bad = []
    n = 0

    def gen(gs):
        r = subprocess.run([sys.executable, "-c", code, json.dumps(gs)], capture_output=True, text=True, env=dict(os.environ), check=False, timeout=120)
        return json.loads(r.stdout.strip().splitlines()[-1]) if r.returncode == 0 and r.stdout.strip() else None

    for g1, g2, rule, text in ORDER_PAIRS:
        n += 3
        alone1, alone2, after = gen([g1]), gen([g2]), gen([g1, g2])
        back = gen([g2, g1])
        if None in (alone1, alone2, after, back):
            bad.append({"grammars": [g1, g2], "what": "generation failed in a subprocess"})
        elif after[2:] != alone2 or back[2:] != alone1:
            bad.append({"grammars": [g1, g2], "rule": rule, "text": text, "what": "source generated for the second grammar depends on the grammar generated before it"})
    return {"name": "generation-order-independence", "kind": "bounded stand-in (fresh processes: grammar alone vs after another grammar)", "evaluations": n,
            "bound": f"{len(ORDER_PAIRS)} pairs of grammars with identically printed rules of different meaning, both orders, optimizer on/off", "violation": bool(bad), "details": bad[:3]}


def extra_checks(tier, seed):
    return [assembly_check(), name_stress_check(), regeneration_check(), generation_order_check(), unroll_struct.check()]
