"""C01 - generated module is observationally identical to the interpreter."""
from __future__ import annotations

import ast
import json
import os
import re
import subprocess
import sys
from pathlib import Path

from . import groups as g
from . import templates, unroll_struct
from .groups import concretise_ops

PROPERTY = "C01"
EXPLANATION = (
    "For every Expression subclass the text emitted by its real generate() (obtained on every run by calling the real "
    "generator with stub children) is proved to refine the SAME contract K that the class' parse() is proved against "
    "in C03-C05: result, position, user stack, rule stack, atomic depth, tag stack, furthest-failure position and label "
    "bookkeeping, delivered pairs - for all inputs, start positions, parser states and child behaviours, with `matched` "
    "unassigned at entry and arbitrary junk left by failing children.  Rule.generate (12 modifier/name instances), "
    "generate_parse_trivia (8 configurations) and the emitted parse() entry point likewise.  Module assembly and "
    "byte-identical regeneration are bounded structural checks on emitted modules (labelled bounded)."
)
TRUSTED = [
    *g.COMMON_TRUSTED,
    "the emitted text is produced by the repo's own generate() run under the repo's interpreter with Stub children (pyvc/emit.py); Stub.generate writes `m = __child_k(state, pairs)`",
    "assumed regex semantics for the emitted constants: [a-b] one code point (re.I adds the other-case ASCII letter), escaped literal, otherwise an opaque pattern (C12)",
]
ASSUMPTIONS = [*g.COMMON_ASSUMPTIONS, "a failing rule function leaves the caller's list untouched (proved for every Rule template: K.pairs.strict) - used where templates pass `pairs` straight to parse_<rule>"]
BOUNDED = [
    "arity of Sequence/Choice templates (the generator unrolls them): 0..3 quick, 0..5 thorough",
    "terminal templates with concrete parameters: catalogue of literals/ranges/slices (templates.terminal_templates, stack_loop_templates)",
    "module assembly / regeneration: structural checks on the modules emitted for the bundled grammars and a few small ones",
]


def specs(tier):
    # C01 asks that generated code and interpreter agree: for @ rules both are proved against their common
    # behaviour (kids="impl"); the deviation of that behaviour from pest is C04's finding F8
    from . import ops

    # the nodes only the optimizer creates (SkipUntil, RegexExpression, OptimizedChoice) have interpreters and templates of
    # their own: both sides against the same contract here too (a second-round seed changed SkipUntil.generate only and
    # went unnoticed by C01 while these lived in C02 alone)
    return [*templates.all_templates(3 if tier == "quick" else 5, kids="impl"), ops.RuleSpec(4, None, "impl"),
            ops.SkipUntilSpec(), ops.RegexNodeSpec("RegexExpression"), ops.RegexNodeSpec("OptimizedChoice"),
            *templates.skipuntil_templates(), *templates.regex_node_templates()]


concretise = concretise_ops(PROPERTY, default_modes=("interp", "gen", "interp+opt", "gen+opt"))


# ------------------------------------------------------------------ bounded structural checks
SMALL = [
    'a = { "x" ~ b* }\nb = _{ "y" | ^"z" | \'0\'..\'9\' }',
    'WHITESPACE = _{ " " }\nCOMMENT = _{ "#" }\na = ${ PUSH("x") ~ (!PEEK ~ ANY)* ~ POP }\nb = @{ a{2} ~ a{1,} ~ a{,2} ~ a{1,2} ~ EOI }',
    'a = { #tt=(b | c) }\nb = !{ "x" }\nc = { PEEK[0..1] ~ PEEK_ALL ~ POP_ALL ~ DROP }',
]


def _grammar_files():
    repo = Path(os.environ.get("PYVC_REPO", "/repo"))
    out = []
    for pat in ("tests/grammars/*.pest", "examples/*/*.pest"):
        out += sorted(repo.glob(pat))
    return out


def assembly_check() -> dict:
    from pest import Parser

    bad = []
    n = 0
    texts = [(f"small{i}", t) for i, t in enumerate(SMALL)]
    for p in _grammar_files():
        texts.append((p.name, p.read_text()))
    for name, text in texts:
        for opt in (True, False):
            try:
                parser = Parser.from_grammar(text) if opt else Parser.from_grammar(text, optimizer=None)
            except Exception as e:  # noqa: BLE001
                if "Grammar" in type(e).__name__:
                    continue  # not a grammar the library accepts (C10/C11's business)
                bad.append({"grammar": name, "opt": opt, "what": f"from_grammar raised {type(e).__name__}"})
                continue
            n += 1
            try:
                src = parser.generate()
                src2 = parser.generate()
            except Exception as e:  # noqa: BLE001
                bad.append({"grammar": name, "opt": opt, "what": f"generate raised {type(e).__name__}: {e}"[:200]})
                continue
            if src != src2:
                bad.append({"grammar": name, "opt": opt, "what": "generate() twice differs"})
            try:
                tree = ast.parse(src)
                compile(tree, "<generated>", "exec")
            except SyntaxError as e:
                bad.append({"grammar": name, "opt": opt, "what": f"emitted module does not compile: {e}"})
                continue
            defined = set()
            for st in tree.body:
                if isinstance(st, ast.Assign):
                    for t in st.targets:
                        if isinstance(t, ast.Name):
                            defined.add(t.id)
                elif isinstance(st, (ast.FunctionDef, ast.ClassDef)):
                    defined.add(st.name)
            used = {nd.id for nd in ast.walk(tree) if isinstance(nd, ast.Name) and nd.id.startswith("parse_")}
            missing = sorted(u for u in used if u not in defined)
            if missing:
                bad.append({"grammar": name, "opt": opt, "what": f"parse_* referenced but not defined: {missing[:5]}"})
            # rule-scoped constants are defined inside the closure that uses them
            for st in tree.body:
                if isinstance(st, ast.FunctionDef) and st.name.startswith("_parse_"):
                    local = {t.id for s2 in st.body if isinstance(s2, ast.Assign) for t in s2.targets if isinstance(t, ast.Name)}
                    refs = {nd.id for nd in ast.walk(st) if isinstance(nd, ast.Name) and re.fullmatch(r"(RE|SUBS)\d+", nd.id)}
                    if refs - local:
                        bad.append({"grammar": name, "opt": opt, "what": f"constants used but not defined in {st.name}: {sorted(refs - local)}"})
            try:
                ns: dict = {}
                exec(compile(tree, "<generated>", "exec"), ns)  # noqa: S102
                want = {k for k, r in parser.rules.items() if type(r).__name__ not in ("BuiltInRule", "ASCIIRule", "UnicodePropertyRule", "Any", "SOI") or k == "EOI"}
                if set(ns["_RULE_MAP"]) != want:
                    bad.append({"grammar": name, "opt": opt, "what": "_RULE_MAP keys differ from the grammar's rules"})
            except Exception as e:  # noqa: BLE001
                bad.append({"grammar": name, "opt": opt, "what": f"emitted module does not import: {type(e).__name__}: {e}"[:200]})
    return {"name": "module-assembly", "kind": "bounded stand-in (structural check of emitted modules)", "evaluations": n,
            "bound": f"{len(texts)} grammars x optimizer on/off", "violation": bool(bad), "details": bad[:5]}


def regeneration_check() -> dict:
    """generate() is a function of the Parser only: same text in a fresh process with a different hash seed."""
    code = (
        "import sys,hashlib; from pest import Parser;\n"
        "out=[]\n"
        "for g in sys.argv[1:]:\n"
        "    t=open(g).read()\n"
        "    try: out.append(hashlib.sha256(Parser.from_grammar(t).generate().encode()).hexdigest())\n"
        "    except Exception as e: out.append(type(e).__name__)\n"
        "print(' '.join(out))\n"
    )
    files = [str(p) for p in _grammar_files()]
    if not files:
        return {"name": "byte-identical-regeneration", "kind": "bounded stand-in", "evaluations": 0, "violation": False,
                "fault": "no bundled grammar files found under the repository"}
    outs = []
    for seed in ("0", "12345"):
        env = dict(os.environ, PYTHONHASHSEED=seed)
        r = subprocess.run([sys.executable, "-c", code, *files], capture_output=True, text=True, env=env, check=False)
        outs.append(r.stdout.strip())
    # syntactic ban list over the generator's sources: nothing order- or time-dependent
    repo = Path(os.environ.get("PYVC_REPO", "/repo")) / "src" / "pest" / "grammar"
    banned = []
    for p in [*repo.glob("codegen/*.py"), *repo.glob("expressions/*.py"), repo / "rule.py", repo / "expression.py", *repo.glob("rules/*.py")]:
        tree = ast.parse(p.read_text())
        for fn in ast.walk(tree):
            if isinstance(fn, ast.FunctionDef) and (fn.name.startswith("generate") or p.parent.name == "codegen"):
                for nd in ast.walk(fn):
                    if isinstance(nd, ast.Call) and isinstance(nd.func, ast.Name) and nd.func.id in ("id", "hash", "set", "frozenset", "vars", "dir"):
                        banned.append(f"{p.name}:{fn.name}: call to {nd.func.id}()")
                    if isinstance(nd, ast.Attribute) and isinstance(nd.value, ast.Name) and nd.value.id in ("time", "random", "os", "uuid"):
                        banned.append(f"{p.name}:{fn.name}: uses {nd.value.id}.{nd.attr}")
    bad = []
    if outs[0] != outs[1] or not outs[0]:
        bad.append({"what": "generated text depends on the hash seed / process", "a": outs[0][:80], "b": outs[1][:80]})
    if banned:
        bad.append({"what": "order/time dependent construct in a generator function", "sites": banned[:5]})
    return {"name": "byte-identical-regeneration", "kind": "bounded stand-in (two processes, different PYTHONHASHSEED) + syntactic ban list on generate*() sources",
            "evaluations": 2 * len(files), "bound": f"{len(files)} bundled grammars", "violation": bool(bad), "details": bad}


def extra_checks(tier, seed):
    return [assembly_check(), regeneration_check(), unroll_struct.check()]
