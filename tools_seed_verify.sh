#!/bin/bash
# tools_seed_verify.sh <seed-id> : confirm an agent's seeded change in its scratch worktree /tmp/wt/<id>
# (suite passes with it, demo fails with it, demo passes without it), then store it under seeded/<id>/.
ID=$1; WT=/tmp/wt/$ID; OUT=/tmp/seedout/$ID
cd $WT || exit 9
git checkout -q -- examples 2>/dev/null
git diff -- src > /tmp/seedout/$ID/patch.mine.diff
echo "patch lines: $(wc -l < /tmp/seedout/$ID/patch.mine.diff); agent patch identical: $(diff -q /tmp/seedout/$ID/patch.mine.diff $OUT/patch.diff >/dev/null && echo yes || echo NO)"
PYTHONPATH=$WT/src /venv/bin/python -m pytest -q -p no:cacheprovider --timeout=900 --continue-on-collection-errors 2>&1 | tail -2
git checkout -q -- examples 2>/dev/null
PYTHONPATH=$WT/src timeout 300 /venv/bin/python $OUT/demo.py > /tmp/seedout/$ID/with.out 2>&1; echo "demo with change: exit $? ($(tail -1 /tmp/seedout/$ID/with.out | cut -c1-150))"
git stash -q
PYTHONPATH=$WT/src timeout 300 /venv/bin/python $OUT/demo.py > /tmp/seedout/$ID/without.out 2>&1; echo "demo without change: exit $? ($(tail -1 /tmp/seedout/$ID/without.out | cut -c1-150))"
git stash pop -q
mkdir -p /verif/seeded/$ID
cp /tmp/seedout/$ID/patch.mine.diff /verif/seeded/$ID/patch.diff
cp $OUT/demo.py /verif/seeded/$ID/demo.py
cp $OUT/meta.agent.json /verif/seeded/$ID/meta.agent.json
