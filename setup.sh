#!/bin/bash
# Build the overlay venv (python 3.12 with z3/cvc5 + the repo's own deps) offline. Idempotent.
set -e
cd "$(dirname "$0")"
if [ ! -x .venv/bin/python ] || ! .venv/bin/python -c "import z3, regex, pest, jsonschema" 2>/dev/null; then
  rm -rf .venv
  /venv/bin/python -m venv .venv
  PIP_NO_INDEX=1 .venv/bin/python -m pip install -q --no-index --find-links /opt/veriftools/wheels \
      z3-solver cvc5 crosshair-tool icontract deal jsonschema >/dev/null 2>&1
  echo "import site; site.addsitedir('/venv/lib/python3.12/site-packages')" \
      > .venv/lib/python3.12/site-packages/_repo.pth
fi
.venv/bin/python -c "import z3, regex, pest, jsonschema" 
