"""Obtain the *real* generated code for an expression: call the repo's generate() with stub children.

Nothing is retyped by hand: the text verified is what `Expression.generate()` of the current tree emits.
A Stub child writes `matched_var = __child_k(state, pairs_var)`; the verifier treats `__child_k` as oracle k.
"""
from __future__ import annotations

import ast
from typing import Any

from .intake import FuncInfo


def stub_class():
    from pest.grammar.expression import Expression

    class Stub(Expression):
        __slots__ = ("k",)

        def __init__(self, k: int):
            super().__init__(None)
            self.k = k

        def __str__(self) -> str:
            return f"<child{self.k}>"

        def parse(self, state, pairs):  # pragma: no cover - never interpreted
            raise NotImplementedError

        def generate(self, gen, matched_var, pairs_var):
            gen.writeln(f"{matched_var} = __child_{self.k}(state, {pairs_var})")

        def children(self):
            return []

        def with_children(self, expressions):
            return self

    return Stub


def emit_expression(node: Any, rules: dict | None = None) -> tuple[str, list[tuple[str, str]]]:
    from pest.grammar.codegen.builder import Builder

    gen = Builder(rules if rules is not None else {})
    node.generate(gen, "matched", "pairs")
    return gen.render(), list(gen.rule_constants)


def as_function(code: str, name: str, ret: str | None = "matched", params: str = "state, pairs") -> tuple[str, ast.FunctionDef]:
    body = "\n".join("    " + ln for ln in code.splitlines()) or "    pass"
    src = f"def {name}({params}):\n{body}\n"
    if ret:
        src += f"    return {ret}\n"
    tree = ast.parse(src)
    fn = tree.body[0]
    assert isinstance(fn, ast.FunctionDef)
    return src, fn


def inner_function(code: str) -> tuple[str, ast.FunctionDef]:
    """Rule.generate emits `def inner(state, pairs): ...`: take that function as is."""
    tree = ast.parse(code)
    fn = tree.body[0]
    assert isinstance(fn, ast.FunctionDef) and fn.name == "inner"
    return code, fn


def funcinfo(label: str, src: str, fn: ast.FunctionDef, module: str = "pest.state") -> FuncInfo:
    return FuncInfo(label, module, None, fn, src, [])
