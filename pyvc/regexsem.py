"""Assumed semantics of the regular-expression shapes the library builds (DESIGN 3.5).

A pattern text + flags, as handed to `regex.compile` by the real code, is parsed with the standard
library's regex parser and turned into a z3 predicate over an integer code point 0 <= cp <= 0x10FFFF
(`accepts_cp`) when the pattern consumes exactly one code point, or into a structural description.

Trusted: that the `regex` engine implements these shapes this way: a class matches one code point by
membership; an escaped literal matches itself; flag I adds simple case-fold equivalents (for ASCII
letters exactly the other-case ASCII letter, plus U+212A for k/K and U+017F for s/S); `\\p{...}` is
whatever the engine's Unicode tables say (opaque, identified by its text).
"""
from __future__ import annotations

import re
import re._constants as sc  # type: ignore[import-not-found]
import re._parser as sp  # type: ignore[import-not-found]
from dataclasses import dataclass
from typing import Any, Callable

import z3

MAXCP = 0x10FFFF
PROP_RE = re.compile(r"\\[pP]\{[^}]*\}")


@dataclass
class Parsed:
    kind: str  # "class1" (one code point), "literal", "alt", "opaque"
    accepts: Callable[[Any], Any] | None = None  # cp -> z3 Bool    (class1)
    literal: str | None = None
    parts: list[Any] | None = None
    props: tuple[str, ...] = ()
    repeat: bool = False
    ignore_case: bool = False


def _swap_ascii(cp):
    return z3.If(z3.And(cp >= 65, cp <= 90), cp + 32, z3.If(z3.And(cp >= 97, cp <= 122), cp - 32, cp))


def _lit_match(cp, lit: int, ic: bool):
    if not ic:
        return cp == lit
    out = [cp == lit]
    if 65 <= lit <= 90:
        out.append(cp == lit + 32)
    elif 97 <= lit <= 122:
        out.append(cp == lit - 32)
    if lit in (75, 107):
        out.append(cp == 0x212A)
    if lit in (83, 115):
        out.append(cp == 0x17F)
    if lit > 127:
        raise NotImplementedError("case-insensitive non-ASCII literal: outside the assumed semantics")
    return z3.Or(*out)


def _range_match(cp, lo: int, hi: int, ic: bool):
    base = z3.And(cp >= lo, cp <= hi)
    if not ic:
        return base
    sw = _swap_ascii(cp)
    out = [base, z3.And(sw >= lo, sw <= hi)]
    if lo <= 107 <= hi or lo <= 75 <= hi:
        out.append(cp == 0x212A)
    if lo <= 115 <= hi or lo <= 83 <= hi:
        out.append(cp == 0x17F)
    if hi > 127 and ic:
        # non-ASCII case folding inside a range is outside the assumed semantics
        raise NotImplementedError("case-insensitive range reaching beyond ASCII")
    return z3.Or(*out)


def _split_props(pattern: str) -> tuple[str, dict[str, str]]:
    """Replace \\p{..} by private-use placeholders the stdlib parser accepts."""
    table: dict[str, str] = {}

    def sub(m: re.Match[str]) -> str:
        ch = chr(0xF0000 + len(table))
        table[ch] = m.group(0)
        return ch

    return PROP_RE.sub(sub, pattern), table


def split_alternatives(pattern: str) -> tuple[list[str], bool] | None:
    """`(?:a|b|c)` or `(?:a|b|c)*` -> (['a','b','c'], repeated); None if the pattern is not of that shape.
    (the stdlib parser factors common prefixes out of a branch, so the alternatives are split textually)"""
    repeated = False
    body = pattern
    if body.startswith("(?:") and body.endswith(")*"):
        body, repeated = body[3:-2], True
    elif body.startswith("(?:") and body.endswith(")"):
        body = body[3:-1]
    else:
        return None
    alts, cur, depth, in_class, i = [], "", 0, False, 0
    while i < len(body):
        ch = body[i]
        if ch == "\\" and i + 1 < len(body):
            cur += body[i : i + 2]
            i += 2
            continue
        if in_class:
            if ch == "]":
                in_class = False
        elif ch == "[":
            in_class = True
        elif ch == "(":
            depth += 1
        elif ch == ")":
            depth -= 1
            if depth < 0:
                return None
        elif ch == "|" and depth == 0:
            alts.append(cur)
            cur = ""
            i += 1
            continue
        cur += ch
        i += 1
    if depth != 0 or in_class:
        return None
    alts.append(cur)
    return alts, repeated


def parse(pattern: str, ignore_case: bool = False) -> Parsed:  # noqa: C901, PLR0912
    sp_alts = split_alternatives(pattern)
    if sp_alts is not None and len(sp_alts[0]) > 1:
        parts = [parse(a, ignore_case) for a in sp_alts[0]]
        return Parsed("alt", parts=parts, repeat=sp_alts[1], ignore_case=ignore_case)
    text, props = _split_props(pattern)
    try:
        tree = sp.parse(text, re.I if ignore_case else 0)
    except Exception:  # noqa: BLE001
        return Parsed("opaque")
    items = list(tree)
    repeat = False
    if len(items) == 1 and items[0][0] is sc.MAX_REPEAT and items[0][1][0] == 0 and items[0][1][1] == sc.MAXREPEAT:
        items = list(items[0][1][2])
        repeat = True
    if len(items) == 1 and items[0][0] is sc.SUBPATTERN and items[0][1][0] is None and not repeat:
        pass
    # unwrap a non-capturing group
    if len(items) == 1 and items[0][0] is sc.SUBPATTERN:
        _g, add, _dl, sub = items[0][1]
        if add & re.I:
            ignore_case = True
        items = list(sub)

    def one(item, ic):
        op, av = item
        if op is sc.LITERAL:
            if chr(av) in props:
                return ("prop", props[chr(av)])
            return ("cp", lambda cp, av=av, ic=ic: _lit_match(cp, av, ic))
        if op is sc.IN:
            neg = False
            fs = []
            prs = []
            for o2, a2 in av:
                if o2 is sc.NEGATE:
                    neg = True
                elif o2 is sc.LITERAL:
                    if chr(a2) in props:
                        prs.append(props[chr(a2)])
                    else:
                        fs.append(lambda cp, a2=a2, ic=ic: _lit_match(cp, a2, ic))
                elif o2 is sc.RANGE:
                    fs.append(lambda cp, a2=a2, ic=ic: _range_match(cp, a2[0], a2[1], ic))
                else:
                    return ("opaque", None)
            if prs:
                return ("opaque", None)
            f = lambda cp, fs=fs: z3.Or(*[g(cp) for g in fs]) if fs else z3.BoolVal(False)  # noqa: E731
            if neg:
                return ("cp", lambda cp, f=f: z3.Not(f(cp)))
            return ("cp", f)
        if op is sc.ANY:
            return ("cp", lambda cp: cp != 10)
        return ("opaque", None)

    def seq_kind(seq, ic):
        seq = list(seq)
        if len(seq) == 1:
            if seq[0][0] is sc.SUBPATTERN:
                _g, add, _dl, sub = seq[0][1]
                return seq_kind(sub, ic or bool(add & re.I))
            k, v = one(seq[0], ic)
            if k == "cp":
                return Parsed("class1", accepts=v, ignore_case=ic)
            if k == "prop":
                return Parsed("prop", props=(v,))
            return Parsed("opaque")
        if all(it[0] is sc.LITERAL and chr(it[1]) not in props for it in seq):
            return Parsed("literal", literal="".join(chr(it[1]) for it in seq), ignore_case=ic)
        return Parsed("opaque")

    if len(items) == 1 and items[0][0] is sc.BRANCH:
        parts = [seq_kind(alt, ignore_case) for alt in items[0][1][1]]
        return Parsed("alt", parts=parts, repeat=repeat, ignore_case=ignore_case)
    r = seq_kind(items, ignore_case)
    r.repeat = repeat
    return r


def in_domain(cp):
    return z3.And(cp >= 0, cp <= MAXCP)


def decide_class(accepts, definition, timeout_ms: int = 20000) -> tuple[str, int | None]:
    """forall cp in [0, 0x10FFFF]: accepts(cp) <=> definition(cp) ?  -> ('proved', None) | ('refuted', cp) | ('undecided', None)"""
    cp = z3.Int("cp")
    s = z3.Solver()
    s.set("timeout", timeout_ms)
    s.add(in_domain(cp), accepts(cp) != definition(cp))
    r = s.check()
    if r == z3.unsat:
        return "proved", None
    if r == z3.sat:
        return "refuted", s.model()[cp].as_long()
    return "undecided", None
