"""Path enumeration for one function under one contract instance."""
from __future__ import annotations

import traceback
from dataclasses import dataclass, field
from typing import Any

import z3

from .engine import Engine, Infeasible, Obligation, OutOfDialect, PathEnd, PyExc, Run


class FunctionSpec:
    """Base class of sidecar contracts.

    target   qualified name of the real function
    label    obligation prefix (defaults to target; contract instances add a suffix)
    setup    build the symbolic pre-state on `run`, assume `requires`; return (recv, args, kwargs)
    post     emit obligations for a normal exit (`out` = return value)
    post_exc emit obligations / accept an exceptional exit
    raises   exception names that may escape
    loops    {ordinal: LoopSpec}
    inline   qualified names the executor may inline for this function
    summaries {qualname: callable(run, recv, args, kwargs)} contracts used at call sites
    """

    target: str = ""
    label: str | None = None
    raises: tuple[str, ...] = ()
    loops: dict[Any, Any] = {}
    inline: tuple[str, ...] = ()
    summaries: dict[str, Any] = {}
    constructors: dict[str, Any] = {}
    max_paths = 4000

    def setup(self, run: Run) -> tuple[Any, list[Any], dict[str, Any]]:
        raise NotImplementedError

    def post(self, run: Run, pre: Any, out: Any) -> None:
        pass

    def post_exc(self, run: Run, pre: Any, exc: PyExc) -> None:
        if exc.name in self.raises:
            return
        run.oblige(f"noraise.{exc.name}", False, note=exc.detail)

    def source(self, engine: Engine):  # the FuncInfo verified; override for emitted code
        return engine.program.funcs[self.target]


@dataclass
class FunctionResult:
    label: str
    target: str
    sha: str
    obligations: list[Obligation] = field(default_factory=list)
    paths: int = 0
    exits: int = 0
    out_of_reach: str | None = None
    inlined: set[str] = field(default_factory=set)
    summaries: set[str] = field(default_factory=set)
    assumed: set[str] = field(default_factory=set)
    error: str | None = None


def verify(engine: Engine, spec: FunctionSpec) -> FunctionResult:
    label = spec.label or spec.target
    try:
        fi = spec.source(engine)
    except KeyError:
        return FunctionResult(label, spec.target, "", out_of_reach=f"function {spec.target} not found in the tree")
    res = FunctionResult(label, spec.target, fi.sha)
    script: list[int] = []
    seen: dict[str, Obligation] = {}
    while True:
        run = Run(engine, script, label, spec)
        res.paths += 1
        try:
            pre_state = None
            if hasattr(spec, "direct"):
                # obligations stated directly over artefacts the real code produced (pattern texts, trees)
                spec.direct(run)
                res.exits += 1
                raise PathEnd
            recv, args, kwargs = spec.setup(run)
            run.pc_base = len(run.pc)  # hypotheses up to here are the function's preconditions (see Loop.merge)
            pre_state = getattr(run, "pre", None)
            try:
                out = run.call_function(fi, recv, args, kwargs, None)
            except PyExc as e:
                res.exits += 1
                run.oblige("cover.exit", True)
                spec.post_exc(run, pre_state, e)
            else:
                res.exits += 1
                run.oblige("cover.exit", True)
                spec.post(run, pre_state, out)
        except Infeasible:
            pass
        except PathEnd:
            pass
        except OutOfDialect as e:
            res.out_of_reach = str(e)
            res.obligations = []
            return res
        except TypeError as e:
            if "cannot convert <unbound>" in str(e):
                # the contract (an invariant, a post-condition) reads a local of the function that is not assigned on this path:
                # the code was restructured under the contract - stale contract, undecided (never a violation, never a crash)
                res.out_of_reach = "contract stale: it reads a local variable that is unbound on this path (the function was restructured)"
                res.obligations = []
                return res
            if "cannot convert" in str(e) and "to z3" in str(e):
                # the code hands the contract's model a value of a kind it does not describe (e.g. a tuple where the
                # representation invariant speaks of an int): the function is outside the contract's reach - undecided
                res.out_of_reach = f"value outside the contract's model of the data ({str(e)[:120]})"
                res.obligations = []
                return res
            res.error = traceback.format_exc()
            res.obligations = []
            return res
        except Exception:  # noqa: BLE001
            res.error = traceback.format_exc()
            res.obligations = []
            return res
        for o in run.obls:
            if o.name not in seen:
                seen[o.name] = o
        res.inlined |= run.inlined
        res.summaries |= run.used_summaries
        res.assumed |= set(run.assumed)
        d = list(run.decisions)
        while d and d[-1][0] + 1 >= d[-1][1]:
            d.pop()
        if not d:
            break
        script = [c for c, _, _ in d[:-1]] + [d[-1][0] + 1]
        if res.paths > spec.max_paths:
            res.out_of_reach = f"path explosion (> {spec.max_paths} paths)"
            res.obligations = []
            return res
    res.obligations = list(seen.values())
    # trivial filter: goals that are literally True need no solver but still count
    return res


def is_trivially_true(o: Obligation) -> bool:
    return z3.is_true(z3.simplify(o.goal))
