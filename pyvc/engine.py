"""pyvc executor: path-by-path symbolic execution of real function ASTs over z3 terms.

Strategy: *deterministic re-execution*.  A path is a list of decisions ("script").
The function is executed in direct style; whenever execution depends on a symbolic
condition `Run.branch` consults the script (or takes option 0 and records the arity).
The driver enumerates all scripts depth-first.  Fresh symbol names are a function of
the decision prefix, so re-executing a prefix rebuilds identical terms.

Obligations are recorded with the path condition at the point of emission.
Nothing here decides anything: `solve.py` discharges the obligations.
"""
from __future__ import annotations

import ast
from dataclasses import dataclass, field
from typing import Any, Callable

import z3

from .intake import FuncInfo, Program
from .sorts import IntPair, OptInt, OptStr, sort_of
from .values import (
    BoundMethod,
    BuiltinV,
    Child,
    ChildList,
    ClassV,
    EnumV,
    FuncV,
    ModuleV,
    Opaque,
    Ref,
    SeqV,
    SliceV,
    Sym,
    Unknown,
    empty_seq,
    kind_of,
    unit,
    wrap,
    z,
)


class Poison:
    """a local whose pre-loop value was dropped when paths were merged at a loop head"""

    def __init__(self, name: str):
        self.name = name


_MUTATORS = frozenset(
    "add append clear discard extend insert pop popitem remove reverse setdefault sort update "
    "appendleft popleft extendleft rotate __setitem__ __delitem__ move_to_end".split()
)


# ------------------------------------------------------------------ control signals
class Infeasible(Exception):
    """Path condition became unsatisfiable: drop the path."""


class PathEnd(Exception):
    """Path deliberately terminated (loop back-edge after invariant check)."""


class OutOfDialect(Exception):
    """The function uses a construct the executor does not model."""

    def __init__(self, msg: str, node: ast.AST | None = None):
        line = getattr(node, "lineno", "?")
        super().__init__(f"{msg} (line {line})")


class PyExc(Exception):
    """A Python exception raised by the code under verification."""

    def __init__(self, name: str, detail: str = "", payload: Any = None):
        super().__init__(f"{name}: {detail}")
        self.name = name
        self.detail = detail
        self.payload = payload


class _Return(Exception):
    def __init__(self, value: Any):
        self.value = value


class _Break(Exception):
    pass


class _Continue(Exception):
    pass


# ------------------------------------------------------------------ data
@dataclass
class Obligation:
    name: str
    fn: str
    clause: str
    trace: str
    hyps: list[z3.BoolRef]
    goal: z3.BoolRef
    watch: dict[str, z3.ExprRef] = field(default_factory=dict)
    note: str = ""


@dataclass
class Frame:
    fi: FuncInfo | None
    env: dict[str, Any]
    module: str
    loop_ord: int = 0


class Heap:
    def __init__(self) -> None:
        self.objs: dict[int, dict[str, Any]] = {}
        self.next = 1

    def alloc(self, cls: str, fields: dict[str, Any] | None = None, fresh: bool = True) -> Ref:
        oid = self.next
        self.next += 1
        d = {"$cls": cls, "$fresh": fresh}
        if fields:
            d.update(fields)
        self.objs[oid] = d
        return Ref(oid)

    def alloc_list(self, seq: z3.ExprRef, ek: str, fresh: bool = True) -> Ref:
        return self.alloc("list", {"seq": seq, "ek": ek}, fresh)

    def snapshot(self) -> dict[int, dict[str, Any]]:
        return {k: dict(v) for k, v in self.objs.items()}


BUILTINS = {
    "len", "isinstance", "reversed", "enumerate", "list", "int", "str", "chr", "ord", "max", "min",
    "range", "tuple", "slice", "repr", "bool", "iter", "sorted", "all", "any", "abs", "super", "hash",
    "set", "dict", "zip", "print", "getattr", "hasattr", "type", "id", "sum", "frozenset",
}
EXC_NAMES = {
    "IndexError", "KeyError", "AssertionError", "ValueError", "TypeError", "SyntaxError", "RuntimeError",
    "UnboundLocalError", "Exception", "StopIteration", "NotImplementedError", "AttributeError",
}


class Engine:
    """Holds the program, the registered summaries/inline list and feasibility cache."""

    def __init__(self, program: Program):
        self.program = program
        self.summaries: dict[str, Callable[..., Any]] = {}
        self.inline: set[str] = set()
        self.constructors: dict[str, Callable[..., Any]] = {}
        self.feas_cache: dict[tuple, bool] = {}
        self.merged_heads: dict[tuple, tuple] = {}
        self.feas_timeout_ms = 2000
        self.axiom_hooks: list[Callable[["Run", z3.ExprRef], None]] = []

    def summary(self, qual: str) -> Callable[[Callable[..., Any]], Callable[..., Any]]:
        def deco(f: Callable[..., Any]) -> Callable[..., Any]:
            self.summaries[qual] = f
            return f

        return deco


class Run:
    """One path execution."""

    def __init__(self, engine: Engine, script: list[int], fn_label: str, spec: Any = None):
        self.engine = engine
        self.program = engine.program
        self.script = list(script)
        self.decisions: list[tuple[int, int, str]] = []
        self.pc: list[z3.BoolRef] = []
        self.heap = Heap()
        self.obls: list[Obligation] = []
        self.frames: list[Frame] = []
        self.solver = z3.Solver()
        self.solver.set("timeout", engine.feas_timeout_ms)
        self.counters: dict[str, int] = {}
        self.fn_label = fn_label
        self.spec = spec
        self.ghost: dict[str, Any] = {}
        self.inlined: set[str] = set()
        self.used_summaries: set[str] = set()
        self.assumed: list[str] = []
        self.writes: list[tuple[int, str]] | None = None  # write log when inside a loop body
        self.all_writes: list[tuple[int, str]] = []
        self.loop_idx: Any = None
        self.loop_phase = ""
        self.unbound: set[str] = set()

    # -------------------------------------------------------------- symbols
    def fresh(self, name: str, kind: str) -> Sym:
        n = self.counters.get(name, 0)
        self.counters[name] = n + 1
        tr = self.trace_key()
        return Sym(z3.Const(f"{name}!{n}{tr}", sort_of(kind)), kind)

    def fresh_t(self, name: str, kind: str) -> z3.ExprRef:
        return self.fresh(name, kind).t

    def trace_key(self) -> str:
        # fresh names depend on decisions taken so far: deterministic under re-execution
        return "" if not self.decisions else "@" + "".join(str(c) for c, _, _ in self.decisions)

    def trace(self) -> str:
        return ".".join(f"{lab}={c}" for c, _, lab in self.decisions) or "-"

    # -------------------------------------------------------------- decisions
    def choose(self, arity: int, label: str) -> int:
        i = len(self.decisions)
        c = self.script[i] if i < len(self.script) else 0
        self.decisions.append((c, arity, label))
        return c

    def assume_def(self, f: Any) -> None:
        """a definitional fact (unfolding of a Spec function): a hypothesis of every later obligation, but kept out of the
        path-feasibility solver (string-heavy unfoldings make every feasibility query slow).  A path that is infeasible
        only because of such facts is explored anyway; its exit cover is then unsat (a *dead path*, see report.py)."""
        if isinstance(f, bool):
            return
        self.pc.append(f)

    def assume(self, f: Any, why: str | None = None) -> None:
        if isinstance(f, bool):
            if not f:
                raise Infeasible
            if why:
                self.assumed.append(why)
            return
        self.pc.append(f)
        self.solver.add(f)
        if why:
            self.assumed.append(why)

    def feasible(self) -> bool:
        key = (self.fn_label, tuple(c for c, _, _ in self.decisions), len(self.pc))
        hit = self.engine.feas_cache.get(key)
        if hit is not None:
            return hit
        r = self.solver.check()
        ok = r != z3.unsat
        self.engine.feas_cache[key] = ok
        return ok

    def branch(self, cond: Any, label: str) -> bool:
        """Decide a (possibly symbolic) condition; forks the path when symbolic."""
        if isinstance(cond, bool):
            return cond
        c = z3.simplify(cond)
        if z3.is_true(c):
            return True
        if z3.is_false(c):
            return False
        if "seq.nth_" in c.sexpr():
            c = cond  # keep z3-internal symbols out of the path condition (cvc5 portability)
        i = self.choose(2, label)
        self.assume(c if i == 0 else z3.Not(c))
        if not self.feasible():
            raise Infeasible
        return i == 0

    # -------------------------------------------------------------- obligations
    def oblige(self, clause: str, goal: Any, watch: dict[str, Any] | None = None, note: str = "") -> None:
        if isinstance(goal, bool):
            goal = z3.BoolVal(goal)
        w = {}
        for k, v in (watch or {}).items():
            try:
                w[k] = z(v)
            except TypeError:
                pass
        tr = self.trace()
        self.obls.append(
            Obligation(f"{self.fn_label}::{clause}@{tr}", self.fn_label, clause, tr, list(self.pc), goal, w, note)
        )

    def oblige_lemma(self, name: str, formula: Any) -> None:
        """A side lemma proved on its own (no hypotheses); instances of it may then be assumed."""
        self.obls.append(Obligation(f"{self.fn_label}::lemma.{name}@-", self.fn_label, f"lemma.{name}", "-", [], formula))

    # -------------------------------------------------------------- heap helpers
    def obj(self, r: Ref) -> dict[str, Any]:
        return self.heap.objs[r.oid]

    def cls_of(self, r: Ref) -> str:
        return self.heap.objs[r.oid]["$cls"]

    def is_list(self, v: Any) -> bool:
        return isinstance(v, Ref) and self.cls_of(v) == "list"

    def seq(self, r: Ref) -> z3.ExprRef:
        return self.obj(r)["seq"]

    def ek(self, r: Ref) -> str:
        return self.obj(r)["ek"]

    def set_seq(self, r: Ref, t: z3.ExprRef) -> None:
        self.note_write(r.oid, "seq")
        self.obj(r)["seq"] = t

    def getf(self, r: Ref, f: str) -> Any:
        return self.obj(r)[f]

    def setf(self, r: Ref, f: str, v: Any) -> None:
        self.note_write(r.oid, f)
        self.obj(r)[f] = v

    def note_write(self, oid: int, f: str) -> None:
        self.all_writes.append((oid, f))
        if self.writes is not None:
            self.writes.append((oid, f))

    def new_list(self, ek: str, seq: z3.ExprRef | None = None, fresh: bool = True) -> Ref:
        return self.heap.alloc_list(seq if seq is not None else empty_seq(ek), ek, fresh)

    # -------------------------------------------------------------- frames / names
    @property
    def frame(self) -> Frame:
        return self.frames[-1]

    def lookup(self, name: str, node: ast.AST) -> Any:
        fr = self.frame
        if name in fr.env:
            v = fr.env[name]
            if v is _UNBOUND:
                raise PyExc("UnboundLocalError", name)
            if isinstance(v, Poison):
                raise OutOfDialect(f"local {name} is read after a merged loop head (name it in Loop.keep)", node)
            return v
        mi = self.program.modules.get(fr.module)
        if getattr(self.spec, "template_names", False):
            h = getattr(self.spec, "resolve_name", None)
            r = h(self, name) if h is not None else NotImplemented
            if r is not NotImplemented:
                return r
        if mi and name in mi.names:
            return self._module_name(mi.name, name, node)
        if name in BUILTINS:
            return BuiltinV(name)
        if name in EXC_NAMES:
            return ClassV("exc:" + name)
        if name in ("True", "False", "None"):
            return {"True": True, "False": False, "None": None}[name]
        h = getattr(self.spec, "resolve_name", None)
        if h is not None:
            r = h(self, name)
            if r is not NotImplemented:
                return r
        raise OutOfDialect(f"unresolved name {name}", node)

    def _module_name(self, mod: str, name: str, node: ast.AST) -> Any:
        mi = self.program.modules[mod]
        kind, tgt = mi.names[name]
        if kind == "class":
            return ClassV(str(tgt))
        if kind == "func":
            return FuncV(str(tgt))
        if kind == "module":
            return ModuleV(str(tgt))
        if kind == "constexpr":
            return self._const_eval(mod, tgt, node)
        if kind == "constexpr_in":
            m2, ex = tgt
            return self._const_eval(m2, ex, node)
        if kind == "external":
            return ModuleV(str(tgt))
        raise OutOfDialect(f"cannot resolve module name {name} ({kind})", node)

    def _const_eval(self, mod: str, ex: ast.expr, node: ast.AST) -> Any:
        # module-level constant: evaluate in a throw-away frame of that module
        self.frames.append(Frame(None, {}, mod))
        try:
            return self.eval(ex)
        finally:
            self.frames.pop()

    # ================================================================== expressions
    def eval(self, n: ast.expr) -> Any:  # noqa: C901, PLR0911, PLR0912
        m = getattr(self, "e_" + type(n).__name__, None)
        if m is None:
            raise OutOfDialect(f"expression {type(n).__name__}", n)
        return m(n)

    def e_Constant(self, n: ast.Constant) -> Any:
        if n.value is Ellipsis:
            return Opaque("...")
        return n.value

    def e_Name(self, n: ast.Name) -> Any:
        return self.lookup(n.id, n)

    def e_NamedExpr(self, n: ast.NamedExpr) -> Any:
        v = self.eval(n.value)
        self.frame.env[n.target.id] = v
        return v

    def e_Tuple(self, n: ast.Tuple) -> Any:
        return tuple(self.eval(e) for e in n.elts)

    def e_List(self, n: ast.List) -> Any:
        vals = [self.eval(e) for e in n.elts]
        if not vals:
            return self.heap.alloc("list", {"seq": None, "ek": None})  # kind fixed on first use
        ek = kind_of(vals[0])
        t = z3.Concat(*[unit(v, ek) for v in vals]) if len(vals) > 1 else unit(vals[0], ek)
        return self.new_list(ek, t)

    def e_JoinedStr(self, n: ast.JoinedStr) -> Any:
        parts = []
        for v in n.values:
            if isinstance(v, ast.Constant):
                parts.append(v.value)
            else:
                assert isinstance(v, ast.FormattedValue)
                val = self.eval(v.value)
                if v.conversion == 114:  # !r
                    val = self.call_builtin("repr", [val], {}, n)
                else:
                    val = self.call_builtin("str", [val], {}, n)
                parts.append(val)
        if all(isinstance(p, str) for p in parts):
            return "".join(parts)
        if all(isinstance(p, str) or (isinstance(p, Sym) and p.k == "str") for p in parts):
            ts = [z(p) for p in parts]
            return Sym(z3.Concat(*ts) if len(ts) > 1 else ts[0], "str")
        return Opaque("fstring")

    def e_IfExp(self, n: ast.IfExp) -> Any:
        if self.branch(self.truth(self.eval(n.test)), f"ifexp{n.lineno - self._l0()}"):
            return self.eval(n.body)
        return self.eval(n.orelse)

    def e_BoolOp(self, n: ast.BoolOp) -> Any:
        is_and = isinstance(n.op, ast.And)
        v: Any = None
        for i, e in enumerate(n.values):
            v = self.eval(e)
            if i == len(n.values) - 1:
                return v
            t = self.branch(self.truth(v), f"bool{n.lineno - self._l0()}_{i}")
            if is_and and not t:
                return v
            if not is_and and t:
                return v
        return v

    def e_UnaryOp(self, n: ast.UnaryOp) -> Any:
        v = self.eval(n.operand)
        if isinstance(n.op, ast.Not):
            t = self.truth(v)
            return (not t) if isinstance(t, bool) else wrap(z3.Not(t), "bool")
        if isinstance(n.op, ast.USub):
            if isinstance(v, int):
                return -v
            if isinstance(v, Sym) and v.k == "int":
                return wrap(-v.t, "int")
        if isinstance(n.op, ast.UAdd) and isinstance(v, (int, Sym)):
            return v
        raise OutOfDialect("unary op", n)

    def e_BinOp(self, n: ast.BinOp) -> Any:
        return self.binop(n.op, self.eval(n.left), self.eval(n.right), n)

    def binop(self, op: ast.operator, a: Any, b: Any, n: ast.AST) -> Any:  # noqa: C901, PLR0911, PLR0912
        hb = getattr(self.spec, "binop", None)
        if hb is not None:
            rb = hb(self, op, a, b, n)
            if rb is not NotImplemented:
                return rb
        if isinstance(a, Ref) and not self.is_list(a):
            name = {ast.Add: "__add__", ast.Sub: "__sub__", ast.Mult: "__mul__"}.get(type(op))
            if name and self.program.find_method(self.cls_of(a), name):
                return self.call_method(a, name, [b], {}, n)
        if isinstance(a, (int, bool)) and isinstance(b, (int, bool)) and not isinstance(op, ast.Div):
            try:
                return _PYOPS[type(op)](a, b)
            except KeyError:
                raise OutOfDialect("int op", n) from None
            except ZeroDivisionError:
                raise PyExc("ZeroDivisionError") from None
        ka = self._kind(a)
        kb = self._kind(b)
        if ka == "int" and kb == "int":
            x, y = z(a), z(b)
            if isinstance(op, ast.Add):
                return wrap(x + y, "int")
            if isinstance(op, ast.Sub):
                return wrap(x - y, "int")
            if isinstance(op, ast.Mult):
                return wrap(x * y, "int")
            if isinstance(op, ast.FloorDiv) and isinstance(b, int) and b > 0:
                return wrap(x / y, "int")  # z3 int division = floor for positive divisor
            if isinstance(op, ast.Mod) and isinstance(b, int) and b > 0:
                return wrap(x % y, "int")
            raise OutOfDialect(f"symbolic int op {type(op).__name__}", n)
        if ka == "str" and kb == "str" and isinstance(op, ast.Add):
            if isinstance(a, str) and isinstance(b, str):
                return a + b
            return Sym(z3.Concat(z(a), z(b)), "str")
        if ka == "str" and kb == "int" and isinstance(op, ast.Mult):
            if isinstance(a, str) and isinstance(b, int):
                return a * b
            return Opaque("str*int")
        if isinstance(op, ast.Add) and (self.is_list(a) or isinstance(a, SeqV)) and (
            self.is_list(b) or isinstance(b, SeqV)
        ):
            ta, ea = self.as_seq(a, n)
            tb, eb = self.as_seq(b, n, ea)
            return self.new_list(ea or eb, z3.Concat(ta, tb))
        if isinstance(a, Opaque) or isinstance(b, Opaque):
            return Opaque("binop")
        raise OutOfDialect(f"binop {type(op).__name__} on {ka},{kb}", n)

    def _kind(self, v: Any) -> str:
        try:
            return kind_of(v)
        except TypeError:
            return "?"

    def e_Compare(self, n: ast.Compare) -> Any:
        left = self.eval(n.left)
        result: Any = True
        for i, (op, rn) in enumerate(zip(n.ops, n.comparators)):
            right = self.eval(rn)
            r = self.compare(op, left, right, n)
            if i == len(n.ops) - 1 and result is True:
                return r
            # chained: short-circuit semantics
            if not self.branch(self.truth(r), f"cmp{n.lineno - self._l0()}_{i}"):
                return False
            left = right
        return result

    def compare(self, op: ast.cmpop, a: Any, b: Any, n: ast.AST) -> Any:  # noqa: C901, PLR0911, PLR0912
        if isinstance(op, (ast.Is, ast.IsNot)):
            r = self._is(a, b, n)
            if isinstance(op, ast.IsNot):
                return (not r) if isinstance(r, bool) else wrap(z3.Not(z(r)), "bool")
            return r
        if isinstance(op, (ast.In, ast.NotIn)):
            r = self.contains(b, a, n)
            if isinstance(op, ast.NotIn):
                return (not r) if isinstance(r, bool) else wrap(z3.Not(z(r)), "bool")
            return r
        if isinstance(a, Ref) and not self.is_list(a):
            name = _CMP_DUNDER[type(op)]
            if self.program.find_method(self.cls_of(a), name):
                return self.call_method(a, name, [b], {}, n)
            if isinstance(op, ast.Eq):
                return a == b
            if isinstance(op, ast.NotEq):
                return not (a == b)
        if a is None or b is None:
            if isinstance(op, ast.Eq):
                return self._is(a, b, n)
            if isinstance(op, ast.NotEq):
                r = self._is(a, b, n)
                return (not r) if isinstance(r, bool) else wrap(z3.Not(z(r)), "bool")
        ka, kb = self._kind(a), self._kind(b)
        if _is_py(a) and _is_py(b):
            return _PYCMP[type(op)](a, b)
        if ka == "int" and kb == "int" or (ka == "bool" and kb == "bool" and isinstance(op, (ast.Eq, ast.NotEq))):
            return wrap(_Z3CMP[type(op)](z(a), z(b)), "bool")
        if ka == "str" and kb == "str":
            if isinstance(op, ast.Eq):
                return wrap(z(a) == z(b), "bool")
            if isinstance(op, ast.NotEq):
                return wrap(z(a) != z(b), "bool")
            if isinstance(op, ast.Lt):
                return wrap(z(a) < z(b), "bool")
            if isinstance(op, ast.LtE):
                return wrap(z(a) <= z(b), "bool")
            if isinstance(op, ast.Gt):
                return wrap(z(b) < z(a), "bool")
            if isinstance(op, ast.GtE):
                return wrap(z(b) <= z(a), "bool")
        if ka == kb and ka not in ("?",) and isinstance(op, (ast.Eq, ast.NotEq)):
            t = z(a) == z(b)
            return wrap(t if isinstance(op, ast.Eq) else z3.Not(t), "bool")
        if (ka in ("optstr", "optint") or kb in ("optstr", "optint")) and isinstance(op, (ast.Eq, ast.NotEq)):
            k = ka if ka.startswith("opt") else kb
            t = z(a, k) == z(b, k)
            return wrap(t if isinstance(op, ast.Eq) else z3.Not(t), "bool")
        if ka == "optint" or kb == "optint":
            # ordering comparison with an Optional[int]: TypeError when it is None, else compare the ints
            def unopt(v: Any) -> Any:
                if isinstance(v, Sym) and v.k == "optint":
                    if self.branch(OptInt.is_none_i(v.t), f"cmpNone{self._rel(n)}"):
                        raise PyExc("TypeError", "ordering comparison with None")
                    return Sym(OptInt.ival(v.t), "int")
                return v

            return self.compare(op, unopt(a), unopt(b), n)
        raise OutOfDialect(f"compare {type(op).__name__} on {ka},{kb}", n)

    def _is(self, a: Any, b: Any, n: ast.AST) -> Any:
        if isinstance(a, Unknown) or isinstance(b, Unknown):
            return self.fresh("unk_is", "bool")
        if isinstance(a, Sym) and a.k == "optstr" and b is None:
            return wrap(OptStr.is_none_s(a.t), "bool")
        if isinstance(a, Sym) and a.k == "optint" and b is None:
            return wrap(OptInt.is_none_i(a.t), "bool")
        if isinstance(b, Sym) and b.k.startswith("opt") and a is None:
            return self._is(b, a, n)
        if a is None or b is None:
            return a is None and b is None
        if isinstance(a, Ref) or isinstance(b, Ref):
            return a == b
        if isinstance(a, bool) and isinstance(b, bool):
            return a is b
        if isinstance(a, Sym) and isinstance(b, Sym) and a.k == b.k and a.k in ("rule", "pair"):
            return wrap(a.t == b.t, "bool")
        raise OutOfDialect("`is` on non-reference values", n)

    def contains(self, container: Any, item: Any, n: ast.AST) -> Any:
        if isinstance(container, Unknown):
            return self.fresh("unk_in", "bool")
        h0 = getattr(self.spec, "contains", None)
        if h0 is not None:
            r0 = h0(self, container, item, n)
            if r0 is not NotImplemented:
                return r0
        if isinstance(container, tuple):
            r: Any = False
            for c in container:
                e = self.compare(ast.Eq(), item, c, n)
                if e is True:
                    return True
                if e is False:
                    continue
                r = e if r is False else wrap(z3.Or(z(r), z(e)), "bool")
            return r
        h = getattr(self.spec, "contains", None)
        if h is not None:
            r = h(self, container, item, n)
            if r is not NotImplemented:
                return r
        if isinstance(container, str) and isinstance(item, str):
            return item in container
        if self._kind(container) == "str" and self._kind(item) == "str":
            return wrap(z3.Contains(z(container), z(item)), "bool")
        if self.is_list(container) or isinstance(container, SeqV):
            t, ek = self.as_seq(container, n)
            return wrap(z3.Contains(t, unit(item, ek)), "bool")
        raise OutOfDialect("`in` on unsupported container", n)

    def truth(self, v: Any) -> Any:  # noqa: PLR0911
        """Python truthiness as python bool or z3 Bool."""
        if isinstance(v, Unknown):
            return self.fresh("unk_truth", "bool").t
        if isinstance(v, bool):
            return v
        if v is None:
            return False
        if isinstance(v, (int, str, tuple)):
            return bool(v)
        if isinstance(v, Sym):
            if v.k == "bool":
                return v.t
            if v.k == "int":
                return v.t != 0
            if v.k == "str":
                return z3.Length(v.t) > 0
            if v.k == "optstr":
                return z3.And(OptStr.is_some_s(v.t), z3.Length(OptStr.sval(v.t)) > 0)
            if v.k == "optint":
                return z3.And(OptInt.is_some_i(v.t), OptInt.ival(v.t) != 0)
            return True
        if isinstance(v, SeqV):
            return z3.Length(v.t) > 0
        if isinstance(v, Ref):
            if self.is_list(v):
                if self.seq(v) is None:
                    return False
                return z3.Length(self.seq(v)) > 0
            cls = self.cls_of(v)
            if cls == "dict":
                # the dict abstraction of the contracts: (keys, labels); empty dict is falsy
                return z3.Length(self.obj(v)["keys"]) > 0
            if self.program.find_method(cls, "__bool__"):
                return self.truth(self.call_method(v, "__bool__", [], {}, None))
            if self.program.find_method(cls, "__len__"):
                ln = self.call_method(v, "__len__", [], {}, None)
                return self.truth(ln)
            return True
        if isinstance(v, ChildList):
            return v.n > 0
        if isinstance(v, (Child, BoundMethod, FuncV, ClassV, BuiltinV, ModuleV)):
            return True
        h = getattr(self.spec, "truth", None)
        if h is not None:
            r = h(self, v)
            if r is not NotImplemented:
                return r
        raise OutOfDialect(f"truthiness of {v!r}")

    def e_Attribute(self, n: ast.Attribute) -> Any:
        return self.getattr(self.eval(n.value), n.attr, n)

    def _declared_attr(self, cls: str, attr: str) -> bool:
        """attr is assigned as `self.attr = ...` in some method of the class or a base, or named in __slots__."""
        for ci in self.program.mro(cls):
            node = getattr(ci, "node", None)
            if node is None:
                continue
            for sub in ast.walk(node):
                if isinstance(sub, ast.Attribute) and sub.attr == attr and isinstance(sub.ctx, ast.Store):
                    if isinstance(sub.value, ast.Name) and sub.value.id == "self":
                        return True
                if isinstance(sub, ast.Constant) and sub.value == attr:
                    return True
        return False

    def getattr(self, base: Any, attr: str, n: ast.AST | None) -> Any:  # noqa: C901, PLR0911, PLR0912
        h = getattr(self.spec, "getattr", None)
        if h is not None:
            r = h(self, base, attr, n)
            if r is not NotImplemented:
                return r
        if isinstance(base, Ref):
            o = self.obj(base)
            if o["$cls"] == "list":
                return BoundMethod(base, attr)
            if attr in o:
                v = o[attr]
                if v is _UNBOUND:
                    raise PyExc("AttributeError", attr)
                return v
            fi = self.program.find_method(o["$cls"], attr)
            if fi is not None:
                if "property" in fi.decorators:
                    return self.call_function(fi, base, [], {}, n)
                return BoundMethod(base, attr)
            for ci in self.program.mro(o["$cls"]):
                if attr in ci.consts:
                    self.frames.append(Frame(None, {}, ci.module))
                    try:
                        return self.eval(ci.consts[attr])
                    finally:
                        self.frames.pop()
            if not o.get("$fresh") and self._declared_attr(o["$cls"], attr):
                # a real attribute of a pre-existing object that no contract sets up: arbitrary value
                return Unknown(base.oid, attr)
            raise OutOfDialect(f"attribute {attr} of {o['$cls']} not modelled", n)
        if isinstance(base, (Sym, str, SeqV, Child, tuple)):
            return BoundMethod(base, attr)
        if isinstance(base, ModuleV):
            if base.name in self.program.modules and attr in self.program.modules[base.name].names:
                return self._module_name(base.name, attr, n or ast.Pass())
            return ModuleV(f"{base.name}.{attr}")
        if isinstance(base, ClassV):
            ci = self.program.classes.get(base.qual)
            if ci:
                for c in self.program.mro(base.qual):
                    if attr in c.consts:
                        self.frames.append(Frame(None, {}, c.module))
                        try:
                            return self.eval(c.consts[attr])
                        finally:
                            self.frames.pop()
                    if attr in c.methods:
                        return FuncV(c.methods[attr].qualname)
            raise OutOfDialect(f"class attribute {base.qual}.{attr}", n)
        if isinstance(base, Unknown):
            return Unknown(base.owner, f"{base.path}.{attr}")
        if isinstance(base, Opaque):
            return Opaque(f"{base.what}.{attr}")
        raise OutOfDialect(f"attribute {attr} on {base!r}", n)

    # ---------------------------------------------------------------- sequences
    def as_seq(self, v: Any, n: ast.AST | None, ek_hint: str | None = None) -> tuple[z3.ExprRef, str]:
        if isinstance(v, Ref) and self.is_list(v):
            o = self.obj(v)
            if o["seq"] is None:
                if ek_hint is None:
                    raise OutOfDialect("empty list of unknown element kind", n)
                o["ek"] = ek_hint
                o["seq"] = empty_seq(ek_hint)
            return o["seq"], o["ek"]
        if isinstance(v, SeqV):
            return v.t, v.ek
        if isinstance(v, Ref):
            # user-defined sequence (Stack): iterate its items through __iter__/__getitem__ contracts
            h = getattr(self.spec, "as_seq", None)
            if h is not None:
                r = h(self, v)
                if r is not NotImplemented:
                    return r
        if isinstance(v, tuple):
            if not v:
                if ek_hint is None:
                    raise OutOfDialect("empty tuple of unknown kind", n)
                return empty_seq(ek_hint), ek_hint
            ek = kind_of(v[0])
            ts = [unit(x, ek) for x in v]
            return (z3.Concat(*ts) if len(ts) > 1 else ts[0]), ek
        raise OutOfDialect(f"not a sequence: {v!r}", n)

    def norm_index(self, i: Any, ln: z3.ExprRef, n: ast.AST | None, what: str = "index") -> z3.ExprRef:
        """Python index normalisation with IndexError fork."""
        it = z(i, "int")
        ok = z3.And(it >= -ln, it < ln)
        if not self.branch(ok, f"{what}ok{self._rel(n)}"):
            raise PyExc("IndexError", what)
        return _simp(z3.If(it < 0, it + ln, it))

    def clamp(self, i: Any, ln: z3.ExprRef, default: z3.ExprRef) -> z3.ExprRef:
        if i is None:
            return default
        if isinstance(i, Sym) and i.k == "optint":
            v = OptInt.ival(i.t)
            return z3.If(OptInt.is_none_i(i.t), default, self.clamp(Sym(v, "int"), ln, default))
        it = z(i, "int")
        return _simp(z3.If(it < 0, z3.If(it + ln < 0, 0, it + ln), z3.If(it > ln, ln, it)))

    def slice_seq(self, t: z3.ExprRef, lo: Any, hi: Any) -> z3.ExprRef:
        ln = z3.Length(t)
        a = self.clamp(lo, ln, z3.IntVal(0))
        b = self.clamp(hi, ln, ln)
        return z3.SubSeq(t, a, _simp(z3.If(b - a < 0, 0, b - a)))

    def e_Subscript(self, n: ast.Subscript) -> Any:  # noqa: C901, PLR0911, PLR0912
        base = self.eval(n.value)
        if isinstance(base, ClassV):
            return base  # Generic[...] subscription (Stack[Rule | RuleFrame]): the type arguments are not evaluated
        if isinstance(n.slice, ast.Slice):
            if n.slice.step is not None:
                raise OutOfDialect("slice step", n)
            lo = self.eval(n.slice.lower) if n.slice.lower else None
            hi = self.eval(n.slice.upper) if n.slice.upper else None
            return self.getslice(base, lo, hi, n)
        idx = self.eval(n.slice)
        if isinstance(idx, SliceV):
            return self.getslice(base, idx.lo, idx.hi, n)
        return self.getitem(base, idx, n)

    def getslice(self, base: Any, lo: Any, hi: Any, n: ast.AST) -> Any:
        if isinstance(base, str) and _is_py(lo) and _is_py(hi):
            return base[lo:hi]
        if self._kind(base) == "str":
            return Sym(self.slice_seq(z(base), lo, hi), "str")
        if isinstance(base, Ref) and not self.is_list(base):
            return self.call_method(base, "__getitem__", [SliceV(lo, hi)], {}, n)
        t, ek = self.as_seq(base, n)
        r = self.slice_seq(t, lo, hi)
        if isinstance(base, SeqV):
            return SeqV(r, ek)
        return self.new_list(ek, r)

    def getitem(self, base: Any, idx: Any, n: ast.AST) -> Any:
        if isinstance(base, Unknown):
            return Unknown(base.owner, base.path + "[]")
        if isinstance(base, ClassV):
            return base  # Generic[...] subscription: Stack[str] is Stack
        if isinstance(base, tuple) and isinstance(idx, int) and not (base and isinstance(base[0], str) and base[0].startswith("$")):
            try:
                return base[idx]
            except IndexError:
                raise PyExc("IndexError", "tuple index out of range") from None
        if isinstance(base, str) and isinstance(idx, int):
            try:
                return base[idx]
            except IndexError:
                raise PyExc("IndexError", "string index") from None
        if self._kind(base) == "str":
            t = z(base)
            k = self.norm_index(idx, z3.Length(t), n, "stridx")
            return Sym(z3.SubString(t, k, 1), "str")
        if isinstance(base, Ref) and not self.is_list(base):
            h = getattr(self.spec, "getitem", None)
            if h is not None:
                r = h(self, base, idx, n)
                if r is not NotImplemented:
                    return r
            return self.call_method(base, "__getitem__", [idx], {}, n)
        if self.is_list(base) or isinstance(base, SeqV):
            t, ek = self.as_seq(base, n)
            k = self.norm_index(idx, z3.Length(t), n)
            return wrap(t[k], ek)
        h = getattr(self.spec, "getitem", None)
        if h is not None:
            r = h(self, base, idx, n)
            if r is not NotImplemented:
                return r
        raise OutOfDialect(f"subscript of {base!r}", n)

    def e_Slice(self, n: ast.Slice) -> Any:
        return SliceV(self.eval(n.lower) if n.lower else None, self.eval(n.upper) if n.upper else None)

    def e_ListComp(self, n: ast.ListComp) -> Any:
        h = getattr(self.spec, "listcomp", None)
        if h is not None:
            r = h(self, n)
            if r is not NotImplemented:
                return r
        raise OutOfDialect("list comprehension", n)

    def e_GeneratorExp(self, n: ast.GeneratorExp) -> Any:
        h = getattr(self.spec, "listcomp", None)
        if h is not None:
            r = h(self, n)
            if r is not NotImplemented:
                return r
        raise OutOfDialect("generator expression", n)

    def e_Dict(self, n: ast.Dict) -> Any:
        h = getattr(self.spec, "dict_display", None)
        if h is not None:
            if any(k is None for k in n.keys):
                raise OutOfDialect("dict unpacking", n)
            r = h(self, [(self.eval(k), self.eval(v)) for k, v in zip(n.keys, n.values)], n)
            if r is not NotImplemented:
                return r
        if not n.keys:
            return Opaque("emptydict")
        raise OutOfDialect("dict display", n)

    def e_Lambda(self, n: ast.Lambda) -> Any:
        return Opaque("lambda")

    def e_Starred(self, n: ast.Starred) -> Any:
        raise OutOfDialect("starred", n)

    # ---------------------------------------------------------------- calls
    def e_Call(self, n: ast.Call) -> Any:
        f = self.eval(n.func)
        args = []
        for a in n.args:
            if isinstance(a, ast.Starred):
                # f(x, *ys): handed on as a marker; only constructor contracts (spec.constructors) accept it
                args.append(("$star", self.eval(a.value)))
                continue
            args.append(self.eval(a))
        kwargs = {}
        for k in n.keywords:
            if k.arg is None:
                raise OutOfDialect("**kwargs", n)
            kwargs[k.arg] = self.eval(k.value)
        return self.call(f, args, kwargs, n)

    def call(self, f: Any, args: list[Any], kwargs: dict[str, Any], n: ast.AST | None) -> Any:  # noqa: PLR0911
        if not isinstance(f, ClassV) and any(isinstance(a, tuple) and a and a[0] == "$star" for a in args):
            # star-args reach only constructor contracts and external-call contracts of the spec (which must accept the marker)
            is_super = isinstance(f, BoundMethod) and isinstance(f.recv, tuple) and f.recv and f.recv[0] == "$super"
            if not ((isinstance(f, ModuleV) and getattr(self.spec, "call_external", None) is not None) or is_super):
                raise OutOfDialect("star-args", n)
        if isinstance(f, LocalFn):
            h = getattr(self.spec, "call_local", None)
            if h is not None:
                r = h(self, f, args, kwargs, n)
                if r is not NotImplemented:
                    return r
            fi = FuncInfo(f"{f.frame.fi.qualname if f.frame.fi else '?'}.<locals>.{f.node.name}", f.frame.module, None, f.node, "", [])
            outer = f.frame.env
            saved = dict(outer)
            res = self.call_function(fi, None, args, kwargs, n, closure=outer)
            return res
        if isinstance(f, Unknown):
            # a call through an unmodelled attribute of a shared object: a mutator name is a write to the owner
            if f.path.rsplit(".", 1)[-1] in _MUTATORS:
                self.note_write(f.owner, f.path)
            return Unknown(f.owner, f.path + "()")
        if isinstance(f, BuiltinV):
            return self.call_builtin(f.name, args, kwargs, n)
        if isinstance(f, BoundMethod):
            return self.call_method(f.recv, f.name, args, kwargs, n)
        if isinstance(f, FuncV):
            return self.call_qual(f.qual, None, args, kwargs, n)
        if isinstance(f, ClassV):
            return self.construct(f.qual, args, kwargs, n)
        if isinstance(f, ModuleV):
            h = getattr(self.spec, "call_external", None)
            if h is not None:
                r = h(self, f.name, args, kwargs, n)
                if r is not NotImplemented:
                    return r
            raise OutOfDialect(f"call to external {f.name}", n)
        h = getattr(self.spec, "call_value", None)
        if h is not None:
            r = h(self, f, args, kwargs, n)
            if r is not NotImplemented:
                return r
        raise OutOfDialect(f"call of {f!r}", n)

    def call_qual(self, qual: str, recv: Any, args: list[Any], kwargs: dict[str, Any], n: ast.AST | None) -> Any:
        s = self.engine.summaries.get(qual)
        local = getattr(self.spec, "summaries", {}).get(qual) if self.spec is not None else None
        s = local or s
        if s is not None:
            self.used_summaries.add(qual)
            return s(self, recv, args, kwargs)
        inl = set(getattr(self.spec, "inline", ())) | self.engine.inline
        if qual in inl:
            fi = self.program.funcs[qual]
            self.inlined.add(qual)
            return self.call_function(fi, recv, args, kwargs, n)
        raise OutOfDialect(f"call to {qual} has neither contract nor inline permission", n)

    def call_method(self, recv: Any, name: str, args: list[Any], kwargs: dict[str, Any], n: ast.AST | None) -> Any:
        h = getattr(self.spec, "call_method", None)
        if h is not None:
            r = h(self, recv, name, args, kwargs, n)
            if r is not NotImplemented:
                return r
        if isinstance(recv, Ref):
            if self.is_list(recv):
                return self.list_method(recv, name, args, kwargs, n)
            cls = self.cls_of(recv)
            o = self.obj(recv)
            if name in o and not isinstance(o[name], (BoundMethod,)):
                return self.call(o[name], args, kwargs, n)
            fi = self.program.find_method(cls, name)
            if fi is None:
                raise OutOfDialect(f"no method {name} on {cls}", n)
            return self.call_qual(fi.qualname, recv, args, kwargs, n)
        if isinstance(recv, (str, Sym)) and self._kind(recv) == "str":
            return self.str_method(recv, name, args, kwargs, n)
        if isinstance(recv, SeqV):
            raise OutOfDialect(f"method {name} on immutable sequence", n)
        raise OutOfDialect(f"method {name} on {recv!r}", n)

    def construct(self, qual: str, args: list[Any], kwargs: dict[str, Any], n: ast.AST | None) -> Any:
        if qual.startswith("exc:"):
            return ("$exc", qual[4:], args)
        c = getattr(self.spec, "constructors", {}).get(qual) if self.spec is not None else None
        c = c or self.engine.constructors.get(qual)
        if c is not None:
            return c(self, args, kwargs)
        if any(isinstance(a, tuple) and a and a[0] == "$star" for a in args):
            raise OutOfDialect("star-args", n)
        ci = self.program.classes.get(qual)
        if ci is None:
            raise OutOfDialect(f"constructor of {qual}", n)
        if any("Exception" in b or "Error" in b for c2 in self.program.mro(qual) for b in c2.bases):
            return ("$exc", qual, args)
        r = self.heap.alloc(qual)
        init = self.program.find_method(qual, "__init__")
        if init is not None:
            self.call_qual(init.qualname, r, args, kwargs, n)
        return r

    # bind parameters & run a function body inline
    def call_function(self, fi: FuncInfo, recv: Any, args: list[Any], kwargs: dict[str, Any], n: ast.AST | None, closure: dict[str, Any] | None = None) -> Any:
        a = fi.node.args
        params = [p.arg for p in a.posonlyargs + a.args]
        env: dict[str, Any] = {}
        if closure is not None:
            # read-only view of the enclosing function's names (free variables of the nested def)
            env.update({k: v for k, v in closure.items() if not k.startswith("$")})
        pos = list(args)
        if fi.cls is not None and "staticmethod" not in fi.decorators:
            if recv is None and pos:
                recv = pos.pop(0)
            env[params[0]] = recv
            params = params[1:]
        if len(pos) > len(params) and a.vararg is None:
            raise PyExc("TypeError", "too many positional arguments")
        for p, v in zip(params, pos):
            env[p] = v
        if a.vararg is not None:
            env[a.vararg.arg] = tuple(pos[len(params):])
        defaults = a.defaults
        dparams = (a.posonlyargs + a.args)[len(a.posonlyargs + a.args) - len(defaults):]
        self.frames.append(Frame(fi, env, fi.module))
        try:
            for p, d in zip(dparams, defaults):
                if p.arg not in env:
                    env[p.arg] = kwargs[p.arg] if p.arg in kwargs else self.eval(d)
            for p, d in zip(a.kwonlyargs, a.kw_defaults):
                if p.arg in kwargs:
                    env[p.arg] = kwargs[p.arg]
                elif d is not None:
                    env[p.arg] = self.eval(d)
                else:
                    raise PyExc("TypeError", f"missing kw-only {p.arg}")
            for k, v in kwargs.items():
                if k in [p.arg for p in a.posonlyargs + a.args] and k not in env:
                    env[k] = v
            for p in params:
                if p not in env:
                    raise PyExc("TypeError", f"missing argument {p}")
            # definite-assignment tracking: every local assigned somewhere starts unbound
            for name in _assigned_names(fi.node):
                env.setdefault(name, _UNBOUND)
            is_gen = any(isinstance(nd, (ast.Yield, ast.YieldFrom)) for st0 in fi.node.body for nd in ast.walk(st0) if not isinstance(st0, ast.FunctionDef))
            if is_gen:
                env["$yield"] = self.heap.alloc("list", {"seq": None, "ek": None})
            try:
                self.exec_block(self.program.body_of(fi))
            except _Return as r:
                if not is_gen:
                    return r.value
            if is_gen:
                acc = env["$yield"]
                hint = getattr(self.spec, "yield_kind", None)
                t, ek = self.as_seq(acc, n, hint)
                return SeqV(t, ek)
            return None
        finally:
            self.frames.pop()

    # ---------------------------------------------------------------- builtins
    def call_builtin(self, name: str, args: list[Any], kwargs: dict[str, Any], n: ast.AST | None) -> Any:  # noqa: C901, PLR0911, PLR0912, PLR0915
        h = getattr(self.spec, "call_builtin", None)
        if h is not None:
            r = h(self, name, args, kwargs, n)
            if r is not NotImplemented:
                return r
        if name == "len":
            (v,) = args
            if isinstance(v, (str, tuple)):
                return len(v)
            if self._kind(v) == "str":
                return wrap(z3.Length(z(v)), "int")
            if isinstance(v, Ref) and not self.is_list(v):
                return self.call_method(v, "__len__", [], {}, n)
            if isinstance(v, ChildList):
                return wrap(v.n, "int")
            if v is None or (isinstance(v, Sym) and v.k.startswith("opt")):
                if v is None:
                    raise PyExc("TypeError", "len(None)")
                isn = OptStr.is_none_s(v.t) if v.k == "optstr" else OptInt.is_none_i(v.t)
                if self.branch(isn, f"lenNone{self._rel(n)}"):
                    raise PyExc("TypeError", "len(None)")
                if v.k == "optstr":
                    return wrap(z3.Length(OptStr.sval(v.t)), "int")
                raise PyExc("TypeError", "len(int)")
            t, _ = self.as_seq(v, n, "int")
            return wrap(z3.Length(t), "int")
        if name == "isinstance":
            return self.isinstance(args[0], args[1], n)
        if name == "reversed":
            (v,) = args
            return ("$rev", v)
        if name == "enumerate":
            return EnumV(args[0], args[1] if len(args) > 1 else kwargs.get("start", 0))
        if name == "iter":
            return args[0]
        if name == "list":
            if not args:
                return self.heap.alloc("list", {"seq": None, "ek": None})
            v = args[0]
            if isinstance(v, tuple) and v and v[0] == "$rev":
                raise OutOfDialect("list(reversed(..))", n)
            t, ek = self.as_seq(v, n)
            return self.new_list(ek, t)
        if name == "tuple":
            v = args[0] if args else ()
            if isinstance(v, tuple):
                return v
            t, ek = self.as_seq(v, n)
            return SeqV(t, ek)
        if name == "slice":
            lo, hi = (None, args[0]) if len(args) == 1 else (args[0], args[1])
            return SliceV(lo, hi)
        if name == "int":
            if not args:
                return 0
            v = args[0]
            if len(args) == 1 and self._kind(v) == "int":
                return v
            if len(args) == 1 and isinstance(v, Ref):
                return self.call_method(v, "__int__", [], {}, n)
            if len(args) == 1 and self._kind(v) == "bool":
                return wrap(z3.If(z(v), 1, 0), "int")
            raise OutOfDialect("int() of non-int", n)
        if name == "bool":
            t = self.truth(args[0])
            return t if isinstance(t, bool) else wrap(t, "bool")
        if name in ("str", "repr"):
            (v,) = args
            if isinstance(v, str):
                return v if name == "str" else repr(v)
            if isinstance(v, bool) or v is None:
                return str(v)
            if isinstance(v, int):
                return str(v)
            if isinstance(v, Sym) and v.k == "str" and name == "str":
                return v
            if isinstance(v, Ref) and not self.is_list(v):
                meth = "__str__" if name == "str" else "__repr__"
                fi = self.program.find_method(self.cls_of(v), meth)
                if fi is not None and (fi.qualname in self.engine.summaries or fi.qualname in getattr(self.spec, "summaries", {})):
                    return self.call_qual(fi.qualname, v, [], {}, n)
                return Sym(z3.Const(f"{name}!obj{v.oid}", z3.StringSort()), "str")
            return Opaque(f"{name}()")
        if name in ("max", "min") and len(args) == 2 and self._kind(args[0]) == "int" and self._kind(args[1]) == "int":
            a, b = args
            if isinstance(a, int) and isinstance(b, int):
                return max(a, b) if name == "max" else min(a, b)
            x, y = z(a), z(b)
            return wrap(z3.If(x >= y, x, y) if name == "max" else z3.If(x <= y, x, y), "int")
        if name == "abs" and self._kind(args[0]) == "int":
            x = z(args[0])
            return wrap(z3.If(x >= 0, x, -x), "int")
        if name in ("any", "all") and len(args) == 1 and isinstance(args[0], tuple):
            ts = [self.truth(v) for v in args[0]]
            if all(isinstance(t, bool) for t in ts):
                return any(ts) if name == "any" else all(ts)
            zs = [z3.BoolVal(t) if isinstance(t, bool) else t for t in ts]
            return wrap(z3.Or(*zs) if name == "any" else z3.And(*zs), "bool")
        if name == "range":
            return ("$range", args)
        if name == "hash":
            return Opaque("hash")
        raise OutOfDialect(f"builtin {name}", n)

    def isinstance(self, v: Any, cls: Any, n: ast.AST | None) -> Any:  # noqa: PLR0911
        if isinstance(cls, tuple):
            r: Any = False
            for c in cls:
                x = self.isinstance(v, c, n)
                if x is True:
                    return True
                if x is not False:
                    r = x
            return r
        h = getattr(self.spec, "isinstance", None)
        if h is not None:
            r = h(self, v, cls, n)
            if r is not NotImplemented:
                return r
        if isinstance(cls, BuiltinV):
            k = self._kind(v) if not isinstance(v, Ref) else "ref"
            if cls.name == "int":
                return k in ("int", "bool")
            if cls.name == "str":
                return k == "str"
            if cls.name == "bool":
                return k == "bool"
            if cls.name == "tuple":
                return isinstance(v, tuple)
            if cls.name == "list":
                return self.is_list(v)
            if cls.name == "dict":
                return False if k != "?" else NotImplemented
        if isinstance(cls, ClassV) and isinstance(v, Ref) and not self.is_list(v):
            return self.program.is_subclass(self.cls_of(v), cls.qual)
        if isinstance(cls, ClassV) and (v is None or _is_py(v) or isinstance(v, (Sym, tuple))):
            return False
        raise OutOfDialect(f"isinstance({v!r}, {cls!r})", n)

    # ---------------------------------------------------------------- list / str methods
    def list_method(self, r: Ref, name: str, args: list[Any], kwargs: dict[str, Any], n: ast.AST | None) -> Any:  # noqa: C901, PLR0912
        o = self.obj(r)
        if name == "append":
            (v,) = args
            if o["seq"] is None:
                o["ek"] = kind_of(v)
                o["seq"] = empty_seq(o["ek"])
            self.set_seq(r, z3.Concat(o["seq"], unit(v, o["ek"])))
            return None
        if name == "extend":
            (v,) = args
            if isinstance(v, tuple) and v and v[0] == "$rev":
                t, ek = self.as_seq(v[1], n, o["ek"])
                h = getattr(self.spec, "reverse", None)
                if h is None:
                    raise OutOfDialect("extend(reversed(..)) needs a `reverse` model in the spec", n)
                t = h(self, t, ek)
            else:
                t, ek = self.as_seq(v, n, o["ek"])
            if o["seq"] is None:
                o["ek"] = ek
                o["seq"] = empty_seq(ek)
            self.set_seq(r, z3.Concat(o["seq"], t))
            return None
        if o["seq"] is None:
            # operations on an empty literal list of unknown kind
            if name == "clear":
                return None
            if name == "pop":
                raise PyExc("IndexError", "pop from empty list")
            if name == "copy":
                return self.heap.alloc("list", {"seq": None, "ek": None})
            raise OutOfDialect(f"list.{name} on empty list of unknown kind", n)
        t, ek = o["seq"], o["ek"]
        if name == "pop":
            ln = z3.Length(t)
            if args:
                raise OutOfDialect("list.pop(i)", n)
            if not self.branch(ln > 0, f"popok{self._rel(n)}"):
                raise PyExc("IndexError", "pop from empty list")
            v = wrap(t[ln - 1], ek)
            self.set_seq(r, z3.SubSeq(t, 0, ln - 1))
            return v
        if name == "clear":
            self.set_seq(r, empty_seq(ek))
            return None
        if name == "copy":
            return self.new_list(ek, t)
        if name == "sort":
            h = getattr(self.spec, "list_sort", None)
            if h is None:
                raise OutOfDialect("list.sort needs a model", n)
            return h(self, r)
        raise OutOfDialect(f"list.{name}", n)

    def str_method(self, s: Any, name: str, args: list[Any], kwargs: dict[str, Any], n: ast.AST | None) -> Any:  # noqa: PLR0911
        h = getattr(self.spec, "str_method", None)
        if h is not None:
            r = h(self, s, name, args, kwargs, n)
            if r is not NotImplemented:
                return r
        st = z(s)
        if name == "startswith":
            pre = args[0]
            if self._kind(pre) != "str":
                if isinstance(pre, Sym) and pre.k == "optstr":
                    if self.branch(OptStr.is_none_s(pre.t), f"swNone{self._rel(n)}"):
                        raise PyExc("TypeError", "startswith(None)")
                    pre = Sym(OptStr.sval(pre.t), "str")
                elif pre is None:
                    raise PyExc("TypeError", "startswith(None)")
                else:
                    raise OutOfDialect("startswith arg", n)
            pt = z(pre)
            if len(args) == 1:
                return wrap(z3.PrefixOf(pt, st), "bool")
            if len(args) > 2 or kwargs:
                raise OutOfDialect("str.startswith with an end argument", n)
            p = z(args[1], "int")
            ln = z3.Length(st)
            # CPython: negative start is relative to the end; start > len -> False (even for "")
            pp = z3.If(p < 0, z3.If(p + ln < 0, 0, p + ln), p)
            return wrap(z3.And(pp <= ln, z3.SubString(st, pp, z3.Length(pt)) == pt), "bool")
        if name == "find":
            sub = z(args[0])
            if len(args) == 1:
                return wrap(z3.IndexOf(st, sub, 0), "int")
            if len(args) > 3 or kwargs:
                raise OutOfDialect("str.find arguments", n)
            p = z(args[1], "int")
            ln = z3.Length(st)
            pp = z3.If(p < 0, z3.If(p + ln < 0, 0, p + ln), p)
            unbounded = z3.If(pp > ln, -1, z3.IndexOf(st, sub, pp))
            if len(args) == 2 or args[2] is None:
                return wrap(unbounded, "int")
            # find(sub, start, end): the occurrence must lie entirely inside s[start:end]
            endv = args[2]

            def bounded(e):
                ee = z3.If(e < 0, z3.If(e + ln < 0, 0, e + ln), z3.If(e > ln, ln, e))
                return z3.If(pp > ee, -1, z3.IndexOf(z3.SubString(st, 0, ee), sub, pp))

            if isinstance(endv, Sym) and endv.k == "optint":
                return wrap(z3.If(OptInt.is_none_i(endv.t), unbounded, bounded(OptInt.ival(endv.t))), "int")
            if self._kind(endv) == "int":
                return wrap(bounded(z(endv, "int")), "int")
            raise OutOfDialect("str.find end argument", n)
        if name == "endswith" and len(args) == 1:
            return wrap(z3.SuffixOf(z(args[0]), st), "bool")
        if isinstance(s, str) and all(_is_py(a) for a in args):
            return getattr(s, name)(*args, **kwargs)
        raise OutOfDialect(f"str.{name}", n)

    # helpers for labels
    def _l0(self) -> int:
        fi = self.frame.fi
        return fi.node.lineno if fi is not None else 0

    def _rel(self, n: ast.AST | None) -> str:
        if n is None or not hasattr(n, "lineno"):
            return ""
        return f"L{n.lineno - self._l0()}"

    # ================================================================== statements
    def exec_block(self, body: list[ast.stmt]) -> None:
        for st in body:
            self.exec(st)

    def exec(self, st: ast.stmt) -> None:
        m = getattr(self, "s_" + type(st).__name__, None)
        if m is None:
            raise OutOfDialect(f"statement {type(st).__name__}", st)
        m(st)

    def s_Pass(self, st: ast.Pass) -> None:
        pass

    def s_Expr(self, st: ast.Expr) -> None:
        if isinstance(st.value, ast.Constant):
            return
        if isinstance(st.value, (ast.Yield, ast.YieldFrom)):
            # generator functions are modelled as building the list of yielded values (DESIGN 2.2)
            acc = self.frame.env.get("$yield")
            if acc is None:
                raise OutOfDialect("yield outside a generator frame", st)
            if isinstance(st.value, ast.Yield):
                if st.value.value is None:
                    raise OutOfDialect("bare yield", st)
                self.list_method(acc, "append", [self.eval(st.value.value)], {}, st)
            else:
                self.list_method(acc, "extend", [self.eval(st.value.value)], {}, st)
            return
        self.eval(st.value)

    def s_Return(self, st: ast.Return) -> None:
        raise _Return(self.eval(st.value) if st.value is not None else None)

    def s_Break(self, st: ast.Break) -> None:
        raise _Break

    def s_Continue(self, st: ast.Continue) -> None:
        raise _Continue

    def s_Assert(self, st: ast.Assert) -> None:
        if not self.branch(self.truth(self.eval(st.test)), f"assert{self._rel(st)}"):
            raise PyExc("AssertionError", ast.unparse(st.test))

    def s_Raise(self, st: ast.Raise) -> None:
        if st.exc is None:
            raise OutOfDialect("bare raise", st)
        v = self.eval(st.exc)
        if isinstance(v, ClassV):
            v = self.construct(v.qual, [], {}, st)
        if isinstance(v, tuple) and v and v[0] == "$exc":
            name = v[1].split(".")[-1].replace("exc:", "")
            raise PyExc(name, "raised", v)
        raise OutOfDialect("raise of non-exception", st)

    def s_Assign(self, st: ast.Assign) -> None:
        v = self.eval(st.value)
        for t in st.targets:
            self.assign(t, v)

    def s_AnnAssign(self, st: ast.AnnAssign) -> None:
        if st.value is None:
            return
        self.assign(st.target, self.eval(st.value))

    def s_AugAssign(self, st: ast.AugAssign) -> None:
        if isinstance(st.target, ast.Name):
            cur = self.lookup(st.target.id, st)
            self.frame.env[st.target.id] = self._aug(st.op, cur, self.eval(st.value), st)
        elif isinstance(st.target, ast.Attribute):
            base = self.eval(st.target.value)
            cur = self.getattr(base, st.target.attr, st)
            new = self._aug(st.op, cur, self.eval(st.value), st)
            self.setattr(base, st.target.attr, new, st)
        elif isinstance(st.target, ast.Subscript):
            base = self.eval(st.target.value)
            idx = self.eval(st.target.slice)
            cur = self.getitem(base, idx, st)
            self.setitem(base, idx, self._aug(st.op, cur, self.eval(st.value), st), st)
        else:
            raise OutOfDialect("augassign target", st)

    def _aug(self, op: ast.operator, cur: Any, val: Any, st: ast.AST) -> Any:
        if isinstance(op, ast.Add) and self.is_list(cur):
            self.list_method(cur, "extend", [val], {}, st)
            return cur
        return self.binop(op, cur, val, st)

    def assign(self, t: ast.expr, v: Any) -> None:
        if isinstance(t, ast.Name):
            self.frame.env[t.id] = v
        elif isinstance(t, ast.Attribute):
            self.setattr(self.eval(t.value), t.attr, v, t)
        elif isinstance(t, (ast.Tuple, ast.List)):
            vals = self.unpack(v, len(t.elts), t)
            for e, x in zip(t.elts, vals):
                self.assign(e, x)
        elif isinstance(t, ast.Subscript):
            base = self.eval(t.value)
            if isinstance(t.slice, ast.Slice):
                raise OutOfDialect("slice assignment", t)
            self.setitem(base, self.eval(t.slice), v, t)
        else:
            raise OutOfDialect("assignment target", t)

    def unpack(self, v: Any, n: int, node: ast.AST) -> list[Any]:
        if isinstance(v, tuple):
            if len(v) != n:
                raise PyExc("ValueError", "unpack")
            return list(v)
        if isinstance(v, Sym) and v.k == "intpair" and n == 2:
            return [wrap(IntPair.fst(v.t), "int"), wrap(IntPair.snd(v.t), "int")]
        h = getattr(self.spec, "unpack", None)
        if h is not None:
            r = h(self, v, n, node)
            if r is not NotImplemented:
                return r
        raise OutOfDialect(f"unpack {v!r}", node)

    def setattr(self, base: Any, attr: str, v: Any, n: ast.AST) -> None:
        h = getattr(self.spec, "setattr", None)
        if h is not None and h(self, base, attr, v, n) is not NotImplemented:
            return
        if isinstance(base, Ref) and not self.is_list(base):
            self.setf(base, attr, v)
            return
        if isinstance(base, Unknown):
            self.note_write(base.owner, f"{base.path}.{attr}")
            return
        raise OutOfDialect(f"attribute store on {base!r}", n)

    def setitem(self, base: Any, idx: Any, v: Any, n: ast.AST) -> None:
        if isinstance(base, Unknown):
            self.note_write(base.owner, base.path + "[]")
            return
        if self.is_list(base):
            t, ek = self.as_seq(base, n)
            ln = z3.Length(t)
            k = self.norm_index(idx, ln, n, "store")
            self.set_seq(base, z3.Concat(z3.SubSeq(t, 0, k), unit(v, ek), z3.SubSeq(t, k + 1, ln - k - 1)))
            return
        h = getattr(self.spec, "setitem", None)
        if h is not None and h(self, base, idx, v, n) is not NotImplemented:
            return
        raise OutOfDialect(f"item store on {base!r}", n)

    def s_Delete(self, st: ast.Delete) -> None:
        for t in st.targets:
            if isinstance(t, ast.Subscript) and isinstance(t.slice, ast.Slice) and t.slice.step is None:
                base = self.eval(t.value)
                if not self.is_list(base):
                    raise OutOfDialect("del on non-list", st)
                lo = self.eval(t.slice.lower) if t.slice.lower else None
                hi = self.eval(t.slice.upper) if t.slice.upper else None
                s, _ = self.as_seq(base, st)
                ln = z3.Length(s)
                a = self.clamp(lo, ln, z3.IntVal(0))
                b = self.clamp(hi, ln, ln)
                b2 = _simp(z3.If(b < a, a, b))
                self.set_seq(base, z3.Concat(z3.SubSeq(s, 0, a), z3.SubSeq(s, b2, ln - b2)))
            else:
                raise OutOfDialect("del form", st)

    def s_If(self, st: ast.If) -> None:
        if self.branch(self.truth(self.eval(st.test)), f"if{self._rel(st)}"):
            self.exec_block(st.body)
        else:
            self.exec_block(st.orelse)

    def s_FunctionDef(self, st: ast.FunctionDef) -> None:
        self.frame.env[st.name] = LocalFn(st, self.frame)

    def s_Import(self, st: ast.Import) -> None:
        pass

    def s_ImportFrom(self, st: ast.ImportFrom) -> None:
        pass

    def s_Try(self, st: ast.Try) -> None:
        if st.finalbody or st.orelse:
            raise OutOfDialect("try/finally/else", st)
        try:
            self.exec_block(st.body)
        except PyExc as e:
            for hnd in st.handlers:
                names = _handler_names(hnd)
                if names is None or e.name in names or "Exception" in names:
                    if hnd.name:
                        self.frame.env[hnd.name] = Opaque(f"exc:{e.name}")
                    self.exec_block(hnd.body)
                    return
            raise

    def s_With(self, st: ast.With) -> None:
        if len(st.items) != 1:
            raise OutOfDialect("multi-item with", st)
        item = st.items[0]
        ce = item.context_expr
        # contextlib.suppress(...)
        if isinstance(ce, ast.Call) and isinstance(ce.func, ast.Name) and ce.func.id == "suppress":
            names = {ast.unparse(a) for a in ce.args}
            try:
                self.exec_block(st.body)
            except PyExc as e:
                if e.name in names:
                    return
                raise
            return
        if not (isinstance(ce, ast.Call) and isinstance(ce.func, ast.Attribute)):
            raise OutOfDialect("with on unsupported context manager", st)
        recv = self.eval(ce.func.value)
        args = [self.eval(a) for a in ce.args]
        cm = self.context_manager(recv, ce.func.attr, args, st)
        pre, post, yielded = cm
        pre()
        if item.optional_vars is not None:
            self.assign(item.optional_vars, yielded)
        try:
            self.exec_block(st.body)
        except (_Return, _Break, _Continue):
            post()  # generator-based context managers resume after `yield` on non-exception exits
            raise
        # a PyExc propagates without running the code after `yield` (no try/finally in the manager)
        post()

    def context_manager(self, recv: Any, name: str, args: list[Any], st: ast.AST) -> tuple[Callable[[], None], Callable[[], None], Any]:
        h = getattr(self.spec, "context_manager", None)
        if h is not None:
            r = h(self, recv, name, args, st)
            if r is not NotImplemented:
                return r
        if not isinstance(recv, Ref):
            raise OutOfDialect("context manager receiver", st)
        fi = self.program.find_method(self.cls_of(recv), name)
        if fi is None or "contextmanager" not in fi.decorators:
            raise OutOfDialect(f"{name} is not a @contextmanager of the repo", st)
        body = self.program.body_of(fi)
        ys = [i for i, s in enumerate(body) if isinstance(s, ast.Expr) and isinstance(s.value, ast.Yield)]
        if len(ys) != 1:
            raise OutOfDialect("context manager with non-top-level yield", st)
        k = ys[0]
        params = [p.arg for p in fi.node.args.args]
        env = dict(zip(params, [recv, *args]))
        self.inlined.add(fi.qualname)

        def run_part(stmts: list[ast.stmt]) -> None:
            self.frames.append(Frame(fi, env, fi.module))
            try:
                self.exec_block(stmts)
            finally:
                self.frames.pop()

        return (lambda: run_part(body[:k])), (lambda: run_part(body[k + 1:])), recv

    # ---------------------------------------------------------------- loops
    def s_While(self, st: ast.While) -> None:
        if st.orelse:
            raise OutOfDialect("while/else", st)
        self._loop(st, None)

    def s_For(self, st: ast.For) -> None:
        if st.orelse:
            raise OutOfDialect("for/else", st)
        it = self.eval(st.iter)
        self._loop(st, it)

    def _iter_model(self, it: Any, st: ast.AST) -> tuple[Any, Callable[[Any], Any], set[int]]:
        """Return (length term, element-at-index function, heap ids that must not be written)."""
        start = 0
        enum = False
        if isinstance(it, EnumV):
            enum = True
            start = it.start
            it = it.inner
        rev_ = False
        if isinstance(it, tuple) and it and it[0] == "$rev":
            rev_ = True
            it = it[1]
        guard: set[int] = set()
        if isinstance(it, ChildList):
            ln = it.n
            cl = it

            def at(i: Any) -> Any:
                return Child(i, cl.tag)
        elif isinstance(it, tuple) and it and it[0] == "$range":
            a = it[1]
            lo, hi = (0, a[0]) if len(a) == 1 else (a[0], a[1])
            lo_t, hi_t = z(lo, "int"), z(hi, "int")
            ln = z3.If(hi_t - lo_t < 0, 0, hi_t - lo_t)

            def at(i: Any) -> Any:
                return wrap(lo_t + z(i, "int"), "int")
        else:
            if isinstance(it, Ref) and self.is_list(it):
                guard.add(it.oid)
            t, ek = self.as_seq(it, st)
            ln = z3.Length(t)
            h = getattr(self.spec, "iter_guard", None)
            if h is not None:
                guard |= set(h(self, it))

            def at(i: Any) -> Any:
                k = z(i, "int")
                return wrap(t[(ln - 1 - k) if rev_ else k], ek)

        if enum:
            inner_at = at

            def at(i: Any) -> Any:  # type: ignore[misc]
                return (wrap(z(i, "int") + z(start, "int"), "int"), inner_at(i))

        return ln, at, guard

    def _loop(self, st: ast.While | ast.For, it: Any) -> None:  # noqa: C901, PLR0912, PLR0915
        fr = self.frame
        ordinal = fr.loop_ord
        fr.loop_ord += 1
        key = (fr.fi.qualname if fr.fi else "?", ordinal)
        lspec = None
        if self.spec is not None:
            lspec = getattr(self.spec, "loops", {}).get(key) or (
                getattr(self.spec, "loops", {}).get(ordinal) if len(self.frames) == 1 else None
            )
        is_for = isinstance(st, ast.For)
        ln = at = None
        guard: set[int] = set()
        if is_for:
            ln, at, guard = self._iter_model(it, st)

        if lspec is None:
            raise OutOfDialect(f"loop #{ordinal} in {key[0]} has no invariant", st)

        saved_idx = self.loop_idx
        # 1. establish
        g0 = lspec.entry(self) if hasattr(lspec, "entry") else {}
        self.loop_idx = 0
        self.loop_phase = "init"
        for f in lspec.facts(self, g0) if hasattr(lspec, "facts") else []:
            self.assume(f)
        for nm, f in lspec.inv(self, g0):
            self.oblige(f"loop{ordinal}.init.{nm}", f)
        if getattr(lspec, "merge", False) and len(self.frames) == 1:
            # every path into this loop has just proved the invariant; what follows the head depends only on the
            # invariant, the function's preconditions and the locals the loop spec names, so it is explored ONCE:
            # later arrivals stop here, the first one goes on with the pre-loop path condition dropped and every other
            # local poisoned (a read of one is out of dialect, never silently wrong).
            mkey = (self.fn_label, key)
            here = tuple(c for c, _, _ in self.decisions)
            rep = self.engine.merged_heads.setdefault(mkey, here)  # the representative: the first path to arrive
            if rep != here:
                raise PathEnd
            base = getattr(self, "pc_base", None)
            if base is None:
                raise OutOfDialect("merged loop head without a recorded precondition boundary", st)
            del self.pc[base:]
            self.solver = z3.Solver()
            self.solver.set("timeout", self.engine.feas_timeout_ms)
            for f in self.pc:
                self.solver.add(f)
            keep = set(getattr(lspec, "keep", ())) | {"self"} | _assigned_in(st.body) | ({_t for _t in _target_names(st.target)} if is_for else set())
            for name in list(fr.env):
                if name not in keep and not name.startswith("$"):
                    fr.env[name] = Poison(name)
        # 2. havoc
        birth = self.heap.next
        assigned = _assigned_in(st.body) | ({_t for _t in _target_names(st.target)} if is_for else set())
        for name in sorted(assigned):
            cur = fr.env.get(name, _UNBOUND)
            fr.env[name] = lspec.havoc_local(self, name, cur) if hasattr(lspec, "havoc_local") else self._havoc_val(name, cur)
        declared: set[tuple[int, str]] = set()
        for r, f in lspec.modifies(self) if hasattr(lspec, "modifies") else []:
            declared.add((r.oid, f))
            self._havoc_field(r, f)
        ghosts = {}
        for gname, gk in getattr(lspec, "ghosts", {}).items():
            ghosts[gname] = self.fresh(f"g_{gname}", gk) if isinstance(gk, str) else gk(self)
        idx = None
        if is_for:
            idx = self.fresh("idx", "int")
            self.assume(z3.And(idx.t >= 0, idx.t <= ln))
            self.loop_idx = idx
        else:
            self.loop_idx = None
        self.loop_phase = "head"
        for f in lspec.facts(self, ghosts) if hasattr(lspec, "facts") else []:
            self.assume(f)
        for _nm, f in lspec.inv(self, ghosts):
            self.assume(f)
        # termination (only where the contract asks for it): a while loop needs a variant - an integer expression that is
        # non-negative whenever the body is entered and strictly smaller at every back-edge.  for loops run over a finite
        # sequence the body may not mutate (guard above), so they terminate when their bodies do.
        tvar = getattr(self.spec, "termination_variant", None) if (not is_for and getattr(self.spec, "termination", False)) else None
        tmark = tvar(self, lspec, ghosts, None) if tvar is not None else None
        # 3. exit or iterate
        if is_for:
            enter = self.branch(idx.t < ln, f"for{ordinal}")
        else:
            enter = self.branch(self.truth(self.eval(st.test)), f"while{ordinal}")
        if not enter:
            self.loop_idx = saved_idx
            if hasattr(lspec, "after"):
                lspec.after(self, ghosts)
            return
        outer_writes = self.writes
        mine: list[tuple[int, str]] = []
        self.writes = mine

        def leave() -> None:
            self.exit_loop_idx = self.loop_idx  # index of the iteration a `break` / `return` / exception left the loop from
            self.writes = outer_writes
            if outer_writes is not None:
                outer_writes.extend(mine)
            self.loop_idx = saved_idx

        try:
            if is_for:
                self.assign(st.target, at(idx))
            try:
                self.exec_block(st.body)
            except _Continue:
                pass
        except _Break:
            leave()
            if hasattr(lspec, "after"):
                lspec.after(self, ghosts)
            return
        except (_Return, PyExc):
            leave()
            raise
        # back-edge: frame check, invariant check, end of path
        for oid, f in mine:
            if oid in guard:
                raise OutOfDialect("loop body mutates the sequence it iterates", st)
            if (oid, f) not in declared and oid < birth:
                self.oblige(f"loop{ordinal}.frame", False, note=f"undeclared write to object {oid}.{f}")
        if is_for:
            self.loop_idx = wrap(idx.t + 1, "int")
        self.loop_phase = "step"
        gb = lspec.back(self, ghosts) if hasattr(lspec, "back") else ghosts
        for f in lspec.facts(self, gb) if hasattr(lspec, "facts") else []:
            self.assume(f)
        for nm, f in lspec.inv(self, gb):
            self.oblige(f"loop{ordinal}.step.{nm}", f)
        if tvar is not None:
            v0 = tmark[0]
            v1, hyps = tvar(self, lspec, gb, tmark)
            self.oblige(f"loop{ordinal}.decreases", z3.Implies(z3.And(*hyps) if hyps else z3.BoolVal(True), z3.And(v0 >= 0, v1 < v0)))
        raise PathEnd

    def _havoc_val(self, name: str, cur: Any) -> Any:
        if cur is _UNBOUND:
            return _UNBOUND
        if isinstance(cur, (Ref, Child, ChildList, BoundMethod, FuncV, ClassV, Opaque)) or cur is None:
            return cur  # references keep identity; contents are havocked through `modifies`
        if isinstance(cur, tuple):
            return tuple(self._havoc_val(f"{name}_{i}", c) for i, c in enumerate(cur))
        if isinstance(cur, SeqV):
            return SeqV(self.fresh_t(f"h_{name}", "seq:" + cur.ek), cur.ek)
        if isinstance(cur, z3.ExprRef):
            n = self.counters.get("h_" + name, 0)
            self.counters["h_" + name] = n + 1
            return z3.Const(f"h_{name}!{n}{self.trace_key()}", cur.sort())
        return self.fresh(f"h_{name}", kind_of(cur))

    def _havoc_field(self, r: Ref, f: str) -> None:
        o = self.obj(r)
        if f == "seq":
            o["seq"] = self.fresh_t(f"h_list{r.oid}", "seq:" + o["ek"])
            return
        cur = o[f]
        o[f] = self._havoc_val(f"{f}{r.oid}", cur)


# ------------------------------------------------------------------ helpers
class LocalFn:
    """a function defined inside the function under verification (closure over its frame)"""

    def __init__(self, node: ast.FunctionDef, frame: "Frame"):
        self.node = node
        self.frame = frame


class _Unbound:
    def __repr__(self) -> str:
        return "<unbound>"


_UNBOUND = _Unbound()

_PYOPS = {
    ast.Add: lambda a, b: a + b,
    ast.Sub: lambda a, b: a - b,
    ast.Mult: lambda a, b: a * b,
    ast.FloorDiv: lambda a, b: a // b,
    ast.Mod: lambda a, b: a % b,
    ast.BitAnd: lambda a, b: a & b,
    ast.BitOr: lambda a, b: a | b,
    ast.BitXor: lambda a, b: a ^ b,
    ast.LShift: lambda a, b: a << b,
    ast.RShift: lambda a, b: a >> b,
    ast.Pow: lambda a, b: a**b,
}
_PYCMP = {
    ast.Eq: lambda a, b: a == b,
    ast.NotEq: lambda a, b: a != b,
    ast.Lt: lambda a, b: a < b,
    ast.LtE: lambda a, b: a <= b,
    ast.Gt: lambda a, b: a > b,
    ast.GtE: lambda a, b: a >= b,
}
_Z3CMP = _PYCMP
_CMP_DUNDER = {
    ast.Eq: "__eq__",
    ast.NotEq: "__ne__",
    ast.Lt: "__lt__",
    ast.LtE: "__le__",
    ast.Gt: "__gt__",
    ast.GtE: "__ge__",
}


def _simp(t: z3.ExprRef) -> z3.ExprRef:
    s = z3.simplify(t)
    return t if "seq.nth_" in s.sexpr() else s


def _is_py(v: Any) -> bool:
    return v is None or isinstance(v, (int, str, bool))


def _handler_names(h: ast.ExceptHandler) -> set[str] | None:
    if h.type is None:
        return None
    if isinstance(h.type, ast.Tuple):
        return {ast.unparse(e).split(".")[-1] for e in h.type.elts}
    return {ast.unparse(h.type).split(".")[-1]}


def _target_names(t: ast.expr) -> set[str]:
    if isinstance(t, ast.Name):
        return {t.id}
    if isinstance(t, (ast.Tuple, ast.List)):
        out: set[str] = set()
        for e in t.elts:
            out |= _target_names(e)
        return out
    return set()


def _assigned_in(body: list[ast.stmt]) -> set[str]:
    out: set[str] = set()
    for st in body:
        for n in ast.walk(st):
            if isinstance(n, ast.Assign):
                for t in n.targets:
                    out |= _target_names(t)
            elif isinstance(n, (ast.AugAssign, ast.AnnAssign)):
                out |= _target_names(n.target)
            elif isinstance(n, ast.NamedExpr):
                out |= _target_names(n.target)
            elif isinstance(n, ast.For):
                out |= _target_names(n.target)
            elif isinstance(n, ast.withitem) and n.optional_vars is not None:
                out |= _target_names(n.optional_vars)
    return out


def _assigned_names(fn: ast.FunctionDef) -> set[str]:
    params = {a.arg for a in fn.args.posonlyargs + fn.args.args + fn.args.kwonlyargs}
    if fn.args.vararg:
        params.add(fn.args.vararg.arg)
    if fn.args.kwarg:
        params.add(fn.args.kwarg.arg)
    return _assigned_in(fn.body) - params
