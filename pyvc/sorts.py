"""z3 sorts and 'kinds' (the engine's names for them).

A kind is a short string; `sort_of(kind)` gives the z3 sort.  `seq:<k>` is a
sequence of kind k.  Lists of sequences are *not* nested Seq sorts (z3 5.1 overflows
expanding them) but cons-list datatypes, see `SL`.
"""
from __future__ import annotations

import z3

Elem = z3.DeclareSort("Elem")  # generic element of Stack[T]
PairS = z3.DeclareSort("PairS")  # a pest.pairs.Pair (token pair)
RuleS = z3.DeclareSort("RuleS")  # a Rule / RuleFrame object (identity + name + modifier)
FInfo = z3.DeclareSort("FInfo")  # abstract contents of furthest_expected/unexpected/stack

_ip = z3.Datatype("IntPair")
_ip.declare("mk_ip", ("fst", z3.IntSort()), ("snd", z3.IntSort()))
IntPair = _ip.create()

_os = z3.Datatype("OptStr")
_os.declare("none_s")
_os.declare("some_s", ("sval", z3.StringSort()))
OptStr = _os.create()

_oi = z3.Datatype("OptInt")
_oi.declare("none_i")
_oi.declare("some_i", ("ival", z3.IntSort()))
OptInt = _oi.create()

_BASE = {
    "int": z3.IntSort(),
    "bool": z3.BoolSort(),
    "str": z3.StringSort(),
    "elem": Elem,
    "pair": PairS,
    "rule": RuleS,
    "intpair": IntPair,
    "optstr": OptStr,
    "optint": OptInt,
    "finfo": FInfo,
}

_EXTRA: dict[str, z3.SortRef] = {}


def register_kind(kind: str, sort: z3.SortRef) -> None:
    _EXTRA[kind] = sort


def sort_of(kind: str) -> z3.SortRef:
    if kind.startswith("seq:"):
        return z3.SeqSort(sort_of(kind[4:]))
    if kind in _BASE:
        return _BASE[kind]
    return _EXTRA[kind]


def kind_of_sort(s: z3.SortRef) -> str:
    for k, v in list(_BASE.items()) + list(_EXTRA.items()):
        if v == s:
            return k
    if z3.is_seq_sort(s) if hasattr(z3, "is_seq_sort") else isinstance(s, z3.SeqSortRef):
        if s == z3.StringSort():
            return "str"
        return "seq:" + kind_of_sort(s.basis())
    raise KeyError(str(s))


class SLType:
    """cons-list of Seq<ek>; constructor/accessor names are unique per element kind
    (SMT-LIB has one global namespace for datatype constructors)."""

    def __init__(self, ek: str):
        d = z3.Datatype(f"SL_{ek}")
        d.declare(f"nil_{ek}")
        d.declare(f"cons_{ek}", (f"hd_{ek}", z3.SeqSort(sort_of(ek))), (f"tl_{ek}", d))
        self.sort = d.create()
        self.nil = getattr(self.sort, f"nil_{ek}")
        self.cons = getattr(self.sort, f"cons_{ek}")
        self.hd = getattr(self.sort, f"hd_{ek}")
        self.tl = getattr(self.sort, f"tl_{ek}")
        self.is_nil = getattr(self.sort, f"is_nil_{ek}")
        self.is_cons = getattr(self.sort, f"is_cons_{ek}")


_sl_cache: dict[str, SLType] = {}


def SL(ek: str) -> SLType:  # noqa: N802
    """cons-list of Seq<ek> (a list of full copies), head = most recent."""
    if ek not in _sl_cache:
        _sl_cache[ek] = SLType(ek)
        register_kind(f"sl:{ek}", _sl_cache[ek].sort)
    return _sl_cache[ek]


_rev_cache: dict[str, z3.FuncDeclRef] = {}


def rev_fn(ek: str) -> z3.FuncDeclRef:
    """Uninterpreted list reversal on Seq<ek>; constrained only by lemma instances."""
    if ek not in _rev_cache:
        s = z3.SeqSort(sort_of(ek))
        _rev_cache[ek] = z3.Function(f"rev_{ek}", s, s)
    return _rev_cache[ek]
