"""./check replay <path>: re-run a replay file (native command if it has one, else print the obligation)."""
from __future__ import annotations

import json
import subprocess
import sys


def main() -> int:
    rec = json.load(open(sys.argv[1]))
    print(f"property={rec.get('property')} obligation={rec.get('obligation') or rec.get('for')}")
    cmd = rec.get("native_cmd") or rec.get("cmd")
    if cmd:
        print("$", cmd)
        import os

        r = subprocess.run(cmd, shell=True, check=False, env={**os.environ, "REPLAY_FILE": os.path.abspath(sys.argv[1])})
        return 1 if r.returncode else 0
    print("no concrete failing input was found; solver output follows")
    print(json.dumps(rec.get("model"), indent=1))
    return 1


if __name__ == "__main__":
    sys.exit(main())
