"""Run a property's contracts, classify verdicts, write evidence, decide the exit code.

exit 0  every ledger obligation proved (known findings aside)
exit 1  VIOLATION: a refuted obligation (or an undecided one whose concretiser found a
        failing input on the real code) that KNOWN_FINDINGS.txt does not list
exit 2  UNDECIDED: something could not be decided and nothing was refuted
exit 3  FAULT: engine error, solver disagreement, vacuous hypotheses, zero obligations
"""
from __future__ import annotations

import importlib
import json
import os
import re
import sys
import time
from collections import Counter, defaultdict
from pathlib import Path
from typing import Any

from .driver import FunctionResult, verify
from .engine import Engine
from .intake import Program
from .solve import flatten, Verdict, discharge

ROOT = Path(__file__).resolve().parent.parent
KF = ROOT / "KNOWN_FINDINGS.txt"


def family(clause: str) -> str:
    """Clause family: the clause name without path-specific suffixes."""
    return clause


def load_known() -> list[dict[str, str]]:
    out = []
    if not KF.exists():
        return out
    for line in KF.read_text().splitlines():
        line = line.strip()
        if not line or line.startswith("#"):
            continue
        kind, _, rest = line.partition(":")
        kind = kind.strip()
        d = {"kind": kind, "raw": line}
        for m in re.finditer(r"(\w+)=(\S+)", rest):
            d.setdefault(m.group(1), m.group(2))
        d["text"] = rest.strip()
        out.append(d)
    return out


def match_known(known: list[dict[str, str]], prop: str, v: Verdict) -> dict[str, str] | None:
    for k in known:
        if k["kind"] != "finding" or k.get("property") != prop:
            continue
        ob = k.get("obligation", "")
        if ob == v.name or ob == f"{v.fn}::{v.clause}" or (ob.endswith("*") and v.name.startswith(ob[:-1])):
            return k
    return None


_EXPLORE = None


def _explore_idx(i: int):
    return _EXPLORE(i)  # type: ignore[misc]


def run_property(modname: str, tier: str, seed: int, update_ledger: bool = False, only: str | None = None) -> int:  # noqa: C901, PLR0912, PLR0915
    t0 = time.time()
    mod = importlib.import_module(f"contracts.{modname}")
    prop = mod.PROPERTY
    work = ROOT / ".work"
    work.mkdir(exist_ok=True)
    os.environ.setdefault("PYVC_WORK", str(work))
    program = Program()
    engine = Engine(program)
    specs = mod.specs(tier)
    if only:
        specs = [s for s in specs if only in (s.label or s.target)]
    timeout_ms = int(os.environ.get("PYVC_TIMEOUT_MS", "45000" if tier == "quick" else "120000"))
    results: list[FunctionResult] = []
    all_obls = []
    drop = getattr(mod, "DROP_CLAUSES", None)
    drop_re = re.compile(drop) if drop else None
    def explore(idx: int) -> FunctionResult:
        s = specs[idx]
        r = verify(engine, s)
        r.generated = len([o for o in r.obligations if not o.clause.startswith("cover")])  # type: ignore[attr-defined]
        keep = getattr(s, "keep_clauses", None)
        if keep:
            # this instance of a shared contract serves one aspect only (e.g. the token-adjacency clauses of the scanner for C10)
            kre = re.compile(keep)
            r.obligations = [o for o in r.obligations if o.clause.startswith("cover") or kre.search(o.clause)]
        if drop_re is not None:
            # clauses that belong to other properties (the same contract instance serves several)
            r.obligations = [o for o in r.obligations if not drop_re.search(o.clause)]
        r.obligations = [flatten(o) for o in r.obligations]  # SMT-LIB text: picklable, and all that discharge() needs
        return r

    # exploration is sequential Python per contract instance: one forked worker per instance (the instances are
    # independent; each worker re-reads nothing - the program was read above - and sends back flattened obligations)
    nproc = int(os.environ.get("PYVC_EXPLORE_PROCS", "0")) or min(16, os.cpu_count() or 4, max(1, len(specs)))
    if nproc > 1 and len(specs) > 1:
        import multiprocessing as mp

        global _EXPLORE
        _EXPLORE = explore
        with mp.get_context("fork").Pool(nproc) as pool:
            # longest first is unknown: hand them out one by one
            results = pool.map(_explore_idx, range(len(specs)), chunksize=1)
    else:
        results = [explore(i) for i in range(len(specs))]
    for r in results:
        all_obls.extend(r.obligations)
    dead_ok = {(s.label or s.target) for s in specs if getattr(s, "dead_paths_ok", False)}
    verdicts = discharge(all_obls, timeout_ms=timeout_ms, cross=(tier == "thorough"), cheap_covers=frozenset(dead_ok))
    solver_s = sum(v.seconds for v in verdicts)
    by_fn: dict[str, list[Verdict]] = defaultdict(list)
    for v in verdicts:
        by_fn[v.fn].append(v)

    # ---- ledger
    ledger_path = ROOT / "ledger" / f"{prop}.json"
    cur_ledger = {r.label: sorted({v.clause for v in by_fn.get(r.label, []) if not v.clause.startswith("cover")}) for r in results}
    if update_ledger:
        ledger_path.parent.mkdir(exist_ok=True)
        keep = {}
        for r in results:
            if r.out_of_reach or r.error:
                continue
            keep[r.label] = cur_ledger[r.label]
        ledger_path.write_text(json.dumps(keep, indent=1, sort_keys=True) + "\n")
    ledger = json.loads(ledger_path.read_text()) if ledger_path.exists() else {}

    known = load_known()
    faults: list[str] = []
    undecided: list[str] = []
    refuted: list[Verdict] = []
    known_hit: list[tuple[Verdict, dict[str, str]]] = []
    for r in results:
        if r.error:
            faults.append(f"{r.label}: engine error: {r.error.strip().splitlines()[-1]}")
        elif r.out_of_reach:
            (undecided if r.label in ledger else undecided).append(f"{r.label}: out of reach: {r.out_of_reach}")
        elif not getattr(r, "generated", 0):
            faults.append(f"{r.label}: zero obligations generated")
    for fn, clauses in ledger.items():
        if only and only not in fn:
            continue
        have = set(cur_ledger.get(fn, []))
        missing = [c for c in clauses if c not in have]
        if fn not in cur_ledger:
            undecided.append(f"{fn}: in ledger but no contract instance was run")
        elif missing and not any(fn in u for u in undecided) and not any(fn in f for f in faults):
            undecided.append(f"{fn}: ledger clauses not generated: {missing[:5]}")
    dead_paths: list[str] = []
    covers_undecided = 0
    for v in verdicts:
        if v.status == "refuted":
            k = match_known(known, prop, v)
            if k:
                known_hit.append((v, k))
            else:
                refuted.append(v)
        elif v.status == "undecided" and v.clause == "cover.exit" and v.fn in dead_ok:
            covers_undecided += 1  # reachability of this exit not shown within the short budget; not a proof obligation
        elif v.status == "undecided":
            k = match_known(known, prop, v)
            if k:
                known_hit.append((v, k))
            else:
                undecided.append(f"{v.name}: undecided ({str(v.detail)[:160]})")
        elif v.status == "vacuous" and v.clause == "cover.exit" and v.fn in dead_ok:
            dead_paths.append(v.name)  # a path that only the Spec's definitional facts rule out (Run.assume_def)
        elif v.status in ("fault", "vacuous"):
            faults.append(f"{v.name}: {v.status} {str(v.detail)[:200]}")

    for fn in sorted(dead_ok):
        if any(v.fn == fn for v in verdicts) and not any(v.fn == fn and v.clause == "cover.exit" and v.status == "covered" for v in verdicts):
            faults.append(f"{fn}: no exit of the function is reachable under its contract (all paths dead)")

    # ---- concretise / replay anything not proved
    replays: list[dict[str, Any]] = []
    violations: list[dict[str, Any]] = []
    conc = getattr(mod, "concretise", None)
    need = refuted or undecided
    conc_results: list[dict[str, Any]] = []
    if need and conc is not None:
        from replay.limits import DidNotTerminate as _DNT, time_limit as _tl

        try:
            with _tl(int(os.environ.get("PYVC_STANDIN_DEADLINE_S", "1500" if tier == "quick" else "10800"))):
                conc_results = conc(tier, seed, refuted, undecided, known) or []
        except _DNT:
            faults.append(f"{prop}: the search for a concrete failing input did not finish (does the code under check still terminate?)")
    # PYVC_OUT: where replays and evidence go (seed/mutant harnesses point it at a scratch directory so that a run
    # against a deliberately broken tree never overwrites the evidence of the real tree)
    out_root = Path(os.environ.get("PYVC_OUT") or (ROOT / ".work" / "only" if only else ROOT))  # a partial (--only) run never overwrites the evidence
    rdir = out_root / "replays" / prop
    if refuted or conc_results:
        rdir.mkdir(parents=True, exist_ok=True)
    used_conc = set()
    for v in refuted:
        hit = next((c for c in conc_results if c.get("found") and (c.get("for") in (None, v.fn, v.name) or v.fn.startswith(str(c.get("for"))))), None)
        safe = re.sub(r"[^A-Za-z0-9_.=@-]+", "_", v.name)[:150]
        path = rdir / f"{safe}.json"
        rec = {
            "property": prop,
            "obligation": v.name,
            "clause": v.clause,
            "function": v.fn,
            "solver": v.backend,
            "solver_verdict": "sat (negated goal satisfiable under the path condition)",
            "model": v.model,
            "note": v.note,
        }
        if hit:
            used_conc.add(id(hit))
            rec["replayed_on_real_code"] = True
            rec["failing_input"] = hit.get("input")
            rec["observed"] = hit.get("observed")
            rec["native_cmd"] = hit.get("cmd")
            suffix = ""
        else:
            rec["replayed_on_real_code"] = False
            suffix = " no-failing-input-found"
        path.write_text(json.dumps(rec, indent=1, default=str) + "\n")
        violations.append({"obligation": v.name, "replay": str(path), "suffix": suffix})
    n_conc = 0
    for c in conc_results:
        if c.get("found") and id(c) not in used_conc and not c.get("known"):
            safe = re.sub(r"[^A-Za-z0-9_.=@-]+", "_", str(c.get("for") or "concrete"))[:150]
            n_conc += 1
            path = rdir / (f"{safe}.concrete.json" if n_conc == 1 else f"{safe}.{n_conc}.concrete.json")
            path.write_text(json.dumps({"property": prop, **c}, indent=1, default=str) + "\n")
            violations.append({"obligation": str(c.get("for")), "replay": str(path), "suffix": ""})

    # ---- stand-ins / extra checks (bounded, never counted as proved)
    standins = []
    extra = getattr(mod, "extra_checks", None)
    if extra is not None and not (only and os.environ.get("PYVC_SKIP_EXTRA")):  # development aid, only with --only
        from replay.limits import DidNotTerminate, time_limit

        deadline = int(os.environ.get("PYVC_STANDIN_DEADLINE_S", "1500" if tier == "quick" else "10800"))
        try:
            with time_limit(deadline):
                extra_results = list(extra(tier, seed))
        except DidNotTerminate:
            extra_results = [{"name": f"{prop}-standins", "kind": "bounded stand-ins", "evaluations": 0, "violation": False,
                              "fault": f"the bounded stand-ins did not finish within {deadline} s (does the code under check still terminate?)"}]
        except Exception as ex:  # noqa: BLE001
            # a stand-in that trips over the code under check must not take the verdicts of the proof part with it:
            # reported as a fault of that stand-in (exit 3 unless a violation is reported), everything else is still printed
            import traceback

            extra_results = [{"name": f"{prop}-standins", "kind": "bounded stand-ins", "evaluations": 0, "violation": False,
                              "fault": f"a bounded stand-in crashed: {type(ex).__name__}: {ex}"[:300] + " | " + traceback.format_exc().strip().splitlines()[-3][:160]}]
        for e in extra_results:
            standins.append(e)
            if e.get("violation") and not e.get("known"):
                rdir.mkdir(parents=True, exist_ok=True)
                safe = re.sub(r"[^A-Za-z0-9_.=@-]+", "_", e["name"])[:150]
                path = rdir / f"{safe}.standin.json"
                path.write_text(json.dumps({"property": prop, **e}, indent=1, default=str) + "\n")
                violations.append({"obligation": e["name"], "replay": str(path), "suffix": ""})
            if e.get("fault"):
                faults.append(f"{e['name']}: {e['fault']}")

    # ---- evidence
    proved = [v for v in verdicts if v.status == "proved"]
    non_cover = [v for v in verdicts if not v.clause.startswith("cover")]
    counted = [v for v in non_cover if not match_known(known, prop, v) or v.status == "proved"]
    kf_obls = sorted({v.name for v, _ in known_hit})
    backends = Counter(v.backend for v in proved)
    slow = sorted(non_cover, key=lambda v: -v.seconds)[:5]
    samples = []
    for v in (proved[:: max(1, len(proved) // 6)])[:6]:
        o = next((o for o in all_obls if o.name == v.name), None)
        samples.append(
            {
                "obligation": v.name,
                "hypotheses": len(o.hyps) if o else None,
                "goal": (str(o.goal)[:400] if o else None),
                "verdict": v.status,
                "backend": v.backend,
                "seconds": round(v.seconds, 3),
            }
        )
    ev = {
        "property_id": prop,
        "tier": tier,
        "seed": seed,
        "level": "proof",
        "coverage": {
            "obligations": len([v for v in counted]),
            "discharged": len([v for v in counted if v.status == "proved"]),
            "checker_cmd": f"./check {prop} --tier {tier}",
            "trusted_base": list(getattr(mod, "TRUSTED", [])),
            "explanation": getattr(mod, "EXPLANATION", ""),
            "functions_under_contract": [
                {
                    "label": r.label,
                    "target": r.target,
                    "source_sha256_16": r.sha,
                    "paths": r.paths,
                    "exits": r.exits,
                    "obligations": len([o for o in r.obligations if not o.clause.startswith("cover")]),
                    "inlined_callees": sorted(r.inlined),
                    "callee_contracts_used": sorted(r.summaries),
                }
                for r in results
                if not r.out_of_reach and not r.error
            ],
            "functions_out_of_reach": [{"label": r.label, "why": r.out_of_reach or r.error} for r in results if r.out_of_reach or r.error],
            "cover_obligations": {
                "total": len([v for v in verdicts if v.clause.startswith("cover")]),
                "covered": len([v for v in verdicts if v.status == "covered"]),
            },
            "by_backend": dict(backends),
            "solver_seconds_total": round(solver_s, 2),
            "slowest": [{"obligation": v.name, "seconds": round(v.seconds, 2), "backend": v.backend} for v in slow],
            "known_finding_obligations": kf_obls,
            "refuted": [v.name for v in refuted],
            "undecided": undecided,
            "faults": faults,
            "dead_paths": len(dead_paths),
            "covers_undecided": covers_undecided,
            "bounded_standins": standins,
            "bounded_dimensions": list(getattr(mod, "BOUNDED", [])),
            "samples": samples,
        },
        "assumptions": sorted({a for r in results for a in r.assumed} | set(getattr(mod, "ASSUMPTIONS", []))),
        "wall_s": round(time.time() - t0, 2),
        "violations": len(violations),
    }
    evdir = out_root / "evidence"
    evdir.mkdir(parents=True, exist_ok=True)
    (evdir / f"{prop}.json").write_text(json.dumps(ev, indent=1, default=str) + "\n")

    # ---- print
    print(
        f"[{prop}] tier={tier} functions={len(results)} obligations={ev['coverage']['obligations']} "
        f"discharged={ev['coverage']['discharged']} refuted={len(refuted)} undecided={len(undecided)} "
        f"faults={len(faults)} known={len(kf_obls)} wall={ev['wall_s']}s solver={ev['coverage']['solver_seconds_total']}s"
    )
    seen_k = set()
    for v, k in known_hit:
        if k["raw"] not in seen_k:
            seen_k.add(k["raw"])
            print(f"KNOWN-FINDING: {k['text']}")
    for s in standins:
        for k in s.get("known_lines", []):
            if k not in seen_k:
                seen_k.add(k)
                print(f"KNOWN-FINDING: property={prop} {k}")
    for f in faults:
        print(f"FAULT property={prop} {f}")
    for u in undecided:
        print(f"UNDECIDED property={prop} {u}")
    for vio in violations:
        print(f"VIOLATION property={prop} replay={vio['replay']}{vio['suffix']}")
    if violations:
        return 1
    if faults:
        return 3
    if undecided:
        return 2
    return 0


def main(argv: list[str]) -> int:
    import argparse

    ap = argparse.ArgumentParser()
    ap.add_argument("prop")
    ap.add_argument("--tier", default=os.environ.get("VERIF_TIER", "quick"))
    ap.add_argument("--seed", type=int, default=int(os.environ.get("VERIF_SEED", "0")))
    ap.add_argument("--update-ledger", action="store_true")
    ap.add_argument("--only")
    a = ap.parse_args(argv)
    sys.path.insert(0, str(ROOT))
    try:
        return run_property(a.prop.lower(), a.tier, a.seed, a.update_ledger, a.only)
    except SystemExit:
        raise
    except BaseException as e:  # noqa: BLE001
        # a crash of the checker is a FAULT (exit 3), never an exit code that could be read as a violation
        import traceback

        traceback.print_exc()
        print(f"FAULT property={a.prop.upper()} the checker crashed: {type(e).__name__}: {str(e)[:200]}")
        return 3
