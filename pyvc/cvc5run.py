"""Run the cvc5 1.4 Python wheel on an SMT-LIB file: `python -m pyvc.cvc5run <file> <tlimit_ms>` prints sat/unsat/unknown.

Second opinion for answers of the older /usr/bin/cvc5 1.0.3, which was seen to answer `sat` on a regular-expression
membership query that z3 4.8/5.1 and cvc5 1.4 all refute (and that is false for the model it printed)."""
from __future__ import annotations

import sys


def main() -> int:
    import cvc5
    from cvc5 import InputParser, SymbolManager

    path, tl = sys.argv[1], sys.argv[2]
    slv = cvc5.Solver()
    slv.setOption("strings-exp", "true")
    slv.setOption("tlimit-per", tl)
    sm = SymbolManager(slv.getTermManager() if hasattr(slv, "getTermManager") else slv)
    p = InputParser(slv, sm)
    p.setFileInput(cvc5.InputLanguage.SMT_LIB_2_6, path)
    ans = "unknown"
    while True:
        cmd = p.nextCommand()
        if cmd.isNull():
            break
        out = str(cmd.invoke(slv, sm)).strip()
        if out in ("sat", "unsat", "unknown"):
            ans = out
    print(ans)
    return 0


if __name__ == "__main__":
    sys.exit(main())
