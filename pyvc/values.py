"""Symbolic values of the executor."""
from __future__ import annotations

import z3

from .sorts import IntPair, OptInt, OptStr, rev_fn, sort_of


class Sym:
    """A z3 term with its kind."""

    __slots__ = ("t", "k")

    def __init__(self, t: z3.ExprRef, k: str):
        self.t = t
        self.k = k

    def __repr__(self) -> str:
        return f"Sym<{self.k}>({self.t})"


class Ref:
    """Reference to a heap object (instance or list)."""

    __slots__ = ("oid",)

    def __init__(self, oid: int):
        self.oid = oid

    def __repr__(self) -> str:
        return f"Ref({self.oid})"

    def __eq__(self, o: object) -> bool:
        return isinstance(o, Ref) and o.oid == self.oid

    def __hash__(self) -> int:
        return hash(("ref", self.oid))


class SeqV:
    """An immutable sequence value (slice result, reversed(...), list(...) before binding)."""

    __slots__ = ("t", "ek")

    def __init__(self, t: z3.ExprRef, ek: str):
        self.t = t
        self.ek = ek


class EnumV:
    """enumerate(x)."""

    __slots__ = ("inner", "start")

    def __init__(self, inner: object, start: int = 0):
        self.inner = inner
        self.start = start


class ChildList:
    """An abstract list of child expressions of symbolic length (self.expressions)."""

    __slots__ = ("n", "tag")

    def __init__(self, n: z3.ExprRef, tag: str = "c"):
        self.n = n
        self.tag = tag


class Child:
    """An abstract child expression: index (z3 Int or python int) into an oracle family."""

    __slots__ = ("idx", "tag", "cls")

    def __init__(self, idx: object, tag: str = "c", cls: str | None = None):
        self.idx = idx
        self.tag = tag
        self.cls = cls


class BoundMethod:
    __slots__ = ("recv", "name")

    def __init__(self, recv: object, name: str):
        self.recv = recv
        self.name = name


class FuncV:
    __slots__ = ("qual",)

    def __init__(self, qual: str):
        self.qual = qual


class ClassV:
    __slots__ = ("qual",)

    def __init__(self, qual: str):
        self.qual = qual


class BuiltinV:
    __slots__ = ("name",)

    def __init__(self, name: str):
        self.name = name


class ModuleV:
    __slots__ = ("name",)

    def __init__(self, name: str):
        self.name = name


class SliceV:
    __slots__ = ("lo", "hi")

    def __init__(self, lo: object, hi: object):
        self.lo = lo
        self.hi = hi


class Opaque:
    """A value the engine does not interpret (labels built by f-strings, ...)."""

    __slots__ = ("what",)

    def __init__(self, what: str):
        self.what = what

    def __repr__(self) -> str:
        return f"Opaque({self.what})"


# ---------------------------------------------------------------- conversions



class Unknown(Opaque):
    """An attribute of a pre-existing (shared) object that no contract models: its value is arbitrary
    (every test on it forks on a fresh boolean) and a mutating call through it is a write to its owner."""

    __slots__ = ("owner", "path")

    def __init__(self, owner: int, path: str):
        super().__init__(f"unmodelled:{path}")
        self.owner = owner
        self.path = path


def z(v: object, kind: str | None = None) -> z3.ExprRef:
    """Python/engine value -> z3 term of the given kind."""
    if isinstance(v, Sym):
        if kind == "optstr" and v.k == "str":
            return OptStr.some_s(v.t)
        if kind == "optint" and v.k == "int":
            return OptInt.some_i(v.t)
        return v.t
    if isinstance(v, bool):
        return z3.BoolVal(v)
    if isinstance(v, int):
        if kind == "optint":
            return OptInt.some_i(z3.IntVal(v))
        return z3.IntVal(v)
    if isinstance(v, str):
        if kind == "optstr":
            return OptStr.some_s(z3.StringVal(v))
        return z3.StringVal(v)
    if v is None:
        if kind == "optstr":
            return OptStr.none_s
        if kind == "optint":
            return OptInt.none_i
        raise TypeError("None has no z3 term without an option kind")
    if isinstance(v, tuple) and len(v) == 2 and (kind in (None, "intpair")):
        return IntPair.mk_ip(z(v[0], "int"), z(v[1], "int"))
    if isinstance(v, SeqV):
        return v.t
    if isinstance(v, z3.ExprRef):
        return v
    raise TypeError(f"cannot convert {v!r} to z3 ({kind})")


def kind_of(v: object) -> str:
    if isinstance(v, Sym):
        return v.k
    if isinstance(v, bool):
        return "bool"
    if isinstance(v, int):
        return "int"
    if isinstance(v, str):
        return "str"
    if isinstance(v, tuple) and len(v) == 2:
        return "intpair"
    if isinstance(v, SeqV):
        return "seq:" + v.ek
    raise TypeError(f"no kind for {v!r}")


def wrap(t: z3.ExprRef, kind: str) -> object:
    """z3 term -> engine value, folding constants to Python values."""
    # simplify only to detect constants: the rewriter may introduce z3-internal
    # symbols (seq.nth_u / seq.nth_i) that cvc5 does not know, so the original term is kept
    if kind in ("int", "bool"):
        s = z3.simplify(t)
        if kind == "int" and z3.is_int_value(s):
            return s.as_long()
        if kind == "bool":
            if z3.is_true(s):
                return True
            if z3.is_false(s):
                return False
        if "seq.nth_" not in s.sexpr():
            t = s
    if kind == "str" and z3.is_string_value(t):
        return t.as_string() if not _has_escape(t) else Sym(t, kind)
    if kind == "intpair":
        return (wrap(IntPair.fst(t), "int"), wrap(IntPair.snd(t), "int"))
    if kind.startswith("seq:"):
        return SeqV(t, kind[4:])
    return Sym(t, kind)


def _has_escape(t: z3.ExprRef) -> bool:
    try:
        s = t.as_string()
    except Exception:  # noqa: BLE001
        return True
    return "\\u{" in s or "\\x" in s


def empty_seq(ek: str) -> z3.ExprRef:
    return z3.Empty(z3.SeqSort(sort_of(ek)))


def unit(v: object, ek: str) -> z3.ExprRef:
    return z3.Unit(z(v, ek))


def rev(t: z3.ExprRef, ek: str) -> z3.ExprRef:
    return rev_fn(ek)(t)
