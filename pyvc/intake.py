"""Source intake: read the *current* /repo/src/pest tree with `ast` on every run.

What intake drops (complete list): type annotations, docstrings, comments,
`if TYPE_CHECKING:` blocks, `@overload` stubs, `__slots__`/`__match_args__`
declarations.  Everything else is kept; a construct the executor does not model makes
the function *out of reach* (reported by name, never counted as proved).
"""
from __future__ import annotations

import ast
import hashlib
import os
from dataclasses import dataclass, field
from pathlib import Path

REPO = Path(os.environ.get("PYVC_REPO", "/repo"))
SRC = REPO / "src"


@dataclass
class FuncInfo:
    qualname: str  # e.g. pest.stack.Stack.pop
    module: str
    cls: str | None  # qualified class name
    node: ast.FunctionDef
    source: str
    decorators: list[str]

    @property
    def sha(self) -> str:
        return hashlib.sha256(self.source.encode()).hexdigest()[:16]


@dataclass
class ClassInfo:
    qualname: str
    name: str
    module: str
    bases: list[str]  # as written
    methods: dict[str, FuncInfo] = field(default_factory=dict)
    consts: dict[str, ast.expr] = field(default_factory=dict)
    node: ast.ClassDef | None = None


@dataclass
class ModuleInfo:
    name: str
    path: Path
    tree: ast.Module
    source: str
    names: dict[str, tuple[str, object]] = field(default_factory=dict)
    # name -> ('class', qual) | ('func', qual) | ('const', python value) | ('import', 'mod.name') | ('module', mod)


def _is_type_checking(test: ast.expr) -> bool:
    return isinstance(test, ast.Name) and test.id == "TYPE_CHECKING"


def _strip_docstring(body: list[ast.stmt]) -> list[ast.stmt]:
    if body and isinstance(body[0], ast.Expr) and isinstance(body[0].value, ast.Constant) and isinstance(
        body[0].value.value, str
    ):
        return body[1:] or [ast.Pass()]
    return body


class Program:
    def __init__(self, src: Path = SRC, package: str = "pest"):
        self.src = src
        self.modules: dict[str, ModuleInfo] = {}
        self.classes: dict[str, ClassInfo] = {}
        self.funcs: dict[str, FuncInfo] = {}
        for p in sorted((src / package).rglob("*.py")):
            rel = p.relative_to(src).with_suffix("")
            parts = list(rel.parts)
            if parts[-1] == "__init__":
                parts = parts[:-1]
            self._load(".".join(parts), p)
        self._link()

    # ------------------------------------------------------------------ load
    def _load(self, modname: str, path: Path) -> None:
        source = path.read_text()
        tree = ast.parse(source)
        mi = ModuleInfo(modname, path, tree, source)
        self.modules[modname] = mi
        self._scan_body(mi, tree.body, is_pkg=path.name == "__init__.py")

    def _scan_body(self, mi: ModuleInfo, body: list[ast.stmt], is_pkg: bool) -> None:
        for st in body:
            if isinstance(st, ast.If) and _is_type_checking(st.test):
                continue  # dropped: TYPE_CHECKING block
            if isinstance(st, ast.ImportFrom):
                base = self._resolve_from(mi.name, st.module, st.level, is_pkg)
                for a in st.names:
                    mi.names[a.asname or a.name] = ("import", f"{base}.{a.name}")
            elif isinstance(st, ast.Import):
                for a in st.names:
                    mi.names[a.asname or a.name.split(".")[0]] = ("module", a.name)
            elif isinstance(st, ast.ClassDef):
                self._load_class(mi, st)
            elif isinstance(st, ast.FunctionDef):
                q = f"{mi.name}.{st.name}"
                self.funcs[q] = self._mkfunc(mi, None, st, q)
                mi.names[st.name] = ("func", q)
            elif isinstance(st, (ast.Assign, ast.AnnAssign)):
                tgts = st.targets if isinstance(st, ast.Assign) else [st.target]
                if st.value is None:
                    continue
                for t in tgts:
                    if isinstance(t, ast.Name):
                        mi.names[t.id] = ("constexpr", st.value)

    def _resolve_from(self, cur: str, module: str | None, level: int, is_pkg: bool) -> str:
        if level == 0:
            return module or ""
        parts = cur.split(".")
        if not is_pkg:
            parts = parts[:-1]
        parts = parts[: len(parts) - (level - 1)]
        if module:
            parts.append(module)
        return ".".join(parts)

    def _mkfunc(self, mi: ModuleInfo, cls: str | None, node: ast.FunctionDef, q: str) -> FuncInfo:
        src = ast.get_source_segment(mi.source, node) or ""
        decos = []
        for d in node.decorator_list:
            decos.append(ast.unparse(d))
        return FuncInfo(q, mi.name, cls, node, src, decos)

    def _load_class(self, mi: ModuleInfo, st: ast.ClassDef) -> None:
        q = f"{mi.name}.{st.name}"
        ci = ClassInfo(q, st.name, mi.name, [ast.unparse(b) for b in st.bases], node=st)
        for b in st.body:
            if isinstance(b, ast.FunctionDef):
                fi = self._mkfunc(mi, q, b, f"{q}.{b.name}")
                if any(d == "overload" for d in fi.decorators):
                    continue  # dropped: @overload stub
                ci.methods[b.name] = fi
                self.funcs[fi.qualname] = fi
            elif isinstance(b, (ast.Assign, ast.AnnAssign)):
                tgts = b.targets if isinstance(b, ast.Assign) else [b.target]
                if b.value is None:
                    continue
                for t in tgts:
                    if isinstance(t, ast.Name) and t.id not in ("__slots__", "__match_args__"):
                        ci.consts[t.id] = b.value
        self.classes[q] = ci
        mi.names[st.name] = ("class", q)

    # ------------------------------------------------------------------ link
    def _link(self) -> None:
        # resolve imports transitively to ('class'|'func'|'constexpr', ...) entries
        for mi in self.modules.values():
            for name, (kind, tgt) in list(mi.names.items()):
                if kind == "import":
                    r = self._follow(str(tgt), 0)
                    if r is not None:
                        mi.names[name] = r

    def _follow(self, dotted: str, depth: int):
        if depth > 8:
            return None
        if dotted in self.modules:
            return ("module", dotted)
        mod, _, name = dotted.rpartition(".")
        mi = self.modules.get(mod)
        if mi is None:
            return ("external", dotted)
        ent = mi.names.get(name)
        if ent is None:
            return ("external", dotted)
        if ent[0] == "import":
            return self._follow(str(ent[1]), depth + 1)
        if ent[0] == "constexpr":
            return ("constexpr_in", (mod, ent[1]))
        return ent

    # ------------------------------------------------------------------ queries
    def resolve_class(self, module: str, name: str) -> ClassInfo | None:
        mi = self.modules.get(module)
        if mi is None:
            return None
        ent = mi.names.get(name)
        if ent and ent[0] == "class":
            return self.classes[str(ent[1])]
        return None

    def mro(self, qual: str) -> list[ClassInfo]:
        out: list[ClassInfo] = []
        seen: set[str] = set()

        def visit(q: str) -> None:
            ci = self.classes.get(q)
            if ci is None or q in seen:
                return
            seen.add(q)
            out.append(ci)
            for b in ci.bases:
                base = b.split("[")[0]
                bc = self.resolve_class(ci.module, base)
                if bc is not None:
                    visit(bc.qualname)

        visit(qual)
        return out

    def find_method(self, qual: str, name: str) -> FuncInfo | None:
        for ci in self.mro(qual):
            if name in ci.methods:
                return ci.methods[name]
        return None

    def is_subclass(self, qual: str, base_qual: str) -> bool:
        return any(c.qualname == base_qual for c in self.mro(qual))

    def body_of(self, fi: FuncInfo) -> list[ast.stmt]:
        return _strip_docstring(fi.node.body)
