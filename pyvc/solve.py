"""Discharge obligations: z3 first, cvc5 on unknown; 16-process pool.

Verdict per obligation: proved (unsat of hyps ∧ ¬goal), refuted (sat, with model),
undecided (unknown/timeout on both back ends), fault (solver error / disagreement).
`cover` obligations are the opposite polarity: their hypotheses must be satisfiable
(vacuity guard); sat = ok, unsat = fault(vacuous).
"""
from __future__ import annotations

import multiprocessing as mp
import os
import re
from pathlib import Path
import subprocess
import sys
import tempfile
import time
from dataclasses import dataclass, field

import z3

from .engine import Obligation

CVC5 = "/usr/bin/cvc5"


@dataclass
class Verdict:
    name: str
    fn: str
    clause: str
    trace: str
    status: str  # proved | refuted | undecided | fault | covered | vacuous
    backend: str
    seconds: float
    model: dict[str, str] = field(default_factory=dict)
    detail: str = ""
    note: str = ""


@dataclass
class FlatObligation:
    """an obligation after exploration, reduced to what travels between processes: the SMT-LIB text and a few strings"""

    name: str
    fn: str
    clause: str
    trace: str
    smt: str
    note: str = ""
    nhyps: int = 0
    goal_str: str = ""

    @property
    def hyps(self) -> list[int]:  # len(o.hyps) is all the report needs
        return [0] * self.nhyps

    @property
    def goal(self) -> str:
        return self.goal_str


def flatten(o: Obligation) -> FlatObligation:
    cover = o.clause.startswith("cover")
    g = o.goal.sexpr() if hasattr(o.goal, "sexpr") else str(o.goal)  # (the Python pretty-printer is far too slow for big terms)
    return FlatObligation(o.name, o.fn, o.clause, o.trace, to_smt2(o, cover), o.note, len(o.hyps), " ".join(g.split())[:400])


def to_smt2(o: Obligation, cover: bool = False) -> str:
    s = z3.Solver()
    for h in o.hyps:
        s.add(h)
    if not cover:
        s.add(z3.Not(o.goal))
        for k, t in o.watch.items():
            c = z3.Const(f"w!{k}", t.sort())
            s.add(c == t)
    return s.to_smt2()


def _run_z3(smt: str, timeout_ms: int) -> tuple[str, dict[str, str], str]:
    s = z3.Solver()
    s.set("timeout", timeout_ms)
    try:
        s.from_string(smt)
        r = s.check()
    except z3.Z3Exception as e:  # noqa: BLE001
        return "error", {}, str(e)[:300]
    if r == z3.unsat:
        return "unsat", {}, ""
    if r == z3.sat:
        m = s.model()
        # z3's sequence solver has answered `sat` with a model that falsifies an assertion (observed: the same
        # query is unsat under 11 of 12 random seeds and in cvc5): a `sat` counts only when the model checks.
        inconclusive = False
        for a in s.assertions():
            try:
                v = m.eval(a, model_completion=True)
            except z3.Z3Exception:
                inconclusive = True
                continue
            if z3.is_false(v):
                return "unknown", {}, "z3 answered sat with a model that falsifies an assertion (discarded)"
            if not z3.is_true(v):
                inconclusive = True
        out = {}
        if inconclusive:
            out["$unvalidated"] = "model evaluation inconclusive"
        for d in m.decls():
            nm = d.name()
            if nm.startswith("w!"):
                out[nm[2:]] = str(m[d])
        full = {}
        for d in m.decls():
            if d.arity() == 0 and not d.name().startswith("w!"):
                v = str(m[d])
                if len(v) < 200:
                    full[d.name()] = v
        out["$model"] = "; ".join(f"{k}={v}" for k, v in sorted(full.items())[:60])
        return "sat", out, ""
    return "unknown", {}, s.reason_unknown()


def _run_cvc5(smt: str, timeout_ms: int) -> tuple[str, str]:
    txt = re.sub(r"\(set-info :status \w+\)", "", smt)
    txt = "(set-logic ALL)\n" + txt
    with tempfile.NamedTemporaryFile("w", suffix=".smt2", delete=False, dir=os.environ.get("PYVC_WORK", None)) as f:
        f.write(txt)
        path = f.name
    try:
        p = subprocess.run(
            [CVC5, "--strings-exp", f"--tlimit={timeout_ms}", path],
            capture_output=True,
            text=True,
            timeout=timeout_ms / 1000 + 5,
            check=False,
        )
        out = p.stdout.strip().splitlines()
        r = out[0] if out else "unknown"
        if r not in ("sat", "unsat", "unknown"):
            return "error", (p.stdout + p.stderr)[:300]
        return r, ""
    except subprocess.TimeoutExpired:
        return "unknown", "timeout"
    finally:
        os.unlink(path)


def _cvc5_sat_check(smt: str, timeout_ms: int) -> str:
    """re-check a `sat` of the cvc5 CLI: ask it for the values of the constants and evaluate the assertions under them
    with z3's simplifier -> 'valid' | 'invalid' | 'inconclusive' (functions, unparsable values)"""
    try:
        sol = z3.Solver()
        sol.from_string(smt)
        consts: dict[str, z3.ExprRef] = {}

        def walk(e, seen):
            if e.get_id() in seen:
                return
            seen.add(e.get_id())
            if z3.is_const(e) and e.decl().kind() == z3.Z3_OP_UNINTERPRETED:
                consts[e.decl().name()] = e
            for c in e.children():
                walk(c, seen)

        seen: set[int] = set()
        for a in sol.assertions():
            walk(a, seen)
        names = [n for n, c in consts.items() if c.sort().kind() in (z3.Z3_INT_SORT, z3.Z3_BOOL_SORT) or c.sort() == z3.StringSort()]
        if not names:
            return "inconclusive"
        txt = re.sub(r"\(set-info :status \w+\)", "", smt)
        q = "(set-logic ALL)\n(set-option :produce-models true)\n" + txt.replace("(check-sat)", "(check-sat)\n(get-value (" + " ".join(f"|{n}|" for n in names) + "))")
        with tempfile.NamedTemporaryFile("w", suffix=".smt2", delete=False, dir=os.environ.get("PYVC_WORK", None)) as f:
            f.write(q)
            path = f.name
        try:
            p = subprocess.run([CVC5, "--strings-exp", f"--tlimit={timeout_ms}", path], capture_output=True, text=True, timeout=timeout_ms / 1000 + 5, check=False)
        finally:
            os.unlink(path)
        out = p.stdout.strip()
        if not out.startswith("sat"):
            return "inconclusive"
        body = out[out.index("\n") + 1 :] if "\n" in out else ""
        vals = z3.parse_smt2_string("\n".join(f"(declare-fun |{n}| () {consts[n].sort().sexpr()})" for n in names) + "\n" + "\n".join(
            f"(assert (= |{m.group(1)}| {m.group(2)}))" for m in re.finditer(r"\(\|?([^\s|()]+)\|?\s+((?:\"(?:[^\"]|\"\")*\")|\(- \d+\)|-?\d+|true|false)\)", body)))
        sub = []
        for eq in vals:
            lhs, rhs = eq.children()
            sub.append((consts[lhs.decl().name()], rhs))
        if len(sub) < len(consts):
            # constants of other sorts (datatypes, sequences) or missing values: cannot evaluate everything
            pass
        verdict = "valid"
        for a in sol.assertions():
            v = z3.simplify(z3.substitute(a, *sub))
            if z3.is_false(v):
                return "invalid"
            if not z3.is_true(v):
                verdict = "inconclusive"
        return verdict
    except Exception:  # noqa: BLE001
        return "inconclusive"


def _run_cvc5_14(smt: str, timeout_ms: int) -> str:
    """cvc5 1.4 (Python wheel, own process): tie-breaker for the older CLI's `sat` answers"""
    txt = re.sub(r"\(set-info :status \w+\)", "", smt)
    txt = "(set-logic ALL)\n" + txt
    with tempfile.NamedTemporaryFile("w", suffix=".smt2", delete=False, dir=os.environ.get("PYVC_WORK", None)) as f:
        f.write(txt)
        path = f.name
    try:
        p = subprocess.run([sys.executable, "-m", "pyvc.cvc5run", path, str(timeout_ms)], capture_output=True, text=True, timeout=timeout_ms / 1000 + 10, check=False,
                           cwd=str(Path(__file__).resolve().parent.parent))
        out = p.stdout.strip().splitlines()
        return out[-1] if out and out[-1] in ("sat", "unsat", "unknown") else "unknown"
    except subprocess.TimeoutExpired:
        return "unknown"
    finally:
        os.unlink(path)


def _work(job: tuple[int, str, bool, int, bool]) -> tuple[int, str, str, float, dict[str, str], str]:
    i, smt, cover, timeout_ms, cross = job
    t0 = time.time()
    # portfolio: z3 with a short budget, cvc5 with the full budget, z3 again with the full budget
    short = min(timeout_ms, 3000)
    r, model, why = _run_z3(smt, short)
    backend = "z3"
    if cover and timeout_ms <= short and r in ("unknown", "error"):
        return i, "undecided", "z3", time.time() - t0, {}, f"cover: z3 {why or r} within {short} ms (no portfolio for covers of this function)"
    if r == "sat" and "$unvalidated" in model and not cover:
        # a refutation needs a checked model or the second solver's agreement
        r2, why2 = _run_cvc5(smt, timeout_ms)
        if r2 == "unsat":
            r, model, why = "unsat", {}, ""
            backend = "cvc5"
        elif r2 != "sat":
            r, why = "unknown", f"z3 sat (model not checkable), cvc5 {why2 or r2}"
            model = {}
            dt = time.time() - t0
            return i, "undecided", "z3+cvc5", dt, {}, why
        else:
            backend = "z3+cvc5"
    if r in ("unknown", "error"):
        r2, why2 = _run_cvc5(smt, min(timeout_ms, 20000))
        if r2 in ("sat", "unsat"):
            r, backend, why = r2, "cvc5", ""
            if r2 == "sat" and _cvc5_sat_check(smt, timeout_ms) == "invalid":
                r3, model3, why3 = _run_z3(smt, timeout_ms)
                if r3 in ("sat", "unsat"):
                    r, backend, model, why = r3, "z3", model3, "cvc5 1.0.3's sat discarded (its model falsifies an assertion)"
                else:
                    return i, "undecided", "z3+cvc5", time.time() - t0, {}, f"cvc5 1.0.3's sat discarded (invalid model); z3: {why3}"
            elif r2 == "sat":
                # cvc5 1.0.3's `sat` is believed only when confirmed: a checked z3 model, or cvc5 1.4 agreeing
                r3, model3, _ = _run_z3(smt, timeout_ms)
                if r3 == "sat":
                    model = model3
                else:
                    r4 = _run_cvc5_14(smt, timeout_ms)
                    if r3 == "unsat" and r4 != "sat":
                        r, backend, why = "unsat", "z3", "cvc5 1.0.3 answered sat, overruled by z3" + (" and cvc5 1.4" if r4 == "unsat" else "")
                    elif r3 == "unsat":
                        return i, "fault", "z3+cvc5", time.time() - t0, {}, "solver disagreement: cvc5 1.0.3 and 1.4 sat, z3 unsat"
                    elif r4 == "unsat":
                        r, backend, why = "unsat", "cvc5-1.4", "cvc5 1.0.3 answered sat, overruled by cvc5 1.4"
                    elif r4 != "sat":
                        return i, "undecided", "cvc5", time.time() - t0, {}, "cvc5 1.0.3 sat, neither z3 nor cvc5 1.4 confirms within the budget"
                    else:
                        backend = "cvc5+cvc5-1.4"
        elif timeout_ms > short:
            r3, model3, why3 = _run_z3(smt, timeout_ms)
            if r3 in ("sat", "unsat"):
                r, model, why = r3, model3, ""
            elif timeout_ms > 20000:
                r5, why5 = _run_cvc5(smt, timeout_ms)  # last resort: cvc5 with the full budget (its `sat` would need the re-check above: only `unsat` is taken)
                if r5 == "unsat":
                    r, backend, why = "unsat", "cvc5", ""
                else:
                    why = f"z3:{why3} cvc5:{why5 or r5}"
            else:
                why = f"z3:{why3} cvc5:{why2 or r2}"
        else:
            why = f"z3:{why} cvc5:{why2 or r2}"
    elif cross and r == "unsat":
        r2, _ = _run_cvc5(smt, timeout_ms)
        if r2 == "sat" and _cvc5_sat_check(smt, timeout_ms) == "invalid":
            backend = "z3 (cvc5 1.0.3 answered sat with a model that falsifies an assertion: discarded)"
        elif r2 == "sat":
            r4 = _run_cvc5_14(smt, timeout_ms)  # the old CLI has answered sat wrongly on RE queries: ask cvc5 1.4
            if r4 == "sat":
                return i, "fault", "z3+cvc5", time.time() - t0, {}, "solver disagreement: z3 unsat, cvc5 1.0.3 and 1.4 sat"
            backend = "z3+cvc5-1.4" if r4 == "unsat" else "z3 (cvc5 1.0.3 sat unconfirmed by cvc5 1.4)"
            if r4 != "unsat":
                return i, "fault", "z3+cvc5", time.time() - t0, {}, "solver disagreement: z3 unsat, cvc5 1.0.3 sat, cvc5 1.4 undecided"
        else:
            backend = "z3+cvc5" if r2 == "unsat" else "z3"
    dt = time.time() - t0
    if cover:
        st = {"sat": "covered", "unsat": "vacuous", "error": "fault"}.get(r, "undecided")
    else:
        st = {"unsat": "proved", "sat": "refuted", "error": "fault"}.get(r, "undecided")
    return i, st, backend, dt, model, why


def discharge(obls: list[Obligation], timeout_ms: int = 10000, procs: int | None = None, cross: bool = False, cheap_covers: frozenset = frozenset()) -> list[Verdict]:
    jobs = []
    for i, o in enumerate(obls):
        cover = o.clause.startswith("cover")
        # trivial goals need no solver
        # covers of functions whose Spec facts are kept out of the feasibility solver (dead paths tolerated) are hard `sat`
        # queries: one short z3 attempt only; an undecided cover there is reported, not an error (report.py)
        t_ms = 3000 if cover and o.fn in cheap_covers else timeout_ms
        jobs.append((i, o.smt if isinstance(o, FlatObligation) else to_smt2(o, cover), cover, t_ms, cross))
    procs = procs or min(16, os.cpu_count() or 4)
    out: list[Verdict | None] = [None] * len(obls)
    if not jobs:
        return []
    if len(jobs) < 4 or procs == 1:
        results = [_work(j) for j in jobs]
    else:
        ctx = mp.get_context("fork")
        with ctx.Pool(procs) as pool:
            results = pool.map(_work, jobs, chunksize=max(1, len(jobs) // (procs * 8)))
    for i, st, backend, dt, model, why in results:
        o = obls[i]
        out[i] = Verdict(o.name, o.fn, o.clause, o.trace, st, backend, dt, model, why, o.note)
    return [v for v in out if v is not None]
