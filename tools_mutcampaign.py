"""Mutation campaign: how many small, test-surviving changes of the code under contract do the checks report?

  .venv/bin/python tools_mutcampaign.py --seed 1 --n 120 --jobs 4 [--files stack.py,state.py,...] [--out .work/mutcampaign.json]

For each sampled mutant (one AST-level change in one statement of a function on the verified paths):
  1. build a scratch copy of /repo (src, tests, examples) under /tmp, splice the mutated statement in;
  2. run the repository's test suite on it; a mutant the tests kill is not interesting (status `tests`);
  3. run the property checks mapped to that file (PYVC_REPO=<scratch>, evidence to a scratch dir);
     exit 1 -> `caught` (VIOLATION), exit 2/3 -> `undecided` / `fault` (reported, not silent), exit 0 -> `survived`.
Survivors are either equivalent mutants or holes in the contracts: triage by hand (DESIGN.md 10.10).
Nothing here is part of a registered check.
"""
from __future__ import annotations

import argparse
import ast
import copy
import json
import os
import random
import shutil
import subprocess
import sys
import tempfile
from concurrent.futures import ThreadPoolExecutor
from pathlib import Path

REPO = Path("/repo")
SRC = REPO / "src" / "pest"
FILE_PROPS = {
    "stack.py": ["C09"],
    "state.py": ["C09", "C04", "C13"],
    "pairs.py": ["C14", "C06"],
    "pratt.py": ["C18"],
    "exceptions.py": ["C13"],
    "parser.py": ["C03", "C07"],
    "grammar/rule.py": ["C04", "C06"],
    "grammar/scanner.py": ["C10", "C11"],
    "grammar/parser.py": ["C10"],
    "grammar/unescape.py": ["C12"],
    "grammar/exceptions.py": ["C11"],
    "grammar/expressions/terminals.py": ["C03", "C05", "C16"],
    "grammar/expressions/postfix.py": ["C03", "C04"],
    "grammar/expressions/prefix.py": ["C03", "C05"],
    "grammar/expressions/choice.py": ["C03", "C02"],
    "grammar/expressions/sequence.py": ["C03", "C04"],
    "grammar/expressions/group.py": ["C03"],
    "grammar/optimizers/skippers.py": ["C02"],
    "grammar/optimizers/squash_choice.py": ["C02"],
    "grammar/optimizers/inliners.py": ["C02"],
    "grammar/optimizers/unroller.py": ["C02", "C03"],
    "grammar/optimizer.py": ["C02"],
}
# __str__, dump, dumps, __len__, __getitem__ are under contract since session 3 (c13_render, c11_render, c06_dump, c06_access)
SKIP_FUNCS = {"__repr__", "__eq__", "__hash__", "tree_view", "children", "with_children", "__iter__"}

CMP = {ast.Lt: ast.LtE, ast.LtE: ast.Lt, ast.Gt: ast.GtE, ast.GtE: ast.Gt, ast.Eq: ast.NotEq, ast.NotEq: ast.Eq, ast.Is: ast.IsNot, ast.IsNot: ast.Is, ast.In: ast.NotIn, ast.NotIn: ast.In}


def sites(fn: ast.FunctionDef):
    """-> [(stmt, description, mutator)] where mutator(stmt_copy) edits the copy in place (or returns a replacement)"""
    out = []
    for st in ast.walk(fn):
        if not isinstance(st, ast.stmt) or isinstance(st, (ast.FunctionDef, ast.ClassDef, ast.Import, ast.ImportFrom)):
            continue
        if isinstance(st, ast.Expr) and isinstance(st.value, ast.Constant):
            continue  # docstring
        own = [n for n in _own_nodes(st)]
        for k, n in enumerate(own):
            if isinstance(n, ast.Compare) and len(n.ops) == 1 and type(n.ops[0]) in CMP:
                out.append((st, f"compare {type(n.ops[0]).__name__}->{CMP[type(n.ops[0])].__name__}", ("cmp", k)))
            if isinstance(n, ast.BoolOp):
                out.append((st, f"boolop {type(n.op).__name__} flipped", ("bool", k)))
            if isinstance(n, ast.UnaryOp) and isinstance(n.op, ast.Not):
                out.append((st, "not removed", ("not", k)))
            if isinstance(n, ast.Constant) and isinstance(n.value, bool):
                out.append((st, f"{n.value}->{not n.value}", ("boolc", k)))
            elif isinstance(n, ast.Constant) and isinstance(n.value, int) and abs(n.value) <= 64:
                out.append((st, f"{n.value}->{n.value + 1}", ("int+", k)))
                out.append((st, f"{n.value}->{n.value - 1}", ("int-", k)))
            if isinstance(n, ast.BinOp) and isinstance(n.op, (ast.Add, ast.Sub)):
                out.append((st, f"{type(n.op).__name__} flipped", ("arith", k)))
        if isinstance(st, (ast.If, ast.While)) and not (isinstance(st.test, ast.Constant)):
            out.append((st, "condition negated", ("negtest", -1)))
        if isinstance(st, ast.Expr) and isinstance(st.value, ast.Call):
            out.append((st, "call statement deleted", ("delete", -1)))
        if isinstance(st, ast.AugAssign):
            out.append((st, "augmented assignment deleted", ("delete", -1)))
        if isinstance(st, ast.Break):
            out.append((st, "break->continue", ("brk", -1)))
        if isinstance(st, ast.Return) and isinstance(st.value, ast.Constant) and isinstance(st.value.value, bool):
            pass  # covered by boolc
    return out


def _own_nodes(st: ast.stmt):
    """expression nodes of the statement itself (not of nested statements)"""
    todo = []
    for f, v in ast.iter_fields(st):
        if f in ("body", "orelse", "finalbody", "handlers"):
            continue
        if isinstance(v, ast.AST):
            todo.append(v)
        elif isinstance(v, list):
            todo += [x for x in v if isinstance(x, ast.AST)]
    out = []
    while todo:
        n = todo.pop(0)
        if isinstance(n, ast.stmt):
            continue
        out.append(n)
        todo += list(ast.iter_child_nodes(n))
    return out


def apply(st: ast.stmt, how) -> ast.stmt | None:
    kind, k = how
    new = copy.deepcopy(st)
    if kind == "delete":
        return ast.Pass()
    if kind == "brk":
        return ast.Continue()
    if kind == "negtest":
        new.test = ast.UnaryOp(op=ast.Not(), operand=new.test)
        return new
    n = _own_nodes(new)[k]
    if kind == "cmp":
        n.ops = [CMP[type(n.ops[0])]()]
    elif kind == "bool":
        n.op = ast.Or() if isinstance(n.op, ast.And) else ast.And()
    elif kind == "not":
        # replace in parent: simplest is to turn `not x` into `not not x`
        n.operand = ast.UnaryOp(op=ast.Not(), operand=n.operand)
    elif kind == "boolc":
        n.value = not n.value
    elif kind == "int+":
        n.value = n.value + 1
    elif kind == "int-":
        n.value = n.value - 1
    elif kind == "arith":
        n.op = ast.Sub() if isinstance(n.op, ast.Add) else ast.Add()
    return new


def splice(src: str, st: ast.stmt, new: ast.stmt) -> str:
    lines = src.split("\n")
    first = lines[st.lineno - 1]
    indent = first[: len(first) - len(first.lstrip())]
    if isinstance(st, (ast.If, ast.While, ast.For, ast.With, ast.Try)):
        # compound statement: only its header is re-printed; the body text stays
        hdr_end = st.body[0].lineno - 1  # first body line (0-based index of the line after the header)
        text = ast.unparse(ast.fix_missing_locations(new)).split("\n")[0]
        return "\n".join(lines[: st.lineno - 1] + [indent + text] + lines[hdr_end:])
    text = ast.unparse(ast.fix_missing_locations(new)).split("\n")
    return "\n".join(lines[: st.lineno - 1] + [indent + t for t in text] + lines[st.end_lineno :])


def enumerate_mutants(files: list[str]):
    out = []
    for rel in files:
        p = SRC / rel
        src = p.read_text()
        tree = ast.parse(src)
        for cls in [n for n in ast.walk(tree) if isinstance(n, (ast.ClassDef, ast.Module))]:
            for fn in [f for f in getattr(cls, "body", []) if isinstance(f, ast.FunctionDef)]:
                if fn.name in SKIP_FUNCS:
                    continue
                owner = cls.name if isinstance(cls, ast.ClassDef) else ""
                for st, desc, how in sites(fn):
                    if isinstance(st, ast.If) and isinstance(st.body[0], ast.stmt) and st.body[0].lineno == st.lineno:
                        continue  # one-line if
                    out.append({"file": rel, "func": f"{owner}.{fn.name}" if owner else fn.name, "line": st.lineno, "desc": desc, "how": how, "stmt_line": st.lineno, "end": st.end_lineno})
    return out


def props_for(m) -> list[str]:
    if m["func"].split(".")[-1].startswith("generate"):
        return ["C01"]
    return FILE_PROPS.get(m["file"], [])


def run_mutant(m, keep_going=True) -> dict:
    rel = m["file"]
    src = (SRC / rel).read_text()
    tree = ast.parse(src)
    st = next((s for s in ast.walk(tree) if isinstance(s, ast.stmt) and getattr(s, "lineno", None) == m["stmt_line"] and getattr(s, "end_lineno", None) == m["end"]
               and any(d == m["desc"] and h == tuple(m["how"]) for _s, d, h in sites_of_stmt(s))), None)
    if st is None:
        return {**m, "status": "skipped", "why": "site not found"}
    new = apply(st, tuple(m["how"]))
    try:
        text = splice(src, st, new)
        ast.parse(text)
    except Exception as e:  # noqa: BLE001
        return {**m, "status": "skipped", "why": f"splice: {e}"}
    if text == src:
        return {**m, "status": "skipped", "why": "no textual change"}
    d = Path(tempfile.mkdtemp(prefix="pyvc_mc_"))
    try:
        shutil.copytree(REPO / "src", d / "src")
        shutil.copytree(REPO / "tests", d / "tests")
        shutil.copytree(REPO / "examples", d / "examples")
        for f in ("pyproject.toml", "README.md"):
            if (REPO / f).exists():
                shutil.copy(REPO / f, d / f)
        (d / "src" / "pest" / rel).write_text(text)
        env = {**os.environ, "PYTHONPATH": str(d / "src")}
        try:
            t = subprocess.run(["/venv/bin/python", "-m", "pytest", "-q", "-p", "no:cacheprovider", "--timeout=30", "--maxfail=3", "--continue-on-collection-errors"], cwd=d, env=env, capture_output=True, text=True, timeout=400, check=False)
        except subprocess.TimeoutExpired:
            return {**m, "status": "tests", "tests": "suite hangs"}
        tail = (t.stdout.strip().splitlines() or [""])[-1]
        # baseline: "678 passed, 1 error" (the one expected collection error)
        if " failed" in tail or "678 passed" not in tail or "1 error" not in tail:
            return {**m, "status": "tests", "tests": tail[:80]}
        res = {}
        status = "survived"
        for prop in props_for(m):
            env2 = {**os.environ, "PYVC_REPO": str(d), "PYVC_OUT": str(d / "out")}
            c = subprocess.run(["./check", prop], cwd="/verif", env=env2, capture_output=True, text=True, timeout=3000, check=False)
            res[prop] = c.returncode
            lines = [ln for ln in c.stdout.splitlines() if ln.startswith(("VIOLATION", "UNDECIDED", "FAULT"))]
            if c.returncode == 1:
                status = "caught"
                m = {**m, "by": prop, "first": lines[0][:200] if lines else ""}
                break
            if c.returncode in (2, 3) and status == "survived":
                status = "undecided" if c.returncode == 2 else "fault"
                m = {**m, "by": prop, "first": lines[0][:200] if lines else ""}
        return {**m, "status": status, "checks": res}
    finally:
        shutil.rmtree(d, ignore_errors=True)


def sites_of_stmt(s: ast.stmt):
    fake = ast.FunctionDef(name="f", args=ast.arguments(posonlyargs=[], args=[], kwonlyargs=[], kw_defaults=[], defaults=[]), body=[s], decorator_list=[])
    return [(st, d, h) for st, d, h in sites(fake) if st is s]


def main() -> int:
    ap = argparse.ArgumentParser()
    ap.add_argument("--seed", type=int, default=1)
    ap.add_argument("--n", type=int, default=100)
    ap.add_argument("--jobs", type=int, default=4)
    ap.add_argument("--files", default="")
    ap.add_argument("--out", default="/verif/.work/mutcampaign.json")
    a = ap.parse_args()
    files = [f for f in (a.files.split(",") if a.files else FILE_PROPS)]
    allm = [m for m in enumerate_mutants(files) if props_for(m)]
    rnd = random.Random(a.seed)
    rnd.shuffle(allm)
    pick = allm[: a.n]
    print(f"{len(allm)} candidate mutants, running {len(pick)}", flush=True)
    results = []
    def safe(m):
        try:
            return run_mutant(m)
        except Exception as e:  # noqa: BLE001
            return {**m, "status": "skipped", "why": f"{type(e).__name__}: {e}"[:200]}

    with ThreadPoolExecutor(a.jobs) as ex:
        for r in ex.map(safe, pick):
            results.append(r)
            print(f"{r['status']:10s} {r['file']}:{r['line']} {r['func']} {r['desc']} {r.get('by', '')} {r.get('checks', r.get('tests', r.get('why', '')))}", flush=True)
            Path(a.out).write_text(json.dumps(results, indent=1))
    from collections import Counter

    print(Counter(r["status"] for r in results))
    return 0


if __name__ == "__main__":
    sys.exit(main())
