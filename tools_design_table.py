"""Rewrite the obligation / function counts in DESIGN.md's table 10.2 from the evidence files of the last runs."""
import json
import re

s = open("DESIGN.md").read()
for pid in ["C%02d" % i for i in range(1, 19)]:
    try:
        d = json.load(open(f"evidence/{pid}.json"))
    except FileNotFoundError:
        continue
    c = d["coverage"]
    n, f = c["obligations"], len(c["functions_under_contract"])
    # row: | C01 | 3578 | 68: ...
    s, k = re.subn(rf"(\n\| {pid} \| )\d+( \| )\d+(:)", rf"\g<1>{n}\g<2>{f}\g<3>", s, count=1)
    print(pid, n, f, "updated" if k else "row not found")
open("DESIGN.md", "w").write(s)
