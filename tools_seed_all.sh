#!/bin/bash
# tools_seed_all.sh : every recorded seed against the property it was written for; prints one line per seed.
cd /verif
for d in seeded/*/; do
  ID=$(basename $d)
  out=$(./tools_seed.sh $ID $ID 2>&1)
  ex=$(echo "$out" | grep -o "exit\[$ID\]=[0-9]*")
  nv=$(echo "$out" | grep -c VIOLATION)
  echo "seed $ID: $ex violations=$nv"
done
git -C /repo status --short | head -3
