#!/bin/bash
# tools_seed_all.sh : every recorded seed against the property it was written for; prints one line per seed.
cd /verif
for d in seeded/*/; do
  ID=$(basename $d)
  P=${ID:0:3}   # seeded/C01b is a second seed for property C01
  out=$(./tools_seed.sh $ID $P 2>&1)
  ex=$(echo "$out" | grep -o "exit\[$P\]=[0-9]*")
  nv=$(echo "$out" | grep -c VIOLATION)
  echo "seed $ID: $ex violations=$nv"
done
git -C /repo status --short | head -3
